------------------------------- MODULE Output -------------------------------
(***************************************************************************)
(* Payload output of Routinator: src/output.rs (selection, the formatter   *)
(* state machine behind `Output::write` / `Output::stream`) and the string *)
(* escaping used by the JSON and Prometheus documents (src/utils/json.rs   *)
(* `json_str`, src/http/metrics.rs `LabelValue::label`, and the places in  *)
(* src/output.rs that print a trust-anchor name verbatim).                 *)
(*                                                                         *)
(* Part (a), C21: a data set (route origins, router keys, ASPAs, each with *)
(* a provenance), a selection (select-asn*, select-prefix*, more-specifics)*)
(* and type exclusions are pushed through the stream state machine of one  *)
(* format family.  The output is a sequence of abstract tokens.  Property: *)
(* every item the *documented* selection admits is listed exactly once,    *)
(* nothing else is listed, and the punctuation (commas, array brackets,    *)
(* header, footer) forms a well-formed document of the family.             *)
(*                                                                         *)
(* Part (b), C21/C22: escaping transducers over strings of character       *)
(* classes.  Property: for every site where an externally chosen string    *)
(* (trust-anchor name, SLURM comment, log message) is written into a JSON  *)
(* string or a Prometheus label value, reading the written text back with  *)
(* the grammar of the document yields the original string (in particular   *)
(* the text never leaves the string).                                      *)
(*                                                                         *)
(* Variant = "as_shipped" is the pinned tree: trust-anchor names verbatim  *)
(* in the json/slurm/slurm2 formats and in Prometheus label values,        *)
(* `json_str` escaping only the quote and the backslash.  "intended" is    *)
(* the design that satisfies C21/C22.                                      *)
(***************************************************************************)
EXTENDS Naturals, Integers, Sequences, FiniteSets, TLC

CONSTANTS MaxItems,   \* bound on the number of items in a data set
          MaxSel,     \* bound on the number of selectors (select-asn + select-prefix)
          MaxStr,     \* bound on the length of label strings
          Variant     \* "intended" | "as_shipped"

ASSUME Variant \in {"intended", "as_shipped"}

-----------------------------------------------------------------------------
(* Prefixes: an address family and the bit string below a per-family base  *)
(* (the replay puts the bits below 10.0.0.0/8 and 2001:db8::/32).          *)

P(f, b) == [fam |-> f, bits |-> b]
NoPfx   == P(0, <<>>)

(* rpki::resources::Prefix::covers as used by output.rs:276: same family,  *)
(* not longer, equal on the leading bits.                                  *)
Covers(a, b) ==
  /\ a.fam = b.fam
  /\ Len(a.bits) <= Len(b.bits)
  /\ SubSeq(b.bits, 1, Len(a.bits)) = a.bits

(* The documented meaning ("equal to or less specific"), independent of    *)
(* the bit comparison: a covers b iff every address of b is an address of  *)
(* a.  Addresses are bit strings of length Depth.                          *)
Depth == 3
Addrs(p) == {a \in [1..Depth -> {0, 1}] : \A i \in 1..Len(p.bits) : a[i] = p.bits[i]}
LessOrEquallySpecificDef(a, b) == a.fam = b.fam /\ Addrs(b) \subseteq Addrs(a)

-----------------------------------------------------------------------------
(* The universe of payload items.  t: "o" route origin, "k" router key,    *)
(* "a" ASPA (asn = customer).  ml: max-length as extra bits beyond the     *)
(* prefix length, -1 = none given (only the replay looks at it: the        *)
(* documentation says selection is regardless of max length).  prov: where *)
(* the item came from (a TAL, or a local exception with a comment).        *)

Item(t, id, asn, pfx, ml, prov) ==
  [t |-> t, id |-> id, asn |-> asn, pfx |-> pfx, ml |-> ml, prov |-> prov]
NoItem == Item("-", 0, 0, NoPfx, 0, "-")

Universe ==
  { Item("o", 1, 1, P(4, <<0>>),    0,  "tal"),      \* the less specific prefix
    Item("o", 2, 2, P(4, <<0, 0>>), 8,  "slurm"),    \* more specific, other ASN
    Item("o", 3, 1, P(6, <<>>),     -1, "tal"),      \* other address family
    Item("k", 1, 1, NoPfx, 0, "tal"),
    Item("k", 2, 2, NoPfx, 0, "slurm"),
    Item("a", 1, 2, NoPfx, 0, "tal"),
    Item("a", 2, 3, NoPfx, 0, "slurm") }

Types == {"o", "k", "a"}
Asns  == {1, 2, 3}

(* Prefixes that may be asked for with select-prefix: less specific than   *)
(* both v4 origins, equal to either, below both, below only the first, and *)
(* the same for the other family.                                          *)
QueryPrefixes ==
  { P(4, <<>>), P(4, <<0>>), P(4, <<0, 0>>), P(4, <<0, 0, 1>>), P(4, <<0, 1>>),
    P(6, <<>>), P(6, <<1>>) }

(* The relation as a table over the prefixes in play (TLC evaluates a       *)
(* constant definition once).                                              *)
AllPrefixes == QueryPrefixes \cup {x.pfx : x \in Universe}
LESTable == [pq \in AllPrefixes \X AllPrefixes |-> LessOrEquallySpecificDef(pq[1], pq[2])]
LessOrEquallySpecific(a, b) == LESTable[<<a, b>>]

DataSets == {d \in SUBSET Universe : Cardinality(d) <= MaxItems}

(* A selector is SelectResource (output.rs:260). *)
Selector(kind, asn, pfx) == [kind |-> kind, asn |-> asn, pfx |-> pfx]
Selectors == {Selector("asn", a, NoPfx) : a \in Asns}
             \cup {Selector("pfx", 0, q) : q \in QueryPrefixes}

(* Selection (output.rs:184).  The more-specifics flag only means          *)
(* something next to a prefix selector.                                    *)
Selections ==
  {s \in [res : {x \in SUBSET Selectors : Cardinality(x) <= MaxSel}, more : BOOLEAN] :
     s.more => \E x \in s.res : x.kind = "pfx"}

Exclusions == SUBSET Types

(* Part (b): the character classes label strings are made of. *)
Classes == {"plain", "quote", "bslash", "nl", "tab", "ctl", "uni"}
Strings == UNION {[1..n -> Classes] : n \in 0..MaxStr}

-----------------------------------------------------------------------------
(* The documented selection (doc/routinator.1, "vrps" and "HTTP SERVICE"): *)
(*  - without any selector everything is listed;                           *)
(*  - select-asn: items of that ASN;                                       *)
(*  - select-prefix: origins whose prefix is equal to or less specific     *)
(*    than the given one, regardless of ASN and max length; with           *)
(*    more-specifics also the origins with a more specific prefix;         *)
(*  - selectors combine as "or";                                           *)
(*  - no-route-origins / no-router-keys / no-aspas (exclude=...) drop a    *)
(*    whole type.                                                          *)
(* Router keys and ASPAs have no prefix; "related to the ASN" is the key's *)
(* ASN and the ASPA's customer ASN (output.rs:282,289).                    *)

DocSelected(sel, x) ==
  \/ sel.res = {}
  \/ \E r \in sel.res : r.kind = "asn" /\ r.asn = x.asn
  \/ /\ x.t = "o"
     /\ \E r \in sel.res :
          /\ r.kind = "pfx"
          /\ \/ LessOrEquallySpecific(x.pfx, r.pfx)
             \/ sel.more /\ LessOrEquallySpecific(r.pfx, x.pfx)

DocExpected(d, sel, excl) == {x \in d : x.t \notin excl /\ DocSelected(sel, x)}

-----------------------------------------------------------------------------
(* The code: Output::include_* (output.rs:443-462) -> Selection::include_* *)
(* (219-246) -> SelectResource::include_* (270-294).  The loop with early  *)
(* return over the Vec of resources is an existential.                     *)

RuleIncludes(r, x, more) ==
  IF r.kind = "asn" THEN x.asn = r.asn
  ELSE /\ x.t = "o"
       /\ \/ Covers(x.pfx, r.pfx)
          \/ more /\ Covers(r.pfx, x.pfx)

CodeIncludes(sel, x) ==
  IF sel.res = {} THEN TRUE                       \* selection: None
  ELSE \E r \in sel.res : RuleIncludes(r, x, sel.more)

-----------------------------------------------------------------------------
(* Format families.  The 13 formats of OutputFormat::VALUES (output.rs:94) *)
(* and what their Formatter implementations print.                         *)

Families == {"lines", "json", "slurm1", "slurm2", "summary", "none"}

Formats ==
  [ csv       |-> "lines", csvcompat |-> "lines", csvext |-> "lines",
    json      |-> "json",  jsonext   |-> "json",
    slurm     |-> "slurm1", slurm2   |-> "slurm2",
    openbgpd  |-> "lines", bird1 |-> "lines", bird2 |-> "lines", rpsl |-> "lines",
    summary   |-> "summary", none |-> "none" ]

(* The payload types a family has an item syntax for. *)
Lists(f) == CASE f = "lines"  -> {"o"}
              [] f = "json"   -> {"o", "k", "a"}
              [] f = "slurm1" -> {"o", "k"}
              [] f = "slurm2" -> {"o", "k", "a"}
              [] OTHER        -> {}

Tok(k, x) == [k |-> k, x |-> x]
T(k) == Tok(k, NoItem)
TypeTag(t) == Item(t, 0, 0, NoPfx, 0, "-")

RECURSIVE SeqById(_)
SeqById(S) == IF S = {} THEN <<>>
              ELSE LET m == CHOOSE x \in S : \A y \in S : x.id <= y.id
                   IN <<m>> \o SeqById(S \ {m})

-----------------------------------------------------------------------------
VARIABLES mode,    \* "format" (part a) or "escape" (part b)
          fam, data, sel, excl,
          pc,      \* StreamState (output.rs:483)
          out,     \* tokens written so far
          str      \* part (b): the string under test

vars == <<mode, fam, data, sel, excl, pc, out, str>>

NoSelection == [res |-> {}, more |-> FALSE]

Init ==
  \/ /\ mode = "format"
     /\ fam \in Families
     /\ data \in DataSets
     /\ sel \in Selections
     /\ excl \in Exclusions
     /\ pc = "Header"
     /\ out = <<>>
     /\ str = <<>>
  \/ /\ mode = "escape"
     /\ str \in Strings
     /\ fam = "none" /\ data = {} /\ sel = NoSelection /\ excl = {}
     /\ pc = "Done" /\ out = <<>>

(* Formatter::footer is called when the next state is Done (output.rs:598). *)
Footer == CASE fam \in {"json", "slurm1", "slurm2"} -> <<T("ftr")>>
            [] fam = "lines" -> <<T("ftr_line")>>          \* openbgpd: "}"
            [] OTHER -> <<>>

Goto(next, toks) ==
  /\ mode = "format"
  /\ pc' = next
  /\ out' = out \o toks \o (IF next = "Done" THEN Footer ELSE <<>>)
  /\ UNCHANGED <<mode, fam, data, sel, excl, str>>

(* The item loops (output.rs:529-545, 552-568, 575-591): skip what is not  *)
(* included, delimiter before every item but the first.                    *)
Delimiter == IF fam \in {"json", "slurm1", "slurm2"} THEN <<T("comma")>> ELSE <<>>
ItemToks(x) == IF x.t \in Lists(fam) THEN <<Tok("item", x)>> ELSE <<>>   \* default methods print nothing

RECURSIVE Loop(_, _)
Loop(items, first) ==
  IF items = <<>> THEN <<>>
  ELSE LET x == Head(items) IN
       IF ~CodeIncludes(sel, x) THEN Loop(Tail(items), first)
       ELSE (IF first THEN <<>> ELSE Delimiter) \o ItemToks(x) \o Loop(Tail(items), FALSE)

OfType(t) == SeqById({x \in data : x.t = t})

(* Formatter::header *)
Header ==
  /\ pc = "Header"
  /\ CASE fam = "json"    -> Goto("OriginBefore", <<T("hdr_member")>>)  \* `{ "metadata": {..}` (873, 1073)
       [] fam \in {"slurm1", "slurm2"}
                          -> Goto("OriginBefore", <<T("hdr_empty")>>)   \* `.. "locallyAddedAssertions": {` (1212, 1331)
       [] fam = "lines"   -> Goto("OriginBefore", <<T("hdr_line")>>)    \* csv header line, "roa-set {"
       [] fam = "summary" -> Goto("Done", <<T("hdr_line")>>)            \* 1712
       [] OTHER           -> Goto("OriginBefore", <<>>)

(* Formatter::before_origins *)
BeforeOrigins ==
  /\ pc = "OriginBefore"
  /\ CASE fam = "json" ->
            IF "o" \notin excl THEN Goto("Origin", <<T("comma"), Tok("open", TypeTag("o"))>>)   \* 888
            ELSE Goto("KeyBefore", <<>>)
       [] fam \in {"slurm1", "slurm2"} ->
            Goto(IF "o" \notin excl THEN "Origin" ELSE "OriginAfter", <<Tok("open", TypeTag("o"))>>)  \* 1227
       [] fam = "lines" -> Goto(IF "o" \notin excl THEN "Origin" ELSE "OriginAfter", <<>>)      \* 746
       [] OTHER -> Goto("Origin", <<>>)                                                        \* 658 (default)

Origins == pc = "Origin" /\ Goto("OriginAfter", Loop(OfType("o"), TRUE))

AfterOrigins ==
  /\ pc = "OriginAfter"
  /\ CASE fam = "json" -> Goto("KeyBefore", <<T("close")>>)                                    \* 919
       [] fam \in {"slurm1", "slurm2"} -> Goto("KeyBefore", <<T("close"), T("comma")>>)        \* 1257 "],"
       [] OTHER -> Goto("KeyBefore", <<>>)

BeforeKeys ==
  /\ pc = "KeyBefore"
  /\ CASE fam = "json" ->
            IF "k" \notin excl THEN Goto("Key", <<T("comma"), Tok("open", TypeTag("k"))>>)     \* 924
            ELSE Goto("AspaBefore", <<>>)
       [] fam \in {"slurm1", "slurm2"} ->
            Goto(IF "k" \notin excl THEN "Key" ELSE "KeyAfter", <<Tok("open", TypeTag("k"))>>) \* 1264
       [] OTHER -> Goto("Key", <<>>)                                                           \* 679 (default)

Keys == pc = "Key" /\ Goto("KeyAfter", Loop(OfType("k"), TRUE))

AfterKeys ==
  /\ pc = "KeyAfter"
  /\ CASE fam = "json"   -> Goto("AspaBefore", <<T("close")>>)                                 \* 950
       [] fam = "slurm1" -> Goto("Done", <<T("close")>>)                                       \* 1299: no ASPAs in SLURM v1
       [] fam = "slurm2" -> Goto("AspaBefore", <<T("close"), T("comma")>>)                     \* 1419
       [] OTHER -> Goto("AspaBefore", <<>>)

BeforeAspas ==
  /\ pc = "AspaBefore"
  /\ CASE fam = "json" ->
            IF "a" \notin excl THEN Goto("Aspa", <<T("comma"), Tok("open", TypeTag("a"))>>)    \* 955
            ELSE Goto("Done", <<>>)
       [] fam = "slurm2" ->
            Goto(IF "a" \notin excl THEN "Aspa" ELSE "AspaAfter", <<Tok("open", TypeTag("a"))>>) \* 1426
       [] OTHER -> Goto("Aspa", <<>>)                                                          \* 702 (default)

Aspas == pc = "Aspa" /\ Goto("AspaAfter", Loop(OfType("a"), TRUE))

AfterAspas ==
  /\ pc = "AspaAfter"
  /\ CASE fam \in {"json", "slurm2"} -> Goto("Done", <<T("close")>>)                           \* 991, 1459
       [] OTHER -> Goto("Done", <<>>)

(* Done (and the string cases of part b) stutter, so that TLC's deadlock    *)
(* check means: every stream state before Done has a successor.            *)
Finished == pc = "Done" /\ UNCHANGED vars

Next ==
  \/ Header \/ BeforeOrigins \/ Origins \/ AfterOrigins
  \/ BeforeKeys \/ Keys \/ AfterKeys
  \/ BeforeAspas \/ Aspas \/ AfterAspas
  \/ Finished

Spec == Init /\ [][Next]_vars

-----------------------------------------------------------------------------
(* C21, listing. *)

(* What the family can list of the documented selection. *)
Expected == {x \in DocExpected(data, sel, excl) : x.t \in Lists(fam)}

(* Counted in one pass: how often each item has been written. *)
RECURSIVE Tally(_, _)
Tally(i, acc) ==
  IF i > Len(out) THEN acc
  ELSE IF out[i].k = "item" THEN Tally(i + 1, [acc EXCEPT ![out[i].x] = @ + 1])
  ELSE Tally(i + 1, acc)
Listed == Tally(1, [x \in Universe |-> 0])

C21_ListedExactlyOnce ==
  (mode = "format" /\ pc = "Done") =>
      LET e == Expected  n == Listed IN \A x \in Universe : n[x] = IF x \in e THEN 1 ELSE 0

(* At no time something is listed that is not admitted, or listed twice. *)
C21_NeverTooMuch ==
  (mode = "format" /\ pc # "Done") =>
      LET e == Expected  n == Listed IN \A x \in Universe : n[x] <= IF x \in e THEN 1 ELSE 0

(* The code's inclusion test means what the documentation says. *)
C21_SelectionAsDocumented ==
  (mode = "format" /\ pc = "Header") => \A x \in data : CodeIncludes(sel, x) = DocSelected(sel, x)

(* C21, shape: the punctuation of the JSON-shaped families is that of a     *)
(* JSON object whose members are arrays: one comma between two members and  *)
(* between two elements, none elsewhere, every array closed, object closed. *)
JNext(st, tok) ==
  CASE st = "start"      /\ tok.k = "hdr_member" -> "obj_member"
    [] st = "start"      /\ tok.k = "hdr_empty"  -> "obj_empty"
    [] st = "obj_member" /\ tok.k = "comma"      -> "obj_comma"
    [] st \in {"obj_comma", "obj_empty"} /\ tok.k = "open" -> "arr_empty"
    [] st = "arr_empty"  /\ tok.k = "item"       -> "arr_item"
    [] st = "arr_item"   /\ tok.k = "comma"      -> "arr_comma"
    [] st = "arr_comma"  /\ tok.k = "item"       -> "arr_item"
    [] st \in {"arr_empty", "arr_item"} /\ tok.k = "close" -> "obj_member"
    [] st \in {"obj_member", "obj_empty"} /\ tok.k = "ftr" -> "end"
    [] OTHER -> "bad"

RECURSIVE JRun(_, _)
JRun(st, toks) == IF toks = <<>> THEN st ELSE JRun(JNext(st, Head(toks)), Tail(toks))

(* Every item sits in the array opened for its type. *)
InOwnSection ==
  \A i \in 1..Len(out) : out[i].k = "item" =>
     \E j \in 1..(i - 1) :
        /\ out[j].k = "open" /\ out[j].x.t = out[i].x.t
        /\ \A l \in (j + 1)..(i - 1) : out[l].k \notin {"open", "close"}

(* Line-oriented families: header first, footer last, nothing but items between. *)
LinesShape ==
  \A i \in 1..Len(out) :
     /\ out[i].k \in {"hdr_line", "ftr_line", "item"}
     /\ out[i].k = "hdr_line" => i = 1
     /\ out[i].k = "ftr_line" => i = Len(out) /\ pc = "Done"

C21_WellFormed ==
  mode = "format" =>
    CASE fam \in {"json", "slurm1", "slurm2"} ->
           /\ JRun("start", out) # "bad"
           /\ InOwnSection
           /\ (pc = "Done") => JRun("start", out) = "end"
      [] fam = "lines"   -> LinesShape /\ (pc = "Done" => out[Len(out)].k = "ftr_line")
      [] fam = "summary" -> pc = "Done" => out = <<T("hdr_line")>>
      [] OTHER           -> out = <<>>

-----------------------------------------------------------------------------
(* Part (b): escaping.  The written text is a sequence over the input       *)
(* classes plus the letters that can follow a backslash: "n", "t" and the   *)
(* five characters "u0001" taken as one unit.  "plain" stands for a letter  *)
(* that is no escape letter.                                                *)

EscJsonFull(c) ==                      \* RFC 8259 section 7
  CASE c = "quote"  -> <<"bslash", "quote">>
    [] c = "bslash" -> <<"bslash", "bslash">>
    [] c = "nl"     -> <<"bslash", "n">>
    [] c = "tab"    -> <<"bslash", "t">>
    [] c = "ctl"    -> <<"bslash", "u0001">>
    [] OTHER        -> <<c>>

EscJsonStr(c) ==                       \* utils/json.rs:155  s.find(['"', '\\'])
  CASE c = "quote"  -> <<"bslash", "quote">>
    [] c = "bslash" -> <<"bslash", "bslash">>
    [] OTHER        -> <<c>>

EscProm(c) ==                          \* Prometheus text exposition format, label values
  CASE c = "quote"  -> <<"bslash", "quote">>
    [] c = "bslash" -> <<"bslash", "bslash">>
    [] c = "nl"     -> <<"bslash", "n">>
    [] OTHER        -> <<c>>

EscNone(c) == <<c>>                    \* "{}" of the raw value (output.rs:911, http/metrics.rs:901)

RECURSIVE Escape(_, _)
Escape(how, s) ==
  IF s = <<>> THEN <<>>
  ELSE (CASE how = "json_full" -> EscJsonFull(Head(s))
          [] how = "json_str"  -> EscJsonStr(Head(s))
          [] how = "prom"      -> EscProm(Head(s))
          [] OTHER             -> EscNone(Head(s))) \o Escape(how, Tail(s))

(* Reading a JSON string body: <<"ok", decoded>> or <<"bad">>.  (Written    *)
(* with an accumulator: TLC re-evaluates a LET definition at every use.)    *)
RECURSIVE JsonLexA(_, _)
JsonLexA(t, acc) ==
  IF t = <<>> THEN <<"ok", acc>>
  ELSE LET c == Head(t) IN
    IF c \in {"quote", "nl", "tab", "ctl"} THEN <<"bad">>   \* the string ends early / raw control character
    ELSE IF c = "bslash" THEN
      IF Len(t) < 2 THEN <<"bad">>                          \* swallows the closing quote
      ELSE CASE t[2] = "quote"  -> JsonLexA(SubSeq(t, 3, Len(t)), Append(acc, "quote"))
             [] t[2] = "bslash" -> JsonLexA(SubSeq(t, 3, Len(t)), Append(acc, "bslash"))
             [] t[2] = "n"      -> JsonLexA(SubSeq(t, 3, Len(t)), Append(acc, "nl"))
             [] t[2] = "t"      -> JsonLexA(SubSeq(t, 3, Len(t)), Append(acc, "tab"))
             [] t[2] = "u0001"  -> JsonLexA(SubSeq(t, 3, Len(t)), Append(acc, "ctl"))
             [] OTHER           -> <<"bad">>                 \* no such escape
    ELSE JsonLexA(Tail(t), Append(acc, c))
JsonLex(t) == JsonLexA(t, <<>>)

(* Reading a Prometheus label value. *)
RECURSIVE PromLexA(_, _)
PromLexA(t, acc) ==
  IF t = <<>> THEN <<"ok", acc>>
  ELSE LET c == Head(t) IN
    IF c \in {"quote", "nl"} THEN <<"bad">>                 \* value / line ends early
    ELSE IF c = "bslash" THEN
      IF Len(t) < 2 THEN <<"bad">>
      ELSE CASE t[2] = "quote"  -> PromLexA(SubSeq(t, 3, Len(t)), Append(acc, "quote"))
             [] t[2] = "bslash" -> PromLexA(SubSeq(t, 3, Len(t)), Append(acc, "bslash"))
             [] t[2] = "n"      -> PromLexA(SubSeq(t, 3, Len(t)), Append(acc, "nl"))
             [] OTHER           -> <<"bad">>
    ELSE PromLexA(Tail(t), Append(acc, c))
PromLex(t) == PromLexA(t, <<>>)

(* The places where an outside string is written. *)
OutputSites  == {"json.ta", "slurm.comment", "jsonext.tal", "jsonext.comment"}   \* C21
StatusSites  == {"status.key", "status.message"}                                \* C22 /api/v1/status
MetricsSites == {"metrics.label"}                                               \* C22 /metrics

EscOf(site) ==
  IF Variant = "intended"
    THEN (IF site \in MetricsSites THEN "prom" ELSE "json_full")
    ELSE CASE site \in {"json.ta", "slurm.comment"} -> "none"      \* output.rs:911,942,983,1253,1295,1373,1415,1456
           [] site \in MetricsSites -> "none"                      \* http/metrics.rs:893
           [] OTHER -> "json_str"                                  \* output.rs:1038,1062; utils/json.rs JsonBuilder

ReadBack(site, s) ==
  IF site \in MetricsSites THEN PromLex(Escape(EscOf(site), s)) ELSE JsonLex(Escape(EscOf(site), s))

RoundTrips(site, s) == ReadBack(site, s) = <<"ok", s>>

C21_LabelsStayInsideStrings == mode = "escape" => \A site \in OutputSites  : RoundTrips(site, str)
C22_StatusStringsRoundTrip  == mode = "escape" => \A site \in StatusSites  : RoundTrips(site, str)
C22_MetricsLabelsRoundTrip  == mode = "escape" => \A site \in MetricsSites : RoundTrips(site, str)

(* The escaped text holds no raw quote, backslash-less control character.   *)
RECURSIVE NoRaw(_, _)
NoRaw(t, bad) ==
  IF t = <<>> THEN TRUE
  ELSE IF Head(t) = "bslash" THEN Len(t) >= 2 /\ NoRaw(SubSeq(t, 3, Len(t)), bad)
  ELSE Head(t) \notin bad /\ NoRaw(Tail(t), bad)

C22_NoRawSpecials ==
  mode = "escape" =>
    /\ \A site \in OutputSites \cup StatusSites :
         NoRaw(Escape(EscOf(site), str), {"quote", "nl", "tab", "ctl"})
    /\ \A site \in MetricsSites : NoRaw(Escape(EscOf(site), str), {"quote", "nl"})

=============================================================================
