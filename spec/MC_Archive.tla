----------------------------- MODULE MC_Archive -----------------------------
EXTENDS Archive
(* "a" and "b" share a hash bucket, "c" and "d" have buckets of their own. *)
MCBucketOf == [n \in Names |-> IF n \in {"a", "b"} THEN 1 ELSE IF n = "c" THEN 2 ELSE 3]

(* Operations that report an error and read-only operations are stuttering *)
(* steps by construction (see Publish/Update/Delete/Fetch in Archive.tla); *)
(* C26_Results decides their results in every state for every argument.    *)
(* The model checker therefore only has to take the steps with an          *)
(* accepting check.                                                        *)
MCNext ==
  /\ (MaxOps = 0 \/ nops < MaxOps)
  /\ \/ \E n \in Names, m \in Metas, l \in Lens : Publish(n, m, l)
     \/ \E n \in Names, m \in Metas, l \in Lens : Update(n, m, l, AnyMeta)
     \/ \E n \in Names : Delete(n, AnyMeta)
     \/ Reopen
  /\ disk'.fsize <= MaxFile
MCSpec == Init /\ [][MCNext]_vars
=============================================================================
