\* random 3-run histories (tlc -simulate): 3 points in 2 modules, rpkiNotify on/off, <= 3 steps per gap, 2 expiries
SPECIFICATION GSpec
CONSTANTS
  NPoints = 3
  Modules = {"m1", "m2"}
  Transports = {FALSE, TRUE}
  Rrdp = FALSE
  MaxVer = 4
  MaxRuns = 3
  MaxEnv = 3
  MaxExpire = 2
  Kinds = {"update", "initial"}
  Corruptions = {FALSE, TRUE}
  Ticks = {FALSE}
  Variant = "as_code"
  PlainFirst = FALSE
  StakeOnly = FALSE
INVARIANT Emit
CHECK_DEADLOCK FALSE
