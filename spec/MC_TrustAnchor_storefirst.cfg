\* mutant "storefirst" of LoadTa: TLC must reject it (the driver asserts that)
SPECIFICATION Spec
CONSTANTS
  NUris = 2
  MaxRuns = 2
  Downloads <- AllDl
  DirtyChoices <- Bools
  Variant = "storefirst"
INVARIANTS
  TypeOK C10_UsedHasTalKeyAndValidates C10_UndecodableKeepsStored C10_FailedDownloadUsesStored
  C10_AllFailNothing OperationalMatchesDeclarative WorkIsStored
CHECK_DEADLOCK FALSE
