------------------------------ MODULE MC_Paths ------------------------------
(* Bounded instances of Paths for exhaustive TLC runs (constants in the cfgs). *)
EXTENDS Paths
=============================================================================
