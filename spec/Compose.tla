------------------------------ MODULE Compose ------------------------------
(***************************************************************************)
(* C09 -- the served data set is the documented composition of the         *)
(* validated payload.                                                      *)
(*                                                                         *)
(* Code: src/payload/validation.rs                                         *)
(*   PubPointProcessor::{process_roa -> PubPoint::add_roa (l.404),         *)
(*     process_router_cert (l.201), process_aspa (l.271), commit, cancel}, *)
(*   ValidationReport::into_snapshot (l.108),                              *)
(*   SnapshotBuilder::{process_pub_point, process_origin (l.661),          *)
(*     process_key (l.720), process_aspa (l.752), insert_assertions        *)
(*     (l.785), into_snapshot (l.831)}, RejectedResources::keep_prefix,    *)
(* src/slurm.rs (LocalExceptions::{drop_origin, drop_router_key}),         *)
(* rpki::slurm::{PrefixFilter::drop_origin, BgpsecFilter::drop_router_key},*)
(* rpki::rtr::pdu::ProviderAsns::try_from_iter (MAX_COUNT).                *)
(* Documentation: doc/routinator.1 (--limit-v4-len, --limit-v6-len,        *)
(* --unsafe-vrps, --enable-bgpsec, --enable-aspa, --exceptions), RFC 8416. *)
(*                                                                         *)
(* A world is a multiset of *validated* payload (every object in it has    *)
(* passed validation; C01/C02 are about that step), the resources of a     *)
(* rejected sibling CA, a SLURM file and a configuration.  Two             *)
(* descriptions are given:                                                 *)
(*   - declarative: Doc*(w), the composition as the property states it;    *)
(*   - operational: the code path (per publication point add_roa etc. in   *)
(*     any order of the validation threads, the queue of committed points  *)
(*     popped by into_snapshot, process_origin / process_key /             *)
(*     process_aspa per item, insert_assertions, into_snapshot).           *)
(* TLC checks that every behaviour of the operational model ends in the    *)
(* declarative result and that each distinct item appears once.            *)
(*                                                                         *)
(* Prefixes are bit strings below a base block whose length is             *)
(* (limit - LimitLen): with LimitLen = 1 the strings of length 0, 1, 2 are *)
(* shorter than / exactly at / longer than the configurable limit          *)
(* (harness: v4 base /23 with limit 24, v6 base /47 with limit 48).        *)
(* Max lengths are relative to the base in the same way.                   *)
(***************************************************************************)
EXTENDS Naturals, Sequences, FiniteSets, SequencesExt, PrefixLattice, TLC

CONSTANTS LimitLen,      \* the configurable length limit, relative to the base block
          MaxProviders,  \* ProviderAsns::MAX_COUNT = MaxProviders * BlockSize
          BlockSize,     \* number of ASNs a "block" provider stands for (worlds with wt = "block")
          FixedOrder,    \* TRUE: publication points are validated in one fixed order only
          Variant        \* "documented" | "maxlen_limit" (a wrong design, must be rejected by TLC)

(***************************************************************************)
(* World record:                                                           *)
(*  occ   : set of [ca, roa, fam, p, ml, asn]  one prefix entry of ROA     *)
(*          number `roa` of CA `ca`; CA "A" is below TAL 1, "B" below TAL 2*)
(*  certs : set of [ca, n, asns, rk]           router certificates         *)
(*  aspas : set of [ca, n, cust, prov]         ASPA objects                *)
(*  rej   : set of [fam, all, p]  resources of the rejected CA "R"         *)
(*          (all = TRUE: the whole address family)                         *)
(*  pf    : set of [fam, p, asn]  SLURM prefix filters (fam = "none": no   *)
(*          prefix member; asn = 0: no asn member)                         *)
(*  bf    : set of [asn, ski]     SLURM BGPsec filters (0 = member absent) *)
(*  pa    : set of [fam, p, ml, asn]  SLURM prefix assertions              *)
(*  ba    : set of [asn, rk]      SLURM BGPsec assertions                  *)
(*  cfg   : [l4, l6, unsafe, bgpsec, aspa]                                 *)
(*  wt    : "unit" | "block"      provider weights: with "block" the       *)
(*          providers 1..MaxProviders stand for BlockSize ASNs each, so    *)
(*          that MaxProviders of them are exactly the encoding limit; all  *)
(*          other providers (and all providers with "unit") are one ASN.   *)
(* The world is the environment's choice; the MC modules enumerate worlds  *)
(* through InitWith.                                                       *)
(***************************************************************************)

Vrp(o) == [fam |-> o.fam, p |-> o.p, ml |-> o.ml, asn |-> o.asn]
Items(s) == {s[i] : i \in 1..Len(s)}
NoDup(s) == \A i, j \in 1..Len(s) : s[i] = s[j] => i = j

-----------------------------------------------------------------------------
(* Documented semantics of the individual rules *)

(* --limit-v4-len / --limit-v6-len: "VRPs for prefixes with a longer       *)
(* prefix length will be ignored.  Note that only the prefix length        *)
(* itself, not the max length is considered."                              *)
LimitOn(w, fam) == IF fam = "v4" THEN w.cfg.l4 ELSE w.cfg.l6
OverLimit(w, v) == LimitOn(w, v.fam) /\ Len(v.p) > LimitLen

(* --unsafe-vrps: "the address prefix of a VRP overlaps with any resources *)
(* assigned to a CA that has been rejected"; 0.0.0.0/0 and ::/0 excepted.  *)
RejBlocks(w) == {r \in w.rej : ~r.all}
Unsafe(w, v) == \E r \in RejBlocks(w) : r.fam = v.fam /\ Overlap(r.p, v.p)

(* RFC 8416 3.3.1: prefix and asn -> covered and equal; prefix only ->     *)
(* covered; asn only -> equal.  A filter without either matches nothing.   *)
PfMatches(f, v) ==
  /\ (f.fam # "none" \/ f.asn # 0)
  /\ (f.fam # "none" => (f.fam = v.fam /\ Covers(f.p, v.p)))
  /\ (f.asn # 0 => f.asn = v.asn)
SlurmDropsVrp(w, v) == \E f \in w.pf : PfMatches(f, v)

(* RFC 8416 3.3.2: SKI and/or asn. The SKI is a function of the key.       *)
BfMatches(f, k) ==
  /\ (f.ski # 0 \/ f.asn # 0)
  /\ (f.ski # 0 => f.ski = k.rk)
  /\ (f.asn # 0 => f.asn = k.asn)
SlurmDropsKey(w, k) == \E f \in w.bf : BfMatches(f, k)

CertKeys(c) == {[asn |-> a, rk |-> c.rk] : a \in c.asns}

(* Number of provider ASNs behind an abstract provider set. *)
Size(w, ps) == LET big == Cardinality({p \in ps : w.wt = "block" /\ p <= MaxProviders})
               IN big * BlockSize + (Cardinality(ps) - big)
Limit == MaxProviders * BlockSize
TooLarge(w, ps) == Size(w, ps) > Limit

(* What validation can deliver at all: a ROA has one ASN, max length >=     *)
(* prefix length, and a single ASPA object beyond the limit does not       *)
(* decode (rpki::repository::aspa::ProviderAsSet::take_from).              *)
WellFormed(w) ==
  /\ \A o1, o2 \in w.occ : (o1.ca = o2.ca /\ o1.roa = o2.roa) => o1.asn = o2.asn
  /\ \A o \in w.occ : o.ml >= Len(o.p)
  /\ \A x \in w.pa : x.ml >= Len(x.p)
  /\ \A a \in w.aspas : a.prov # {} /\ ~TooLarge(w, a.prov)

-----------------------------------------------------------------------------
(* The documented composition (the oracle of C09) *)

ValidatedVrps(w) == {Vrp(o) : o \in w.occ}
DocOrigins(w) ==
  {v \in ValidatedVrps(w) : /\ ~OverLimit(w, v)
                            /\ ~(w.cfg.unsafe = "reject" /\ Unsafe(w, v))
                            /\ ~SlurmDropsVrp(w, v)}
  \cup w.pa

ValidatedKeys(w) == UNION {CertKeys(c) : c \in w.certs}
DocKeys(w) ==
  (IF w.cfg.bgpsec THEN {k \in ValidatedKeys(w) : ~SlurmDropsKey(w, k)} ELSE {})
  \cup w.ba

Customers(w) == {a.cust : a \in w.aspas}
UnionProv(w, c) == UNION {a.prov : a \in {a \in w.aspas : a.cust = c}}
DocAspas(w) ==
  IF w.cfg.aspa
    THEN {[cust |-> c, prov |-> UnionProv(w, c)] :
            c \in {c \in Customers(w) : ~TooLarge(w, UnionProv(w, c))}}
    ELSE {}

-----------------------------------------------------------------------------
(* Operational model *)

VARIABLES world,     \* the chosen world (constant after Init)
          phase,     \* "validate" | "snapshot" | "assert" | "finish" | "done"
          todo,      \* publication points not yet worked off by a validation thread
          queue,     \* ValidationReport.pub_points: committed PubPoint values, FIFO
          rejected,  \* RejectedResourcesBuilder.addrs
          outO,      \* SnapshotBuilder.origins, as the sequence of vacant-entry inserts
          outK,      \* SnapshotBuilder.router_keys, likewise
          mapA,      \* SnapshotBuilder.aspas: customer -> provider set
          served     \* the PayloadSnapshot: [o, k: sequences, a: set of [cust, prov]]

vars == <<world, phase, todo, queue, rejected, outO, outK, mapA, served>>

W == world
Points(w) == {o.ca : o \in w.occ} \cup {c.ca : c \in w.certs} \cup {a.ca : a \in w.aspas}
             \cup (IF w.rej # {} THEN {"R"} ELSE {})
CaRank(c) == CASE c = "A" -> 1 [] c = "B" -> 2 [] c = "R" -> 3

InitWith(w) ==
  /\ world = w
  /\ phase = "validate"
  /\ todo = Points(w)
  /\ queue = <<>>
  /\ rejected = {}
  /\ outO = <<>>
  /\ outK = <<>>
  /\ mapA = <<>>
  /\ served = [o |-> <<>>, k |-> <<>>, a |-> {}]

(* PubPoint::add_roa, validation.rs:412-426: `origin.prefix.prefix().len() *)
(* > limit` => skip this entry (the max length is not looked at).          *)
AddRoaKeeps(o) ==
  ~(LimitOn(W, o.fam) /\ (IF Variant = "maxlen_limit" THEN o.ml ELSE Len(o.p)) > LimitLen)

(* The PubPoint value a validation thread builds for CA c: process_roa for *)
(* every ROA entry, process_router_cert (returns early unless              *)
(* enable_bgpsec), process_aspa (returns early unless enable_aspa).  The   *)
(* order of objects within the point (a shuffled manifest) is one fixed    *)
(* arbitrary order here; the order across points is explored.              *)
PointOf(c) ==
  LET occs == SelectSeq(SetToSeq({o \in W.occ : o.ca = c}), AddRoaKeeps)
  IN [ca      |-> c,
      origins |-> [i \in 1..Len(occs) |-> Vrp(occs[i])],
      keys    |-> IF W.cfg.bgpsec THEN SetToSeq({k \in W.certs : k.ca = c}) ELSE <<>>,
      aspas   |-> IF W.cfg.aspa THEN SetToSeq({a \in W.aspas : a.ca = c}) ELSE <<>>]
PointEmpty(pp) == pp.origins = <<>> /\ pp.keys = <<>> /\ pp.aspas = <<>>

MayTake(c) == c \in todo /\ (FixedOrder => \A d \in todo : CaRank(c) <= CaRank(d))

(* A validation thread finishes an accepted point: commit (l.295) pushes   *)
(* the point unless it is empty.                                           *)
ValidatePoint(c) ==
  /\ phase = "validate" /\ MayTake(c) /\ c # "R"
  /\ todo' = todo \ {c}
  /\ queue' = IF PointEmpty(PointOf(c)) THEN queue ELSE Append(queue, PointOf(c))
  /\ UNCHANGED <<world, phase, rejected, outO, outK, mapA, served>>

(* The rejected CA: cancel (l.301) -> extend_from_cert (l.548) records     *)
(* every block that is not a whole address family.                         *)
RejectPoint ==
  /\ phase = "validate" /\ MayTake("R")
  /\ todo' = todo \ {"R"}
  /\ rejected' = rejected \cup {r \in W.rej : ~r.all}
  /\ UNCHANGED <<world, phase, queue, outO, outK, mapA, served>>

(* Run::process has returned: into_snapshot starts. *)
StartSnapshot ==
  /\ phase = "validate" /\ todo = {}
  /\ phase' = "snapshot"
  /\ UNCHANGED <<world, todo, queue, rejected, outO, outK, mapA, served>>

(* RejectedResources::keep_prefix (l.519): no intersection with a block. *)
KeepPrefix(v) == ~\E r \in rejected : r.fam = v.fam /\ Overlap(r.p, v.p)

(* process_origin, l.661-718 *)
ProcessOrigin(out, v) ==
  IF ~KeepPrefix(v) /\ W.cfg.unsafe = "reject" THEN out            \* l.685-696
  ELSE IF \E f \in W.pf : PfMatches(f, v) THEN out                 \* l.701 drop_origin
  ELSE IF \E i \in 1..Len(out) : out[i] = v THEN out               \* l.713 Occupied: add_published
  ELSE Append(out, v)                                              \* l.709 Vacant
RECURSIVE FoldOrigins(_, _)
FoldOrigins(out, s) == IF s = <<>> THEN out ELSE FoldOrigins(ProcessOrigin(out, Head(s)), Tail(s))

(* process_key, l.720-750: one RouterKey per ASN of the certificate *)
ProcessOneKey(out, k) ==
  IF \E f \in W.bf : BfMatches(f, k) THEN out                      \* l.732 drop_router_key
  ELSE IF \E i \in 1..Len(out) : out[i] = k THEN out               \* l.744 Occupied
  ELSE Append(out, k)                                              \* l.740 Vacant
RECURSIVE FoldAsns(_, _, _)
FoldAsns(out, rk, as) ==
  IF as = <<>> THEN out ELSE FoldAsns(ProcessOneKey(out, [asn |-> Head(as), rk |-> rk]), rk, Tail(as))
RECURSIVE FoldKeys(_, _)
FoldKeys(out, s) ==
  IF s = <<>> THEN out
  ELSE FoldKeys(FoldAsns(out, Head(s).rk, SetToSortSeq(Head(s).asns, <)), Tail(s))

(* process_aspa, l.752-769: union per customer, no SLURM *)
ProcessAspa(m, a) ==
  [c \in DOMAIN m \cup {a.cust} |->
     IF c = a.cust THEN (IF c \in DOMAIN m THEN m[c] \cup a.prov ELSE a.prov) ELSE m[c]]
RECURSIVE FoldAspas(_, _)
FoldAspas(m, s) == IF s = <<>> THEN m ELSE FoldAspas(ProcessAspa(m, Head(s)), Tail(s))

(* into_snapshot l.117: pop one point; process_pub_point l.635 *)
PopPoint ==
  /\ phase = "snapshot" /\ queue # <<>>
  /\ LET pp == Head(queue) IN
       /\ outO' = FoldOrigins(outO, pp.origins)
       /\ outK' = FoldKeys(outK, pp.keys)
       /\ mapA' = FoldAspas(mapA, pp.aspas)
  /\ queue' = Tail(queue)
  /\ UNCHANGED <<world, phase, todo, rejected, served>>

QueueDrained ==
  /\ phase = "snapshot" /\ queue = <<>>
  /\ phase' = "assert"
  /\ UNCHANGED <<world, todo, queue, rejected, outO, outK, mapA, served>>

(* insert_assertions, l.785-829: no limit, no unsafe check, no filter. *)
InsertOne(out, x) == IF \E i \in 1..Len(out) : out[i] = x THEN out ELSE Append(out, x)
RECURSIVE FoldInsert(_, _)
FoldInsert(out, s) == IF s = <<>> THEN out ELSE FoldInsert(InsertOne(out, Head(s)), Tail(s))
InsertAssertions ==
  /\ phase = "assert"
  /\ outO' = FoldInsert(outO, SetToSeq(W.pa))
  /\ outK' = FoldInsert(outK, SetToSeq(W.ba))
  /\ phase' = "finish"
  /\ UNCHANGED <<world, todo, queue, rejected, mapA, served>>

(* SnapshotBuilder::into_snapshot, l.831-855: ProviderAsns::try_from_iter  *)
(* fails for more than MAX_COUNT providers; such an ASPA is left out.      *)
IntoSnapshot ==
  /\ phase = "finish"
  /\ served' = [o |-> outO, k |-> outK,
                a |-> {[cust |-> c, prov |-> mapA[c]] :
                         c \in {c \in DOMAIN mapA : ~TooLarge(W, mapA[c])}}]
  /\ phase' = "done"
  /\ UNCHANGED <<world, todo, queue, rejected, outO, outK, mapA>>

Next == \/ \E c \in {"A", "B"} : ValidatePoint(c)
        \/ RejectPoint
        \/ StartSnapshot
        \/ PopPoint
        \/ QueueDrained
        \/ InsertAssertions
        \/ IntoSnapshot
        \/ (phase = "done" /\ UNCHANGED vars)

(* The specification is  <enumeration of worlds through InitWith> /\       *)
(* [][Next]_vars /\ WF_vars(Next); see MC_Compose.                         *)

-----------------------------------------------------------------------------
(* Properties *)

Done == phase = "done"

(* C09: the served set is the documented composition ... *)
C09_Composition ==
  Done => /\ Items(served.o) = DocOrigins(W)
          /\ Items(served.k) = DocKeys(W)
          /\ served.a = DocAspas(W)

(* ... and each distinct item appears once (in every intermediate state of *)
(* the builder as well). *)
C09_EachOnce ==
  /\ NoDup(outO) /\ NoDup(outK)
  /\ Done => /\ NoDup(served.o) /\ NoDup(served.k)
             /\ \A x, y \in served.a : x.cust = y.cust => x = y
C09_Count ==
  Done => Len(served.o) + Len(served.k) + Cardinality(served.a)
            = Cardinality(DocOrigins(W)) + Cardinality(DocKeys(W)) + Cardinality(DocAspas(W))

(* Consequences of the statement, spelled out. *)
C09_AssertionsAlwaysServed == Done => W.pa \subseteq Items(served.o) /\ W.ba \subseteq Items(served.k)
C09_OnlyEnabled ==
  Done => /\ (~W.cfg.bgpsec => Items(served.k) = W.ba)
          /\ (~W.cfg.aspa => served.a = {})
C09_NothingInvented ==
  Done => /\ Items(served.o) \subseteq ValidatedVrps(W) \cup W.pa
          /\ Items(served.k) \subseteq ValidatedKeys(W) \cup W.ba
          /\ \A x \in served.a : x.cust \in Customers(W) /\ x.prov = UnionProv(W, x.cust)
C09_LimitIsOnPrefixLength ==
  Done => \A v \in ValidatedVrps(W) :
            (Len(v.p) <= LimitLen /\ ~Unsafe(W, v) /\ ~SlurmDropsVrp(W, v)) => v \in Items(served.o)
C09_Terminates == <>Done
WorldWellFormed == WellFormed(W)

=============================================================================
