---------------------------- MODULE MC_RunLoop ----------------------------
EXTENDS RunLoop, Json
Terminal == exit # "running" \/ i = Len(outs)
Emit == (Terminal /\ (cmd = "server" \/ exit # "running")) =>
          PrintT(<<"REPLAY", ToJson([kind |-> "loop", cmd |-> cmd, outs |-> outs, runs |-> i, exit |-> exit])>>)
EmitTable == (i = 0 /\ cmd = "vrps" /\ outs = <<"ok">>) =>
  \A refresh \in Times, minRefresh \in Times \cup {0}, expiry \in Times \cup {0} :
     PrintT(<<"REPLAY", ToJson([kind |-> "wait", refresh |-> refresh, min |-> minRefresh, expiry |-> expiry,
                                wait |-> RefreshWait(refresh, minRefresh, expiry)])>>)
=============================================================================
