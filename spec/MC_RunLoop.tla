---------------------------- MODULE MC_RunLoop ----------------------------
EXTENDS RunLoop, Json
Terminal == exit # "running" \/ i = Len(outs)
Emit == (Terminal /\ (cmd = "server" \/ exit # "running")) =>
          PrintT(<<"REPLAY", ToJson([kind |-> "loop", cmd |-> cmd, outs |-> outs, runs |-> i, exit |-> exit, san_fails |-> sanFails])>>)
EmitTable == (i = 0 /\ cmd = "vrps" /\ outs = <<"ok">>) =>
  \A refresh \in Times, minRefresh \in Times \cup {0}, expiry \in Times \cup {0, Past} :
     /\ PrintT(<<"REPLAY", ToJson([kind |-> "wait", refresh |-> refresh, min |-> minRefresh, expiry |-> expiry, prev |-> -1,
                                   wait |-> RefreshWait(refresh, minRefresh, expiry)])>>)
     \* the same after an earlier run with the same payload whose data set expired at another time
     \* (prev = 0: no expiry before the refresh point; otherwise early)
     /\ (minRefresh # 0 =>
           LET prev == IF expiry # 0 /\ expiry < refresh THEN 0 ELSE 1 IN
           PrintT(<<"REPLAY", ToJson([kind |-> "wait", refresh |-> refresh, min |-> minRefresh, expiry |-> expiry, prev |-> prev,
                                      wait |-> RefreshWait(refresh, minRefresh, expiry)])>>))
=============================================================================
