\* exhaustive: one TAL with 2 certificate URIs, every download result (good, wrongkey, garbage, expired, absent, unreach)
\* per URI and run, each run with or without cleanup (dirty), all histories of 3 runs from an empty cache
SPECIFICATION Spec
CONSTANTS
  NUris = 2
  MaxRuns = 3
  Downloads <- AllDl
  DirtyChoices <- Bools
  Variant = "code"
INVARIANTS
  TypeOK C10_UsedHasTalKeyAndValidates C10_UndecodableKeepsStored C10_FailedDownloadUsesStored
  C10_AllFailNothing OperationalMatchesDeclarative WorkIsStored
CHECK_DEADLOCK FALSE
