\* exhaustive: 3 threads x 2 keys, one call each, every interleaving; rrdp/base.rs as shipped (insert, then remove; the second check also removes the running entry)
SPECIFICATION Spec
CONSTANTS
  Threads = {"T1", "T2", "T3"}
  Keys = {"k1", "k2"}
  MaxCalls = 1
  Order = "insert_then_remove"
  Check2Removes = TRUE
  HostVariant = "intended"
INVARIANTS TypeOK C37_AtMostOnce C37_WaitsForFetch MutexOwned
CHECK_DEADLOCK TRUE
