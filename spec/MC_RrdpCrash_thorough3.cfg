\* thorough, part 2: 3 objects, 3 server versions, 3 kills, 5 client runs
SPECIFICATION Spec
CONSTANTS
  NObj = 3
  Vals = {1, 2}
  MaxVer = 3
  MaxKills = 3
  MaxRuns = 5
  Caches = TRUE
  Variant = "code"
INVARIANTS TypeOK C24_ReportedMeansEqual NoTornReported MarkedWhileDirty
CHECK_DEADLOCK FALSE
