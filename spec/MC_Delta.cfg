\* quick: 40 data sets (2 origins, 1 key, 1 customer x {absent, {}, {1}, {2}, {1,2}}),
\* all histories of length <= 3 (MaxLen - 1)
SPECIFICATION Spec
CONSTANTS
  NO = 2
  NK = 1
  NC = 1
  NP = 2
  MaxLen = 4
CONSTRAINT LenBound
INVARIANTS
  C11_EmptyIffEqual
  C11_Apply
  C11_Exact
  C11_Counts
  C12_MergeEqualsDirect
  C12_MergeInternal
  C12_CatchUp
  MergeOfEmptyIsIdentity
CHECK_DEADLOCK FALSE
