---------------------------- MODULE Trace_Serve ----------------------------
(* Trace validation for Serve: events recorded by the hooks of the real    *)
(* server at their linearisation points (under the history lock) must be a *)
(* behaviour of the updater protocol, and every read must see the serial   *)
(* that the last Install established.                                      *)
(*   RunStart{initial}                  process_once, after mark_update_start *)
(*   RunFailed{fatal}                   process_once returned an error     *)
(*   Install{serial, ndeltas, changed}  SharedHistory::update (write lock) *)
(*   MarkDone{created}                  mark_update_done (write lock)      *)
(*   Notify                             NotifySender::notify               *)
(*   HttpRead{serial, active}           http/payload.rs (read lock)        *)
(*   RtrFull{serial}, RtrDiff{from, serial}   PayloadSource (read lock)    *)
(*   Reset                              harness: a new server starts       *)
EXTENDS Naturals, Sequences, TLC, Json, IOUtils

Rec == ndJsonDeserialize(IOEnv.TRACE)

VARIABLES l, serial, active, pcU, changed, created, resume
tvars == <<l, serial, active, pcU, changed, created, resume>>

TInit == l = 1 /\ serial = 0 /\ active = FALSE /\ pcU = "idle" /\ changed = FALSE /\ created = 0 /\ resume = "idle"

IsEvent(e) == l <= Len(Rec) /\ Rec[l].ev = e /\ l' = l + 1

(* A run starts when the previous cycle is over: after its Notify, or after *)
(* MarkDone when nothing changed (no Notify then), or after a failed run.   *)
TRunStart ==
  /\ IsEvent("RunStart")
  /\ pcU = "idle" \/ (pcU = "marked" /\ ~changed)
  /\ resume' = pcU /\ pcU' = "running"
  /\ UNCHANGED <<serial, active, changed, created>>

(* C33: a failed run has installed nothing, marked nothing, notified nobody: *)
(* the cycle is where it was before the run.                                *)
TRunFailed ==
  /\ IsEvent("RunFailed")
  /\ pcU = "running"
  /\ pcU' = resume
  /\ UNCHANGED <<serial, active, changed, created, resume>>


TInstall ==
  /\ IsEvent("Install")
  /\ pcU = "running"
  /\ LET r == Rec[l] IN
     /\ (~active) => (r.serial = 0 /\ r.changed = 1)
     /\ (active /\ r.changed = 1) => r.serial = serial + 1
     /\ (active /\ r.changed = 0) => r.serial = serial
     /\ serial' = r.serial
     /\ changed' = (r.changed = 1)
     /\ r.ndeltas <= r.serial
  /\ active' = TRUE /\ pcU' = "installed" /\ UNCHANGED <<created, resume>>

TMarkDone ==
  /\ IsEvent("MarkDone") /\ pcU = "installed"
  /\ Rec[l].created > created          \* creation times strictly increase
  /\ created' = Rec[l].created
  /\ pcU' = "marked" /\ UNCHANGED <<serial, active, changed, resume>>

TNotify ==
  /\ IsEvent("Notify") /\ pcU = "marked" /\ changed
  /\ pcU' = "idle" /\ UNCHANGED <<serial, active, changed, created, resume>>

TRead(e) ==
  /\ IsEvent(e)
  /\ Rec[l].serial = serial
  /\ (e = "HttpRead") => ((Rec[l].active = 1) <=> active)
  /\ UNCHANGED <<serial, active, pcU, changed, created, resume>>

TReset ==
  /\ IsEvent("Reset")
  /\ serial' = 0 /\ active' = FALSE /\ pcU' = "idle" /\ changed' = FALSE /\ created' = 0 /\ resume' = "idle"

TNext == TRunStart \/ TRunFailed \/ TInstall \/ TMarkDone \/ TNotify \/ TRead("HttpRead") \/ TRead("RtrFull") \/ TRead("RtrDiff") \/ TReset
TraceSpec == TInit /\ [][TNext]_tvars

TraceAccepted ==
  LET d == TLCGet("stats").diameter IN
  IF d - 1 = Len(Rec) THEN TRUE
  ELSE Print(<<"TRACE-REJECTED at event", d, IF d <= Len(Rec) THEN Rec[d] ELSE "end">>, FALSE)
=============================================================================
