------------------------------- MODULE Delta -------------------------------
(***************************************************************************)
(* Histories of data sets and their change sets: state machine and the     *)
(* properties C11 and C12 over the operators of DeltaOps.tla               *)
(* (src/payload/delta.rs).                                                 *)
(***************************************************************************)
EXTENDS DeltaOps

-----------------------------------------------------------------------------
(* State machine: a history of data sets, with the running merge of the    *)
(* consecutive deltas.  One step = one validation run that installs `cur'. *)

VARIABLES first,   \* the data set the client started from
          cur,     \* the current data set
          acc,     \* merge of all consecutive deltas since `first`
          len      \* number of steps taken

vars == <<first, cur, acc, len>>

Init ==
  /\ first \in DataSets
  /\ cur = first
  /\ acc = EmptyDelta
  /\ len = 0

Step(s) ==
  /\ cur' = s
  /\ acc' = Merge(acc, Construct(cur, s))
  /\ len' = len + 1
  /\ UNCHANGED first

Next == \E s \in DataSets : Step(s)

Spec == Init /\ [][Next]_vars

-----------------------------------------------------------------------------
(* C11: Init ranges over all data sets and Step over all data sets, so     *)
(* every pair (first, cur) is reached with len = 1, and there              *)
(* acc = Merge(EmptyDelta, Construct(first, cur)) = Construct(first, cur). *)
last == acc
C11_EmptyIffEqual == len = 1 => (IsEmpty(last) <=> first = cur)
C11_Apply         == len = 1 => Apply(first, last) = cur
C11_Exact         == len = 1 => Exact(first, cur, last)
C11_Counts        == len = 1 =>
                       /\ AnnounceLen(last) + WithdrawLen(last) = Len(Actions(last))
                       /\ AnnounceLen(last) =
                            Cardinality(cur.o \ first.o) + Cardinality(cur.k \ first.k)
                            + Cardinality({c \in AspaKeys(cur.a) : first.a[c] # cur.a[c]})
                       /\ WithdrawLen(last) =
                            Cardinality(first.o \ cur.o) + Cardinality(first.k \ cur.k)
                            + Cardinality(AspaKeys(first.a) \ AspaKeys(cur.a))

(* C12: the merged delta has the same visible actions, in the same order,  *)
(* as the direct delta, and takes the client to the same data.             *)
C12_MergeEqualsDirect == len >= 1 => Actions(acc) = Actions(Construct(first, cur))
C12_MergeInternal     == len >= 1 => acc = Construct(first, cur)
C12_CatchUp           == len >= 1 => Apply(first, acc) = cur

=============================================================================
