\* 3 publication points, 3 runs, every fault position and kind
SPECIFICATION Spec
CONSTANTS
  Points = {1, 2, 3}
  MaxRuns = 3
  Variant = "code"
INVARIANTS TypeOK C33_FailedRunChangesNothing FaultMeansFailure ServedIsComplete
CHECK_DEADLOCK FALSE
