---------------------------- MODULE Gen_JsonDelta ----------------------------
(* Behaviour export for JsonDelta: one line per (stream, input, threshold)  *)
(* with the chunks the model hands out.  Items and tokens are the integer   *)
(* codes of JsonDelta.tla (item = 100*type + 10*action + index; tokens      *)
(* 1 header, 2 separator, 3 footer, 4 comma).  The harness takes from each  *)
(* line the input (how many items of which payload type are announced and   *)
(* withdrawn, in which interleaving) and the token after which the first    *)
(* chunk ends, and builds real data whose rendering crosses 64000 bytes at  *)
(* exactly that token.                                                      *)
EXTENDS MC_JsonDelta, Json

Emit == (pc = "done") =>
          PrintT(<<"REPLAY", ToJson([mode |-> mode, items |-> items, T |-> T, chunks |-> out, want |-> want])>>)
=============================================================================
