---------------------------- MODULE ServerSignals ----------------------------
(***************************************************************************)
(* The wait between two validation runs of the server and the user signals *)
(* (operation.rs:343-385 and SignalListener, 1479-1520):                   *)
(*                                                                         *)
(*   the tokio side forwards every signal it sees into a channel           *)
(*   (sig_tx.send); the validation thread looks at the channel only while  *)
(*   it waits for the next run: recv_timeout(deadline - now)               *)
(*     SIGUSR1 = ReloadTals: the TALs are read again and the wait ends -   *)
(*               the next run starts at once;                              *)
(*     SIGUSR2 = RotateLog:  the log file is reopened and the wait goes on *)
(*               with the *same* deadline;                                 *)
(*     timeout:              the next run starts.                          *)
(*   A signal that arrives during a run sits in the channel until the run  *)
(*   is over.  The operating system may merge signals of one kind that     *)
(*   arrive before the first one has been taken (Merge).                   *)
(*                                                                         *)
(* Time is counted in ticks; a run takes RunTicks, the wait Refresh ticks. *)
(* Not one of the listed properties; checked and replayed as part of the   *)
(* run loop module (signals sent to a real `routinator server` child).     *)
(***************************************************************************)
EXTENDS Naturals, Sequences, TLC

CONSTANTS Refresh,       \* ticks between the end of a run and the start of the next
          RunTicks,      \* ticks a run takes
          MaxSignals,    \* signals the user sends
          MaxTime,
          Variant        \* "code" | "rotate_restarts_wait" | "reload_ignored_while_running"

VARIABLES phase,     \* "running" | "waiting"
          left,      \* ticks left of the run resp. of the wait
          chan,      \* the channel: sequence of "usr1" / "usr2"
          sent,      \* signals sent so far
          now,
          starts,    \* times at which runs started
          usr1At,    \* times at which a SIGUSR1 was sent and not yet answered by a run start
          lastEnd    \* when the last run ended

vars == <<phase, left, chan, sent, now, starts, usr1At, lastEnd>>

Init ==
  /\ phase = "running" /\ left = RunTicks /\ chan = <<>> /\ sent = 0 /\ now = 0
  /\ starts = {0} /\ usr1At = {} /\ lastEnd = 0

Send(s) ==
  /\ sent < MaxSignals
  /\ sent' = sent + 1
  /\ \/ chan' = Append(chan, s)
     \/ (\E i \in 1..Len(chan) : chan[i] = s) /\ chan' = chan          \* Merge
  /\ usr1At' = IF s = "usr1" THEN usr1At \cup {now} ELSE usr1At
  /\ UNCHANGED <<phase, left, now, starts, lastEnd>>

StartRun ==
  /\ phase' = "running" /\ left' = RunTicks
  /\ starts' = starts \cup {now}
  /\ usr1At' = {}

Tick ==
  /\ now < MaxTime /\ now' = now + 1
  /\ IF phase = "running"
       THEN IF left > 1 THEN left' = left - 1 /\ UNCHANGED <<phase, starts, usr1At, lastEnd, chan>>
            ELSE \* the run ends; its wait begins
                 /\ phase' = "waiting" /\ left' = Refresh /\ lastEnd' = now + 1
                 /\ chan' = IF Variant = "reload_ignored_while_running" THEN SelectSeq(chan, LAMBDA x : x # "usr1") ELSE chan
                 /\ UNCHANGED <<starts, usr1At>>
       ELSE \* waiting: the thread is blocked in recv_timeout; time passes only while the channel is empty
            /\ chan = <<>> /\ left > 0
            /\ left' = left - 1
            /\ UNCHANGED <<phase, starts, usr1At, lastEnd, chan>>
  /\ UNCHANGED sent

Recv ==
  /\ phase = "waiting" /\ chan # <<>>
  /\ chan' = Tail(chan)
  /\ IF Head(chan) = "usr1"
       THEN StartRun /\ UNCHANGED lastEnd
       ELSE /\ left' = IF Variant = "rotate_restarts_wait" THEN Refresh ELSE left
            /\ UNCHANGED <<phase, starts, usr1At, lastEnd>>
  /\ UNCHANGED <<sent, now>>

Timeout ==
  /\ phase = "waiting" /\ chan = <<>> /\ left = 0
  /\ StartRun
  /\ UNCHANGED <<chan, sent, now, lastEnd>>

Next == Send("usr1") \/ Send("usr2") \/ Tick \/ Recv \/ Timeout
Spec == Init /\ [][Next]_vars

-----------------------------------------------------------------------------
(* A run never starts later than Refresh ticks after the previous one ended *)
(* (SIGUSR2 does not push the deadline) ...                                 *)
DeadlineKept == phase = "waiting" => now <= lastEnd + Refresh
(* A SIGUSR1 is answered by a run start as soon as no run is in progress:   *)
(* while waiting, a pending reload means the channel is not empty, so time  *)
(* cannot pass (Tick is disabled) before Recv has started the run.          *)
ReloadNotLost == (phase = "waiting" /\ usr1At # {}) => chan # <<>>
=============================================================================
