---------------------------- MODULE MC_ConfigRT ----------------------------
(* Bounded instances of ConfigRT for exhaustive TLC runs.                  *)
EXTENDS ConfigRT

(* A small mixed set for combinations of three settings. *)
TripleOpts == {"repository-dir", "no-rir-tals", "tals", "rsync-timeout", "validation-threads", "log",
               "history-size", "rtr-listen"}
=============================================================================
