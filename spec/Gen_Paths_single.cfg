\* quick export, singles: every URI (accepted or not) over the whole alphabet
\* {a, A, ".", "..", "%2e%2e", "%2F", "a b", "", x200 (a 200 character segment)}, <= 2 segments; hosts incl. "." ".." "".
SPECIFICATION Spec
CONSTANTS
  Variant = "as_shipped"
  Kinds = {"mft", "mftn", "ta", "tah", "notify"}
  Mode = "single"
  HostsR = {"h.test", "..", ""}
  HostsH = {"h.test", "..", ".", ""}
  HCases = {"lower", "mixed"}
  SCases = {"lower", "upper"}
  Ports = {"", "873"}
  Mods = {"m", "..", ""}
  Segs = {"a"}
  SegsAll = {"a", "A", ".", "..", "%2e%2e", "%2F", "a b", "", "x200"}
  MaxSegs = 2
INVARIANT Emit
CHECK_DEADLOCK FALSE
