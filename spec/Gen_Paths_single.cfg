\* quick export, singles: every URI (accepted or not) over the whole alphabet
\* {a, A, ".", "..", "%2e%2e", "%2F", "a b", "", x200, x300 (segments of 200 and 300 characters)}, <= 2 segments; hosts incl. "." ".." "".
SPECIFICATION Spec
CONSTANTS
  Variant = "as_shipped"
  Kinds = {"mft", "mftn", "ta", "tah", "notify", "notify1"}
  Mode = "single"
  HostsR = {"h.test", "..", ""}
  HostsH = {"h.test", "..", ".", ""}
  HCases = {"lower", "mixed"}
  SCases = {"lower"}
  Ports = {"", "873"}
  Mods = {"m", "..", ""}
  Segs = {"a"}
  SegsAll = {"a", "A", ".", "..", "%2e%2e", "%2F", "a b", "", "x200", "x300"}
  NearSpread = 5
  MaxSegs = 2
INVARIANT Emit
CHECK_DEADLOCK FALSE
