-------------------------------- MODULE Rov --------------------------------
(***************************************************************************)
(* Route origin validation: the state machine (data sets grow, a route is  *)
(* asked about) and property C20 over the operators of RovOps.tla          *)
(* (src/validity.rs, rpki::resources::addr::Prefix).                       *)
(***************************************************************************)
EXTENDS RovOps

-----------------------------------------------------------------------------
(* State machine: validation runs publish VRPs, a client asks about a      *)
(* route; `ans` is what the code answers on the current data set.          *)
(* The data set is a set, so it is built up in the order of the snapshot   *)
(* vector without loss of generality (every set of <= MaxVrps VRPs is      *)
(* reached exactly once per route; this keeps the thorough bound           *)
(* tractable).                                                             *)

VARIABLES vrps,    \* the current data set (PayloadSnapshot::origins)
          route,   \* the route asked about
          ans      \* the answer (RouteValidity)

vars == <<vrps, route, ans>>

Init ==
  /\ vrps = {}
  /\ route \in Routes
  /\ ans = Classify(route, vrps)

(* A validation run adds a VRP; the same query is answered on the new set. *)
Publish(v) ==
  /\ \A w \in vrps : VrpLess(w, v)
  /\ vrps' = vrps \cup {v}
  /\ UNCHANGED route
  /\ ans' = Classify(route, vrps')

Next == Cardinality(vrps) < MaxVrps /\ \E v \in Vrps : Publish(v)

Spec == Init /\ [][Next]_vars

-----------------------------------------------------------------------------
C20_State     == ans.state = Rfc6811State(route, vrps)
C20_Partition == /\ NoDup(ans.matched) /\ NoDup(ans.bad_asn) /\ NoDup(ans.bad_len)
                 /\ [m |-> RangeOf(ans.matched), a |-> RangeOf(ans.bad_asn), l |-> RangeOf(ans.bad_len)]
                      \in AllowedPartitions(route, vrps)
C20_Reason    == ans.reason \in AllowedReasons(ans.state, RangeOf(ans.bad_asn), RangeOf(ans.bad_len))
C20_Rfc6811   == Holds(route, vrps, ans)

(* What the code does with the freedom (not demanded by the property; the  *)
(* replay logs a model divergence, not a violation, if the code changes    *)
(* here).                                                                  *)
Code_BothWrongIsLength ==
  \A v \in Covering(route, vrps) :
     (v.asn # route.asn /\ PLen(route.p) > v.max) => v \in RangeOf(ans.bad_len)
Code_AsBeforeLength == (ans.state = "invalid" /\ ans.bad_asn # <<>>) => ans.reason = "as"
Code_Description ==
  ans.description = CASE ans.state = "valid" -> "valid"
                      [] ans.state = "not-found" -> "not-found"
                      [] ans.reason = "as" -> "bad-asn"
                      [] OTHER -> "bad-len"
Code_ListsSorted ==
  \A s \in {ans.matched, ans.bad_asn, ans.bad_len} :
     \A i, j \in DOMAIN s : i < j => VrpLess(s[i], s[j])

(* Monotonicity of RFC 6811 (sanity of the declarative side): a larger     *)
(* data set never turns valid into something else, nor found into          *)
(* not-found.                                                              *)
Rfc_Monotone ==
  \A v \in vrps :
     LET before == Rfc6811State(route, vrps \ {v}) IN
     /\ (before = "valid" => ans.state = "valid")
     /\ (before = "invalid" => ans.state # "not-found")
=============================================================================
