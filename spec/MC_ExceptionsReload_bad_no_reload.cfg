\* a wrong reload (no_reload, see ExceptionsReload.tla): TLC must reject it
SPECIFICATION MCSpec
CONSTANTS
  MaxEdits = 2
  Variant = "no_reload"
INVARIANTS ServedExactly NeverWithoutExceptions RefusesToStartOnBrokenFile ServedIsLastGoodFile
CHECK_DEADLOCK FALSE
