\* behaviour export (two faults, three runs, the first one free of faults): objects {1, 2}, <= 3 server versions, 3 client runs, <= 2 faults, ETag {TRUE, FALSE}
\* (Variant comes from the environment variable RRDP_VARIANT, default as_shipped)
SPECIFICATION GSpec
CONSTANTS
  Objs = {1, 2}
  MaxVer = 3
  MaxRuns = 3
  MaxFaults = 2
  EtagModes = {TRUE, FALSE}
  WithExpiry = FALSE
  Variant <- GenVariant
CONSTRAINT Stop
CONSTRAINT FirstRunClean
INVARIANT Emit
CHECK_DEADLOCK FALSE
