\* quick (~12 k worlds, ~112 k states): the rich layout (22 VRPs of one family + 6 of the other, duplicates across
\* ROAs and TALs, a ROA mixing the families, 4 router certificates, 9 ASPAs) x {all 48 option combinations x
\* rejected CA with ASPA providers at real size, 8 rejected-resource choices x policy x limit, every single
\* prefix filter (24 shapes + other family), filter x rejected under reject, every single prefix assertion
\* (plain / hostile context), <= 1 BGPsec filter x assertion x toggle}; enumerated multisets: one VRP (11 per
\* family) x 4 rejected choices x 5 filters x assertion x limit x policy, all pairs of occurrences (same ROA /
\* two ROAs / two TALs), 1-2 router certificates x filter x assertion x toggle, all pairs of ASPAs of one customer
\* over the 14 decodable provider sets (3 blocks of 5460 ASNs = the limit 16380, one single ASN); every order of
\* the validation threads (queue order of the committed publication points).
SPECIFICATION MCSpec
CONSTANTS
  Tier = "quick"
  LimitLen = 1
  MaxProviders = 3
  BlockSize = 5460
  FixedOrder = FALSE
  Variant = "documented"
INVARIANTS
  C09_Composition C09_EachOnce C09_Count C09_AssertionsAlwaysServed C09_OnlyEnabled
  C09_NothingInvented C09_LimitIsOnPrefixLength WorldWellFormed
PROPERTIES C09_Terminates
