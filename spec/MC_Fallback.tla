---------------------------- MODULE MC_Fallback ----------------------------
EXTENDS Fallback, Json, TLC
Emit == done => PrintT(<<"REPLAY", ToJson([policy |-> policy, outcome |-> outcome, rrdp |-> rrdpOn, rsync |-> rsyncOn,
                                           notify |-> notify,
                                           decision |-> Documented(policy, outcome, rrdpOn, rsyncOn, notify)])>>)
=============================================================================
