---------------------------- MODULE MC_Fallback ----------------------------
EXTENDS Fallback, Json, TLC
Emit == done => PrintT(<<"REPLAY", ToJson([policy |-> policy, copy |-> copy, result |-> result,
                                           outcome |-> OutcomeOf(copy, result), rrdp |-> rrdpOn, rsync |-> rsyncOn,
                                           notify |-> notify,
                                           decision |-> Documented(policy, OutcomeOf(copy, result), rrdpOn, rsyncOn, notify)])>>)
=============================================================================
