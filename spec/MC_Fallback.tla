---------------------------- MODULE MC_Fallback ----------------------------
EXTENDS Fallback, Json, TLC
(* one line per complete history of MaxRuns runs *)
Emit == (phase = "idle" /\ n = MaxRuns) =>
          PrintT(<<"REPLAY", ToJson([policy |-> policy, copy |-> hist[1].before, rrdp |-> rrdpOn, rsync |-> rsyncOn,
                                     notify |-> notify, runs |-> hist])>>)
=============================================================================
