----------------------------- MODULE MC_Output -----------------------------
(* Bounded instance of Output for exhaustive TLC runs.                     *)
EXTENDS Output
=============================================================================
