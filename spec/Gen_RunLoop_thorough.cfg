SPECIFICATION Spec
CONSTANTS
  MaxLen = 5
  Variant = "intended"
  Times = {1, 2, 3, 4}
INVARIANTS Emit EmitTable
CHECK_DEADLOCK FALSE
