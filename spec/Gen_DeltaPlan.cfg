\* export: every row with the plan of the specification
SPECIFICATION Spec
CONSTANTS
  MaxSerial = 5
  Counts = {1, 2, 4}
  ListLens = {2, 10}
  Variant = "code"
INVARIANT Emit
CHECK_DEADLOCK FALSE
