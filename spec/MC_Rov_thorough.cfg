\* thorough: as quick, but every data set of <= 3 VRPs (187 565 sets x 60 routes = 11 253 900 states)
SPECIFICATION Spec
CONSTANTS
  MaxBits = 3
  Asns = {1, 2}
  MaxVrps = 3
  Variant = "code"
INVARIANTS
  C20_State
  C20_Partition
  C20_Reason
  Code_BothWrongIsLength
  Code_AsBeforeLength
  Code_Description
  Code_ListsSorted
  Rfc_Monotone
CHECK_DEADLOCK FALSE
