\* same cases as MC_Codec_thorough.cfg
SPECIFICATION GSpec
CONSTANTS
  Variant = "intended"
  ValueMode = "full"
  CorrMode = "all"
INVARIANT Emit
CHECK_DEADLOCK FALSE
