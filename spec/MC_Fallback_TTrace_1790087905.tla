---- MODULE MC_Fallback_TTrace_1790087905 ----
EXTENDS Sequences, TLCExt, Toolbox, Naturals, TLC, MC_Fallback

_expression ==
    LET MC_Fallback_TEExpression == INSTANCE MC_Fallback_TEExpression
    IN MC_Fallback_TEExpression!expression
----

_trace ==
    LET MC_Fallback_TETrace == INSTANCE MC_Fallback_TETrace
    IN MC_Fallback_TETrace!trace
----

_inv ==
    ~(
        TLCGet("level") = Len(_TETrace)
        /\
        phase = ("idle")
        /\
        ideal = ("expired")
        /\
        decision = ("rsync")
        /\
        before = ("expired")
        /\
        rsyncOn = (TRUE)
        /\
        n = (1)
        /\
        notify = (TRUE)
        /\
        result = ("notify_fails")
        /\
        hist = (<<[before |-> "expired", result |-> "notify_fails", outcome |-> "stale", decision |-> "none"]>>)
        /\
        rrdpOn = (TRUE)
        /\
        rrdpAsked = (TRUE)
        /\
        copy = ("expired")
        /\
        outcome = ("stale")
        /\
        policy = ("new")
    )
----

_init ==
    /\ phase = _TETrace[1].phase
    /\ decision = _TETrace[1].decision
    /\ before = _TETrace[1].before
    /\ outcome = _TETrace[1].outcome
    /\ n = _TETrace[1].n
    /\ rrdpAsked = _TETrace[1].rrdpAsked
    /\ rsyncOn = _TETrace[1].rsyncOn
    /\ copy = _TETrace[1].copy
    /\ ideal = _TETrace[1].ideal
    /\ hist = _TETrace[1].hist
    /\ result = _TETrace[1].result
    /\ rrdpOn = _TETrace[1].rrdpOn
    /\ policy = _TETrace[1].policy
    /\ notify = _TETrace[1].notify
----

_next ==
    /\ \E i,j \in DOMAIN _TETrace:
        /\ \/ /\ j = i + 1
              /\ i = TLCGet("level")
        /\ phase  = _TETrace[i].phase
        /\ phase' = _TETrace[j].phase
        /\ decision  = _TETrace[i].decision
        /\ decision' = _TETrace[j].decision
        /\ before  = _TETrace[i].before
        /\ before' = _TETrace[j].before
        /\ outcome  = _TETrace[i].outcome
        /\ outcome' = _TETrace[j].outcome
        /\ n  = _TETrace[i].n
        /\ n' = _TETrace[j].n
        /\ rrdpAsked  = _TETrace[i].rrdpAsked
        /\ rrdpAsked' = _TETrace[j].rrdpAsked
        /\ rsyncOn  = _TETrace[i].rsyncOn
        /\ rsyncOn' = _TETrace[j].rsyncOn
        /\ copy  = _TETrace[i].copy
        /\ copy' = _TETrace[j].copy
        /\ ideal  = _TETrace[i].ideal
        /\ ideal' = _TETrace[j].ideal
        /\ hist  = _TETrace[i].hist
        /\ hist' = _TETrace[j].hist
        /\ result  = _TETrace[i].result
        /\ result' = _TETrace[j].result
        /\ rrdpOn  = _TETrace[i].rrdpOn
        /\ rrdpOn' = _TETrace[j].rrdpOn
        /\ policy  = _TETrace[i].policy
        /\ policy' = _TETrace[j].policy
        /\ notify  = _TETrace[i].notify
        /\ notify' = _TETrace[j].notify

\* Uncomment the ASSUME below to write the states of the error trace
\* to the given file in Json format. Note that you can pass any tuple
\* to `JsonSerialize`. For example, a sub-sequence of _TETrace.
    \* ASSUME
    \*     LET J == INSTANCE Json
    \*         IN J!JsonSerialize("MC_Fallback_TTrace_1790087905.json", _TETrace)

=============================================================================

 Note that you can extract this module `MC_Fallback_TEExpression`
  to a dedicated file to reuse `expression` (the module in the 
  dedicated `MC_Fallback_TEExpression.tla` file takes precedence 
  over the module `MC_Fallback_TEExpression` below).

---- MODULE MC_Fallback_TEExpression ----
EXTENDS Sequences, TLCExt, Toolbox, Naturals, TLC, MC_Fallback

expression == 
    [
        \* To hide variables of the `MC_Fallback` spec from the error trace,
        \* remove the variables below.  The trace will be written in the order
        \* of the fields of this record.
        phase |-> phase
        ,decision |-> decision
        ,before |-> before
        ,outcome |-> outcome
        ,n |-> n
        ,rrdpAsked |-> rrdpAsked
        ,rsyncOn |-> rsyncOn
        ,copy |-> copy
        ,ideal |-> ideal
        ,hist |-> hist
        ,result |-> result
        ,rrdpOn |-> rrdpOn
        ,policy |-> policy
        ,notify |-> notify
        
        \* Put additional constant-, state-, and action-level expressions here:
        \* ,_stateNumber |-> _TEPosition
        \* ,_phaseUnchanged |-> phase = phase'
        
        \* Format the `phase` variable as Json value.
        \* ,_phaseJson |->
        \*     LET J == INSTANCE Json
        \*     IN J!ToJson(phase)
        
        \* Lastly, you may build expressions over arbitrary sets of states by
        \* leveraging the _TETrace operator.  For example, this is how to
        \* count the number of times a spec variable changed up to the current
        \* state in the trace.
        \* ,_phaseModCount |->
        \*     LET F[s \in DOMAIN _TETrace] ==
        \*         IF s = 1 THEN 0
        \*         ELSE IF _TETrace[s].phase # _TETrace[s-1].phase
        \*             THEN 1 + F[s-1] ELSE F[s-1]
        \*     IN F[_TEPosition - 1]
    ]

=============================================================================



Parsing and semantic processing can take forever if the trace below is long.
 In this case, it is advised to uncomment the module below to deserialize the
 trace from a generated binary file.

\*
\*---- MODULE MC_Fallback_TETrace ----
\*EXTENDS IOUtils, TLC, MC_Fallback
\*
\*trace == IODeserialize("MC_Fallback_TTrace_1790087905.bin", TRUE)
\*
\*=============================================================================
\*

---- MODULE MC_Fallback_TETrace ----
EXTENDS TLC, MC_Fallback

trace == 
    <<
    ([phase |-> "idle",ideal |-> "expired",decision |-> "pending",before |-> "none",rsyncOn |-> TRUE,n |-> 0,notify |-> TRUE,result |-> "none",hist |-> <<>>,rrdpOn |-> TRUE,rrdpAsked |-> FALSE,copy |-> "expired",outcome |-> "pending",policy |-> "new"]),
    ([phase |-> "update",ideal |-> "expired",decision |-> "pending",before |-> "expired",rsyncOn |-> TRUE,n |-> 1,notify |-> TRUE,result |-> "notify_fails",hist |-> <<>>,rrdpOn |-> TRUE,rrdpAsked |-> FALSE,copy |-> "expired",outcome |-> "pending",policy |-> "new"]),
    ([phase |-> "decide",ideal |-> "expired",decision |-> "pending",before |-> "expired",rsyncOn |-> TRUE,n |-> 1,notify |-> TRUE,result |-> "notify_fails",hist |-> <<>>,rrdpOn |-> TRUE,rrdpAsked |-> FALSE,copy |-> "expired",outcome |-> "stale",policy |-> "new"]),
    ([phase |-> "idle",ideal |-> "expired",decision |-> "rsync",before |-> "expired",rsyncOn |-> TRUE,n |-> 1,notify |-> TRUE,result |-> "notify_fails",hist |-> <<[before |-> "expired", result |-> "notify_fails", outcome |-> "stale", decision |-> "none"]>>,rrdpOn |-> TRUE,rrdpAsked |-> TRUE,copy |-> "expired",outcome |-> "stale",policy |-> "new"])
    >>
----


=============================================================================

---- CONFIG MC_Fallback_TTrace_1790087905 ----
CONSTANTS
    MaxRuns = 2
    Variant = "mutant"

INVARIANT
    _inv

CHECK_DEADLOCK
    \* CHECK_DEADLOCK off because of PROPERTY or INVARIANT above.
    FALSE

INIT
    _init

NEXT
    _next

CONSTANT
    _TETrace <- _trace

ALIAS
    _expression
=============================================================================
\* Generated on Tue Sep 22 14:38:25 UTC 2026