\* exhaustive: 3 threads x 2 keys, one call each (every assignment of keys to threads), every interleaving; the intended rsync order (updated.insert before running.remove, no removal at the second check)
SPECIFICATION Spec
CONSTANTS
  Threads = {"T1", "T2", "T3"}
  Keys = {"k1", "k2"}
  MaxCalls = 1
  Order = "insert_then_remove"
  Check2Removes = FALSE
  HostVariant = "intended"
INVARIANTS TypeOK C37_AtMostOnce C37_WaitsForFetch MutexOwned
CHECK_DEADLOCK TRUE
