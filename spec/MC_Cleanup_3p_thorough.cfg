\* thorough: 3 points in 2 modules (two points share a module), 2 manifest versions, no corrupted store; 2 runs, 2 steps per gap
SPECIFICATION Spec
CONSTANTS
  NPoints = 3
  Modules = {"m1", "m2"}
  Transports = {FALSE}
  Rrdp = FALSE
  MaxVer = 2
  MaxRuns = 2
  MaxEnv = 2
  MaxExpire = 1
  Kinds = {"update", "initial"}
  Corruptions = {FALSE}
  Ticks = {FALSE}
  Variant = "as_code"
INVARIANTS TypeOK C40_UnexpiredPointKept C40_UsedCopyKept C40_DirtyRemovesNothing C40_FailedRemovesNothing
           ProcessRemovesNothing Sanity_CleanupRemoves Sanity_CleanupOnlyWhenDue
PROPERTY TaKept
CHECK_DEADLOCK FALSE
