\* exhaustive: TA -> CA2 -> {CA3, CA4}, 5 ROAs; 21 timed elements, at most one short (5 or 9, others 30) x up to two faulty ROAs / CA certificates; every processing order of the manifest entries and of the task queue
SPECIFICATION Spec
CONSTANTS
  Short <- ShortTimes
  Long = 30
  MaxShort = 1
  FaultSites = "all"
  MaxFaults = 2
  Variant = "code"
INVARIANTS
  C39_RefreshWithinBound C39_PerPoint C39_DefinedIffPayload OrderWindow HiIsBound SortedInWindow SnapshotOrderIndependent
PROPERTIES Terminates
