\* thorough: every data set of <= 5 items out of the 7-item universe (120), every selection of <= 1 selector
\* (the "or" of several selectors is covered by the Gen_Output cases, which re-check the inclusion test against
\* the documented selection for <= 3 selectors), all 8 exclusions, all 6 format families, every state of the
\* stream state machine; every string of <= 4 character classes at every escaping site.
SPECIFICATION Spec
CONSTANTS
  MaxItems = 5
  MaxSel = 1
  MaxStr = 4
  Variant = "intended"
INVARIANTS
  C21_ListedExactlyOnce
  C21_NeverTooMuch
  C21_SelectionAsDocumented
  C21_WellFormed
  C21_LabelsStayInsideStrings
  C22_StatusStringsRoundTrip
  C22_MetricsLabelsRoundTrip
  C22_NoRawSpecials
CHECK_DEADLOCK TRUE
