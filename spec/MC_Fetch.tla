------------------------------ MODULE MC_Fetch ------------------------------
(* Bounded instances of Fetch.tla, part (a): once-per-run bookkeeping.      *)
EXTENDS Fetch
=============================================================================
