\* intended design; 3 objects, <= 3 server versions, 3 client runs, <= 3 faults, ETag on/off, local copy may expire between runs
SPECIFICATION Spec
CONSTANTS
  Objs = {1, 2, 3}
  MaxVer = 3
  MaxRuns = 3
  MaxFaults = 3
  EtagModes = {TRUE, FALSE}
  WithExpiry = TRUE
  Variant = "intended"
INVARIANTS TypeOK VersionsDistinct C25_UpdatedIsSnapshotAtSerial C25_UpdatedIsAnnounced C25_FailureNotUsed C25_NoCopyUnavailable
CHECK_DEADLOCK FALSE
