---------------------------- MODULE ProcessOnce ----------------------------
(***************************************************************************)
(* One update cycle of the server, Server::process_once                    *)
(* (operation.rs:423-475), at the grain of its calls:                      *)
(*                                                                         *)
(*   mark_update_start                                                     *)
(*   ValidationReport::process = Engine::start; Run::process (worker       *)
(*       threads validate publication points and collect payload into the  *)
(*       report); Run::cleanup          -- any of them may fail (`?`)      *)
(*   SharedHistory::update(report)      -- installs the data, new serial   *)
(*   mark_update_done                   -- created time, next refresh      *)
(*   notify                             -- RTR Serial Notify, long-polls   *)
(*                                                                         *)
(* A run fails at the start, while publication points are being validated  *)
(* (a part of the tree is already in the report), or in the cleanup.       *)
(* Inside Run::process a failure is recorded in shared flags (had_err,     *)
(* is_fatal) by the worker that met it; the run fails iff Run::process     *)
(* finds the flags set after the workers are done (engine.rs:474-481).     *)
(*                                                                         *)
(* C33: a failed run leaves data, serial, ETag and pending notifications   *)
(* as they were.                                                           *)
(*                                                                         *)
(* Variant "code"; seeded faults that TLC must reject:                     *)
(*   "flags_split"     a fatal error sets only is_fatal, and Run::process  *)
(*                     looks at is_fatal only inside `if had_err`          *)
(*   "install_first"   the report is installed before the cleanup result   *)
(*                     is looked at                                        *)
(***************************************************************************)
EXTENDS Naturals, FiniteSets, TLC

CONSTANTS Points,      \* publication points of the tree, e.g. 1..3
          MaxRuns,
          Variant

VARIABLES pc,          \* "idle" | "validating" | "cleanup" | "install" | "mark" | "notify"
          todo,        \* points not yet validated in this run
          report,      \* points whose payload the report of this run holds
          world,       \* what a complete run would produce now (a version number)
          hadErr, isFatal,
          failAt,      \* the fault the environment plants in this run: <<where, point, kind>>, where \in none/start/point/cleanup
          served,      \* [serial, data]: data = <<version, set of points>>
          notified,    \* number of notifications sent so far
          result,      \* outcome of the last finished run: "none" | "ok" | "retry" | "fatal"
          before,      \* served / notified when the run started (history variable for C33)
          runs

vars == <<pc, todo, report, world, hadErr, isFatal, failAt, served, notified, result, before, runs>>

Kinds == {"retry", "fatal"}
NoFault == <<"none", 0, "none">>
Faults == {NoFault, <<"cleanup", 0, "fatal">>} \cup {<<"start", 0, k>> : k \in Kinds}
          \cup {<<"point", p, k>> : p \in Points, k \in Kinds}

Init ==
  /\ pc = "idle" /\ todo = {} /\ report = {} /\ world = 1
  /\ hadErr = FALSE /\ isFatal = FALSE /\ failAt = NoFault
  /\ served = [serial |-> 0, data |-> <<0, {}>>]
  /\ notified = 0 /\ result = "none" /\ before = <<served, notified>> /\ runs = 0

(* The repositories change between runs. *)
EnvChange == pc = "idle" /\ world' = world + 1 /\ world < MaxRuns + 1
             /\ UNCHANGED <<pc, todo, report, hadErr, isFatal, failAt, served, notified, result, before, runs>>

Start ==
  /\ pc = "idle" /\ runs < MaxRuns
  /\ runs' = runs + 1
  /\ \E f \in Faults :
       /\ failAt' = f
       /\ IF f[1] = "start"
            THEN pc' = "idle" /\ result' = f[3] /\ todo' = {} /\ report' = {}
            ELSE pc' = "validating" /\ result' = "none" /\ todo' = Points /\ report' = {}
  /\ hadErr' = FALSE /\ isFatal' = FALSE
  /\ before' = <<served, notified>>
  /\ UNCHANGED <<world, served, notified>>

(* A worker validates one publication point (any order). *)
Validate ==
  /\ pc = "validating" /\ todo # {}
  /\ \E p \in todo :
       /\ todo' = todo \ {p}
       /\ IF failAt[1] = "point" /\ failAt[2] = p
            THEN \* run_failed (engine.rs:629)
                 LET k == failAt[3] IN
                 /\ hadErr'  = IF Variant = "flags_split" /\ k = "fatal" THEN hadErr ELSE TRUE
                 /\ isFatal' = IF k = "fatal" THEN TRUE ELSE isFatal
                 /\ UNCHANGED report
            ELSE report' = report \cup {p} /\ UNCHANGED <<hadErr, isFatal>>
  /\ UNCHANGED <<pc, world, failAt, served, notified, result, before, runs>>

(* Run::process returns (engine.rs:474-481). *)
ProcessDone ==
  /\ pc = "validating" /\ todo = {}
  /\ IF hadErr
       THEN pc' = "idle" /\ result' = IF isFatal THEN "fatal" ELSE "retry"
       ELSE pc' = (IF Variant = "install_first" THEN "install" ELSE "cleanup") /\ UNCHANGED result
  /\ UNCHANGED <<todo, report, world, hadErr, isFatal, failAt, served, notified, before, runs>>

Cleanup ==
  /\ pc = "cleanup"
  /\ IF failAt[1] = "cleanup"
       THEN pc' = "idle" /\ result' = "fatal"
       ELSE pc' = (IF Variant = "install_first" THEN "mark" ELSE "install") /\ UNCHANGED result
  /\ UNCHANGED <<todo, report, world, hadErr, isFatal, failAt, served, notified, before, runs>>

(* SharedHistory::update: a new serial iff the data differs. *)
Install ==
  /\ pc = "install"
  /\ LET d == <<world, report>> IN
     served' = IF d # served.data THEN [serial |-> served.serial + 1, data |-> d] ELSE served
  /\ pc' = (IF Variant = "install_first" THEN "cleanup" ELSE "mark")
  /\ UNCHANGED <<todo, report, world, hadErr, isFatal, failAt, notified, result, before, runs>>

MarkDone ==
  /\ pc = "mark" /\ pc' = "notify"
  /\ UNCHANGED <<todo, report, world, hadErr, isFatal, failAt, served, notified, result, before, runs>>

Notify ==
  /\ pc = "notify"
  /\ notified' = IF served.serial # before[1].serial THEN notified + 1 ELSE notified
  /\ pc' = "idle" /\ result' = "ok"
  /\ UNCHANGED <<todo, report, world, hadErr, isFatal, failAt, served, before, runs>>

Next == EnvChange \/ Start \/ Validate \/ ProcessDone \/ Cleanup \/ Install \/ MarkDone \/ Notify
Spec == Init /\ [][Next]_vars

-----------------------------------------------------------------------------
TypeOK == pc \in {"idle", "validating", "cleanup", "install", "mark", "notify"} /\ result \in {"none", "ok", "retry", "fatal"}

(* C33 *)
C33_FailedRunChangesNothing ==
  (pc = "idle" /\ result \in Kinds) => <<served, notified>> = before

(* A run in which a fault was planted does not end "ok", and what is served *)
(* is always the complete result of some run.                               *)
FaultMeansFailure == (pc = "idle" /\ result = "ok") => failAt = NoFault
ServedIsComplete  == served.data[2] \in {{}, Points}
=============================================================================
