--------------------------- MODULE MC_FetchHosts ---------------------------
(* Fetch.tla part (b) as a table: one initial state per (host class, URI     *)
(* kind, allow-dubious-hosts, copy of an earlier run in the cache); the invariant is the statement of C31.  The   *)
(* Gen cfg prints every row with the verdict of the statement (must) and     *)
(* what the transcribed code does (requests).                                *)
EXTENDS Fetch, Json

VARIABLES row, kind, allow, known
hvars == <<row, kind, allow, known>>

HInit == Init /\ row \in HostRows /\ kind \in UriKinds /\ allow \in BOOLEAN /\ known \in BOOLEAN
HNext == UNCHANGED <<vars, hvars>>
HSpec == HInit /\ [][HNext]_<<vars, hvars>>

C31_NoDubiousFetch == C31_Row(row, kind, allow, known)

\* sanity of the table itself
TableOK ==
  /\ (row.exact => row.localhost)
  /\ (row.port => row.colon)
  /\ (row.ipparse => row.ip)
  /\ (~row.stated => ~(row.localhost \/ row.ip \/ row.port))

Line == [class |-> row.class, auth |-> row.auth, kind |-> kind, allow |-> allow, known |-> known,
         must_not |-> MustNotFetch(row, allow), stated |-> row.stated, parses |-> row.parses,
         model_requests |-> Requests(row, kind, allow, known)]
Emit == PrintT(<<"REPLAY", ToJson(Line)>>)
=============================================================================
