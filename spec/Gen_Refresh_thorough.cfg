\* worlds with up to two short elements x (no fault | one faulty element | both ROAs of CA2 faulty; BadSig or Expired)
SPECIFICATION GSpec
CONSTANTS
  Short <- ShortTimes
  Long = 30
  MaxShort = 2
  FaultSites = "all"
  MaxFaults = 1
  FaultKinds <- BothKinds
  Variant = "code"
INVARIANT Emit
CHECK_DEADLOCK FALSE
