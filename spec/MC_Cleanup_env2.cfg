\* as MC_Cleanup.cfg but 2 runs with up to 2 environment steps before each
SPECIFICATION Spec
CONSTANTS
  NPoints = 2
  Modules = {"m1", "m2"}
  Transports = {FALSE}
  Rrdp = FALSE
  MaxVer = 3
  MaxRuns = 2
  MaxEnv = 2
  MaxExpire = 1
  Kinds = {"update", "initial"}
  Corruptions = {FALSE, TRUE}
  Ticks = {FALSE}
  Variant = "as_code"
INVARIANTS TypeOK C40_UnexpiredPointKept C40_UsedCopyKept C40_DirtyRemovesNothing C40_FailedRemovesNothing
           ProcessRemovesNothing Sanity_CleanupRemoves Sanity_CleanupOnlyWhenDue
PROPERTY TaKept
CHECK_DEADLOCK FALSE
