---------------------------- MODULE CrashRecovery ----------------------------
(***************************************************************************)
(* The run after a kill (property C23: "... and produces the same data set *)
(* as a run that was never interrupted").  StoreCrash.tla looks at the     *)
(* file-system steps of one stored point; this module looks at what the    *)
(* next run has to do when the killed run got as far as the collector but  *)
(* not through the store.                                                  *)
(*                                                                         *)
(* One repository with the points 1..NPoints; the server publishes version *)
(* "new".  A run: the collector brings its copy up to date (RRDP: archive  *)
(* and validators; engine.rs:689-720 then asks the collector for the       *)
(* repository), then every point is validated from the copy and its stored *)
(* version replaced (store.rs:780-919).  A kill can come between any two   *)
(* steps.  In the next run the server has nothing newer than the copy: an  *)
(* RRDP server answers the conditional request with 304 Not Modified       *)
(* (rrdp/base.rs:854-858 treats that as a successful update: the copy is   *)
(* used), rsync transfers nothing.  The points the killed run did not      *)
(* reach are brought up to date only because the run compares the store    *)
(* with the copy again.                                                    *)
(*                                                                         *)
(* Variant "not_modified_skips_copy": a Not Modified answer is taken for   *)
(* "nothing to do", the run validates from the store alone.                *)
(***************************************************************************)
EXTENDS Naturals, FiniteSets

CONSTANTS NPoints, MaxKills, Variant

Points == 1..NPoints
Versions == {"old", "new"}

VARIABLES copy,      \* version of the collector's copy
          stored,    \* point -> stored version
          pc,        \* "idle" | "fetched" (this run has a usable repository) | "store_only" | "done"
          todo,      \* points this run has not processed yet
          kills, complete    \* kills so far; the last run ran to its end
vars == <<copy, stored, pc, todo, kills, complete>>

Init ==
  /\ copy = "old" /\ stored = [p \in Points |-> "old"]
  /\ pc = "idle" /\ todo = {} /\ kills = 0 /\ complete = FALSE

(* the collector's part of a run *)
Fetch ==
  /\ pc = "idle"
  /\ complete' = FALSE /\ todo' = Points
  /\ IF copy = "new"
       THEN \* the server has nothing newer: Not Modified
            /\ pc' = IF Variant = "not_modified_skips_copy" THEN "store_only" ELSE "fetched"
            /\ UNCHANGED copy
       ELSE /\ copy' = "new" /\ pc' = "fetched"
  /\ UNCHANGED <<stored, kills>>

(* one publication point: validated from the copy, the stored version replaced; without a repository the stored one is used *)
Point(p) ==
  /\ pc \in {"fetched", "store_only"} /\ p \in todo
  /\ stored' = IF pc = "fetched" THEN [stored EXCEPT ![p] = copy] ELSE stored
  /\ todo' = todo \ {p}
  /\ UNCHANGED <<copy, pc, kills, complete>>

Finish ==
  /\ pc \in {"fetched", "store_only"} /\ todo = {}
  /\ pc' = "idle" /\ complete' = TRUE
  /\ UNCHANGED <<copy, stored, todo, kills>>

Kill ==
  /\ pc \in {"fetched", "store_only"} /\ kills < MaxKills
  /\ kills' = kills + 1 /\ pc' = "idle" /\ todo' = {}
  /\ UNCHANGED <<copy, stored, complete>>

Next == Fetch \/ (\E p \in Points : Point(p)) \/ Finish \/ Kill
Spec == Init /\ [][Next]_vars

(* C23: a run that was not interrupted leaves what an uninterrupted history leaves - every point at the server's version *)
C23_RunAfterKillCatchesUp == complete => \A p \in Points : stored[p] = "new"
(* and meanwhile every point is a complete old or new version (trivially here: versions are atomic; StoreCrash.tla) *)
TypeOK == copy \in Versions /\ stored \in [Points -> Versions]
=============================================================================
