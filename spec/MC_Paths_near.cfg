\* quick (2/2): every pair of accepted URIs one edit apart, everything switched on: ports,
\* trailing-dot host, segments {a, A, %2e%2e, ""}, <= 2 segments; intended design.
SPECIFICATION Spec
CONSTANTS
  Variant = "intended"
  Kinds = {"mft", "mftn", "ta", "tah", "notify", "notify1"}
  Mode = "near"
  HostsR = {"h.test", "h.test."}
  HostsH = {"h.test", "h.test.", "..", ""}
  HCases = {"lower", "mixed"}
  SCases = {"lower"}
  Ports = {"", "873"}
  Mods = {"m", "n"}
  Segs = {"a", "A", "%2e%2e", ""}
  SegsAll = {"a"}
  NearSpread = 5
  MaxSegs = 2
INVARIANTS TypeOK C30_Confined C30_Distinct Storable
CHECK_DEADLOCK FALSE
