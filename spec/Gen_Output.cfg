\* quick: data sets <= 3 items (64), selections <= 2 selectors (105), 8 exclusions = 53 760 cases; strings <= 3 classes (400)
SPECIFICATION GSpec
CONSTANTS
  MaxItems = 3
  MaxSel = 2
  MaxStr = 3
  Variant = "intended"
INVARIANT Emit
CHECK_DEADLOCK FALSE
