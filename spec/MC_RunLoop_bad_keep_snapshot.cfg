\* seeded fault "keep_unchanged_snapshot" (C34): TLC must reject
SPECIFICATION Spec
CONSTANTS
  MaxLen = 1
  Variant = "keep_unchanged_snapshot"
  Times = {1, 2, 3, 4}
INVARIANTS C34_LatestRunCounts
CHECK_DEADLOCK FALSE
