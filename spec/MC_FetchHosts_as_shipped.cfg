\* has_dubious_authority as shipped (raw authority == "localhost", F12): TLC must reject C31_NoDubiousFetch
SPECIFICATION HSpec
CONSTANTS
  Threads = {"T1"}
  Keys = {"k1"}
  MaxCalls = 1
  Order = "insert_then_remove"
  Check2Removes = FALSE
  HostVariant = "as_shipped"
INVARIANTS C31_NoDubiousFetch TableOK
CHECK_DEADLOCK FALSE
