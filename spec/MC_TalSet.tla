------------------------------ MODULE MC_TalSet ------------------------------
EXTENDS TalSet, Json, TLC
Emit == done => PrintT(<<"REPLAY", ToJson([mention |-> mention, no_rir |-> noRir, dir |-> dir,
                                           ok |-> result.ok, names |-> result.names, twice |-> result.twice])>>)
=============================================================================
