\* thorough: 3 threads x 2 keys, two calls per thread (a thread uses several CAs), every interleaving; intended rsync order
SPECIFICATION Spec
CONSTANTS
  Threads = {"T1", "T2", "T3"}
  Keys = {"k1", "k2"}
  MaxCalls = 2
  Order = "insert_then_remove"
  Check2Removes = FALSE
  HostVariant = "intended"
INVARIANTS TypeOK C37_AtMostOnce C37_WaitsForFetch MutexOwned
CHECK_DEADLOCK TRUE
