------------------------------ MODULE RtrTiming ------------------------------
(***************************************************************************)
(* The Refresh Interval announced to RTR clients in End of Data:           *)
(* SharedHistory::timing (payload/history.rs:216) takes                    *)
(* PayloadHistory::update_wait (353-362), the time until the next data set *)
(* is expected - next_update_start plus twice the duration of the last     *)
(* update, or the configured refresh if that moment has passed - and cuts  *)
(* it to whole seconds (Duration::as_secs).  RFC 8210 section 6: Refresh   *)
(* Interval 1 .. 86400 s.                                                  *)
(*                                                                         *)
(* Time in half seconds.  Variant "as_coded": in the last second before    *)
(* the expected moment the announced interval is 0.  "clamped": at least   *)
(* 1.  Not one of the listed properties; the replay records what a real    *)
(* server announces over one refresh period (evidence of C15,               *)
(* notes.rtr_refresh_hint_seconds).                                        *)
(***************************************************************************)
EXTENDS Naturals

CONSTANTS Refresh,     \* configured refresh, in half seconds
          MaxDur,      \* longest update duration considered
          Horizon,     \* moments considered after the update ended
          Variant      \* "as_coded" | "clamped"

VARIABLE dummy
Spec == dummy = 0 /\ [][UNCHANGED dummy]_dummy

Max(a, b) == IF a > b THEN a ELSE b

(* the update ended at 0: next_update_start = Refresh; `now` is when a client asks *)
UpdateWait(dur, now) ==
  LET start == Refresh + 2 * dur
  IN IF start >= now THEN start - now ELSE Refresh          \* duration_since(..).unwrap_or(self.refresh)

Hint(dur, now) ==
  LET secs == UpdateWait(dur, now) \div 2                   \* as_secs()
  IN IF Variant = "clamped" THEN Max(secs, 1) ELSE secs

RefreshHintInRange ==
  \A dur \in 0..MaxDur, now \in 0..Horizon : Hint(dur, now) >= 1 /\ Hint(dur, now) <= 86400
=============================================================================
