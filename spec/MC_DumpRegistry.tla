-------------------------- MODULE MC_DumpRegistry --------------------------
EXTENDS DumpRegistry, Json
Emit == (Len(order) = MaxRegs) => PrintT(<<"REPLAY", ToJson([kind |-> "dumpreg", regs |-> order])>>)
=============================================================================
