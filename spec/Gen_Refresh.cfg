\* worlds with at most one short element x (no fault | one faulty ROA / CA certificate | both ROAs of CA2 faulty; BadSig or Expired)
SPECIFICATION GSpec
CONSTANTS
  Short <- ShortTimes
  Long = 30
  MaxShort = 1
  FaultSites = "all"
  MaxFaults = 1
  FaultKinds <- BothKinds
  Variant = "code"
INVARIANT Emit
CHECK_DEADLOCK FALSE
