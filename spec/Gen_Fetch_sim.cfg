\* for tlc -simulate: 3 threads, up to 2 calls each, 2 keys (intended rsync order)
SPECIFICATION GSpec
CONSTANTS
  Threads = {"T1", "T2", "T3"}
  Keys = {"k1", "k2"}
  MaxCalls = 2
  Order = "insert_then_remove"
  Check2Removes = FALSE
  OnlyBad = FALSE
  HostVariant = "intended"
INVARIANT Emit
CHECK_DEADLOCK FALSE
