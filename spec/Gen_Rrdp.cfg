\* behaviour export: objects {1, 2}, <= 3 server versions, 2 client runs, <= 1 faults, ETag {TRUE, FALSE}
\* (Variant comes from the environment variable RRDP_VARIANT, default as_shipped)
SPECIFICATION GSpec
CONSTANTS
  Objs = {1, 2}
  MaxVer = 3
  MaxRuns = 2
  MaxFaults = 1
  EtagModes = {TRUE, FALSE}
  WithExpiry = FALSE
  Variant <- GenVariant
CONSTRAINT Stop
INVARIANT Emit
CHECK_DEADLOCK FALSE
