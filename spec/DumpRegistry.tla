---------------------------- MODULE DumpRegistry ----------------------------
(***************************************************************************)
(* The directory names `routinator dump` gives to RRDP repositories:       *)
(* utils/dump.rs DumpRegistry::get_repo_path / make_path.  A repository is *)
(* identified by its rpkiNotify URI; the first one of an authority gets    *)
(* the (canonical) authority as its name, later ones <authority>-<i> with  *)
(* the least i whose name is free.  Every name handed out is remembered,   *)
(* so that no two URIs share a directory (C30) - also when a host is       *)
(* literally called like a numbered name ("h-1").                          *)
(*                                                                         *)
(* Variant "forgets_numbered" (seeded fault): the numbered names are not   *)
(* remembered.                                                             *)
(***************************************************************************)
EXTENDS Naturals, Sequences, FiniteSets, TLC

CONSTANTS Auths,      \* canonical authorities, strings; e.g. {"h", "h-1"}
          Paths,      \* notification paths, e.g. {"a", "b", "c"}
          MaxRegs,
          Variant

Uris == Auths \X Paths
Digits == <<"1", "2", "3", "4", "5">>
Numbered(a, i) == a \o "-" \o Digits[i]

VARIABLES dirs,       \* names handed out and remembered
          name,       \* function: registered URI -> name
          order       \* sequence of registrations (for the export)
vars == <<dirs, name, order>>

Init == dirs = {} /\ name = <<>> /\ order = <<>>

FirstFree(a) == CHOOSE i \in 1..Len(Digits) : Numbered(a, i) \notin dirs /\ \A j \in 1..(i - 1) : Numbered(a, j) \in dirs

NameFor(u) ==
  IF u[1] \notin dirs THEN u[1] ELSE Numbered(u[1], FirstFree(u[1]))

Register(u) ==
  /\ Len(order) < MaxRegs
  /\ u \notin DOMAIN name
  /\ LET n == NameFor(u) IN
     /\ name' = [x \in DOMAIN name \cup {u} |-> IF x = u THEN n ELSE name[x]]
     /\ dirs' = IF Variant = "forgets_numbered" /\ n # u[1] THEN dirs ELSE dirs \cup {n}
     /\ order' = Append(order, <<u, n>>)

Next == \E u \in Uris : Register(u)
Spec == Init /\ [][Next]_vars

(* C30 for dumps: repositories that are not the same never share a directory *)
C30_DumpDirsDistinct == \A u, v \in DOMAIN name : u # v => name[u] # name[v]
=============================================================================
