SPECIFICATION GSpec
CONSTANTS
  M = 1073741824
  Keeps = {0, 1, 3, 4}
  Sets = {0, 1, 2}
  MaxRuns = 5
  Bases = {0, 536870910, 1073741821, 1073741822, 536870912}
  Variant = "intended"
CONSTRAINT RunBound
INVARIANT Emit
CHECK_DEADLOCK FALSE
