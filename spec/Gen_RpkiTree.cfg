SPECIFICATION GSpec
CONSTANTS
  Shapes <- AllShapes
  MaxFaults = 1
  Configs <- QuickConfigSet
  Threads = 2
INVARIANT Emit
CHECK_DEADLOCK FALSE
