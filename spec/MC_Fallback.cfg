\* all histories of two runs: 3 policies x copy none/current/expired x update ok/notification fails/snapshot fails/delta fails per run x RRDP on/off x rsync on/off x CA with/without rpkiNotify
SPECIFICATION Spec
CONSTANTS MaxRuns = 2
  Variant = "as_documented"
INVARIANTS CopyOnlyChangedBySuccess C29_FollowsTable C29_RrdpOnlyIfAnnouncedAndEnabled
CHECK_DEADLOCK FALSE
