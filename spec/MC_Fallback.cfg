\* the full product: 3 policies x 4 RRDP outcomes x RRDP on/off x rsync on/off x CA with/without rpkiNotify = 96 rows
SPECIFICATION Spec
CONSTANT Variant = "as_documented"
INVARIANTS C29_FollowsTable C29_RrdpOnlyIfAnnouncedAndEnabled
CHECK_DEADLOCK FALSE
