\* the full product: 3 policies x (copy none/current/expired x update ok/notification fails/snapshot fails/delta fails, 11 pairs) x RRDP on/off x rsync on/off x CA with/without rpkiNotify = 264 rows
SPECIFICATION Spec
CONSTANT Variant = "as_documented"
INVARIANTS C29_FollowsTable C29_RrdpOnlyIfAnnouncedAndEnabled
CHECK_DEADLOCK FALSE
