----------------------------- MODULE Gen_Codec -----------------------------
(* Behaviour export for Codec: one line per case = (record type, value     *)
(* class of every field, the model's encoding, trailing byte count, the    *)
(* corruption) with the expected outcome of the intended decoder: outcome  *)
(* class, bytes consumed and the field at which decoding stopped.          *)
(* Only the environment moves here (Expand, Corrupt); the decoder's run on *)
(* case is folded into Final.                                              *)
EXTENDS Codec, Json

Line ==
  LET fin == Final(Start, Input, case.rec) IN
  [rec |-> case.rec, cls |-> case.cv, enc |-> case.enc, rest |-> case.rest, c |-> case.c,
   exp |-> [outcome |-> fin.outcome, pos |-> fin.pos, fi |-> fin.fi]]

GSpec == Init /\ [][Expand \/ Corrupt]_vars
Emit == case.rest >= 0 => PrintT(<<"REPLAY", ToJson(Line)>>)
=============================================================================
