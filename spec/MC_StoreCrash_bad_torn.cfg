\* seeded fault torn_is_fatal (a header cut short is a hard error): TLC must reject
SPECIFICATION Spec
CONSTANTS Variant = "torn_is_fatal"
INVARIANTS C23_PointOldOrNew
CHECK_DEADLOCK FALSE
