---- MODULE MC_Archive_TTrace_1790088063 ----
EXTENDS Sequences, TLCExt, Toolbox, MC_Archive, Naturals, TLC

_expression ==
    LET MC_Archive_TEExpression == INSTANCE MC_Archive_TEExpression
    IN MC_Archive_TEExpression!expression
----

_trace ==
    LET MC_Archive_TETrace == INSTANCE MC_Archive_TETrace
    IN MC_Archive_TETrace!trace
----

_inv ==
    ~(
        TLCGet("level") = Len(_TETrace)
        /\
        disk = ([fsize |-> 19, err |-> "", hdr |-> (3 :> [meta |-> 0, len |-> 0, tag |-> 0, size |-> 4, next |-> 0, empty |-> TRUE, name |-> "-"] @@ 7 :> [meta |-> 1, len |-> 1, tag |-> 0, size |-> 4, next |-> 3, empty |-> FALSE, name |-> "b"] @@ 11 :> [meta |-> 1, len |-> 5, tag |-> 1, size |-> 8, next |-> 0, empty |-> FALSE, name |-> "a"]), bucket |-> <<11, 0>>, ehead |-> 3, msize |-> 19])
        /\
        amap = ([a |-> [p |-> TRUE, meta |-> 1, len |-> 5, tag |-> 1], b |-> [p |-> TRUE, meta |-> 1, len |-> 1, tag |-> 0], c |-> [p |-> FALSE, meta |-> 0, len |-> 0, tag |-> 0]])
        /\
        nops = (3)
    )
----

_init ==
    /\ nops = _TETrace[1].nops
    /\ disk = _TETrace[1].disk
    /\ amap = _TETrace[1].amap
----

_next ==
    /\ \E i,j \in DOMAIN _TETrace:
        /\ \/ /\ j = i + 1
              /\ i = TLCGet("level")
        /\ nops  = _TETrace[i].nops
        /\ nops' = _TETrace[j].nops
        /\ disk  = _TETrace[i].disk
        /\ disk' = _TETrace[j].disk
        /\ amap  = _TETrace[i].amap
        /\ amap' = _TETrace[j].amap

\* Uncomment the ASSUME below to write the states of the error trace
\* to the given file in Json format. Note that you can pass any tuple
\* to `JsonSerialize`. For example, a sub-sequence of _TETrace.
    \* ASSUME
    \*     LET J == INSTANCE Json
    \*         IN J!JsonSerialize("MC_Archive_TTrace_1790088063.json", _TETrace)

=============================================================================

 Note that you can extract this module `MC_Archive_TEExpression`
  to a dedicated file to reuse `expression` (the module in the 
  dedicated `MC_Archive_TEExpression.tla` file takes precedence 
  over the module `MC_Archive_TEExpression` below).

---- MODULE MC_Archive_TEExpression ----
EXTENDS Sequences, TLCExt, Toolbox, MC_Archive, Naturals, TLC

expression == 
    [
        \* To hide variables of the `MC_Archive` spec from the error trace,
        \* remove the variables below.  The trace will be written in the order
        \* of the fields of this record.
        nops |-> nops
        ,disk |-> disk
        ,amap |-> amap
        
        \* Put additional constant-, state-, and action-level expressions here:
        \* ,_stateNumber |-> _TEPosition
        \* ,_nopsUnchanged |-> nops = nops'
        
        \* Format the `nops` variable as Json value.
        \* ,_nopsJson |->
        \*     LET J == INSTANCE Json
        \*     IN J!ToJson(nops)
        
        \* Lastly, you may build expressions over arbitrary sets of states by
        \* leveraging the _TETrace operator.  For example, this is how to
        \* count the number of times a spec variable changed up to the current
        \* state in the trace.
        \* ,_nopsModCount |->
        \*     LET F[s \in DOMAIN _TETrace] ==
        \*         IF s = 1 THEN 0
        \*         ELSE IF _TETrace[s].nops # _TETrace[s-1].nops
        \*             THEN 1 + F[s-1] ELSE F[s-1]
        \*     IN F[_TEPosition - 1]
    ]

=============================================================================



Parsing and semantic processing can take forever if the trace below is long.
 In this case, it is advised to uncomment the module below to deserialize the
 trace from a generated binary file.

\*
\*---- MODULE MC_Archive_TETrace ----
\*EXTENDS IOUtils, MC_Archive, TLC
\*
\*trace == IODeserialize("MC_Archive_TTrace_1790088063.bin", TRUE)
\*
\*=============================================================================
\*

---- MODULE MC_Archive_TETrace ----
EXTENDS MC_Archive, TLC

trace == 
    <<
    ([disk |-> [fsize |-> 3, err |-> "", hdr |-> <<>>, bucket |-> <<0, 0>>, ehead |-> 0, msize |-> 3],amap |-> [a |-> [p |-> FALSE, meta |-> 0, len |-> 0, tag |-> 0], b |-> [p |-> FALSE, meta |-> 0, len |-> 0, tag |-> 0], c |-> [p |-> FALSE, meta |-> 0, len |-> 0, tag |-> 0]],nops |-> 0]),
    ([disk |-> [fsize |-> 7, err |-> "", hdr |-> (3 :> [meta |-> 1, len |-> 1, tag |-> 0, size |-> 4, next |-> 0, empty |-> FALSE, name |-> "a"]), bucket |-> <<3, 0>>, ehead |-> 0, msize |-> 7],amap |-> [a |-> [p |-> TRUE, meta |-> 1, len |-> 1, tag |-> 0], b |-> [p |-> FALSE, meta |-> 0, len |-> 0, tag |-> 0], c |-> [p |-> FALSE, meta |-> 0, len |-> 0, tag |-> 0]],nops |-> 1]),
    ([disk |-> [fsize |-> 11, err |-> "", hdr |-> (3 :> [meta |-> 1, len |-> 1, tag |-> 0, size |-> 4, next |-> 0, empty |-> FALSE, name |-> "a"] @@ 7 :> [meta |-> 1, len |-> 1, tag |-> 0, size |-> 4, next |-> 3, empty |-> FALSE, name |-> "b"]), bucket |-> <<7, 0>>, ehead |-> 0, msize |-> 11],amap |-> [a |-> [p |-> TRUE, meta |-> 1, len |-> 1, tag |-> 0], b |-> [p |-> TRUE, meta |-> 1, len |-> 1, tag |-> 0], c |-> [p |-> FALSE, meta |-> 0, len |-> 0, tag |-> 0]],nops |-> 2]),
    ([disk |-> [fsize |-> 19, err |-> "", hdr |-> (3 :> [meta |-> 0, len |-> 0, tag |-> 0, size |-> 4, next |-> 0, empty |-> TRUE, name |-> "-"] @@ 7 :> [meta |-> 1, len |-> 1, tag |-> 0, size |-> 4, next |-> 3, empty |-> FALSE, name |-> "b"] @@ 11 :> [meta |-> 1, len |-> 5, tag |-> 1, size |-> 8, next |-> 0, empty |-> FALSE, name |-> "a"]), bucket |-> <<11, 0>>, ehead |-> 3, msize |-> 19],amap |-> [a |-> [p |-> TRUE, meta |-> 1, len |-> 5, tag |-> 1], b |-> [p |-> TRUE, meta |-> 1, len |-> 1, tag |-> 0], c |-> [p |-> FALSE, meta |-> 0, len |-> 0, tag |-> 0]],nops |-> 3])
    >>
----


=============================================================================

---- CONFIG MC_Archive_TTrace_1790088063 ----
CONSTANTS
    Names = { "a" , "b" , "c" }
    NBuckets = 2
    BucketOf <- MCBucketOf
    Lens = { 1 , 5 }
    Metas = { 1 }
    Page = 4
    Header = 2
    NameMeta = 1
    LongNames = { "b" }
    IndexEnd = 3
    MaxOps = 4
    MaxFile = 1000
    Variant = "prev_skips_other_length"

INVARIANT
    _inv

CHECK_DEADLOCK
    \* CHECK_DEADLOCK off because of PROPERTY or INVARIANT above.
    FALSE

INIT
    _init

NEXT
    _next

CONSTANT
    _TETrace <- _trace

ALIAS
    _expression
=============================================================================
\* Generated on Tue Sep 22 14:41:04 UTC 2026