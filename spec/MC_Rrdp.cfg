\* intended design; 2 objects, <= 3 server versions (publish 1-2 object changes / new session / an older notification served again),
\* 3 client runs, <= 2 faults anywhere (notification request, delta list, listed hash, every element of every delta file, snapshot), ETag on/off
SPECIFICATION Spec
CONSTANTS
  Objs = {1, 2}
  MaxVer = 3
  MaxRuns = 3
  MaxFaults = 2
  EtagModes = {TRUE, FALSE}
  WithExpiry = FALSE
  Variant = "intended"
INVARIANTS TypeOK VersionsDistinct C25_UpdatedIsSnapshotAtSerial C25_UpdatedIsAnnounced C25_FailureNotUsed C25_NoCopyUnavailable
CHECK_DEADLOCK FALSE
