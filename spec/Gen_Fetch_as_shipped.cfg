\* counterexample schedules of the as-shipped rsync order (F15): 2 threads, one key; only the behaviours that violate C37 in the model
SPECIFICATION GSpec
CONSTANTS
  Threads = {"T1", "T2"}
  Keys = {"k1"}
  MaxCalls = 1
  Order = "remove_then_insert"
  Check2Removes = FALSE
  OnlyBad = TRUE
  HostVariant = "intended"
INVARIANT Emit
CHECK_DEADLOCK FALSE
