---------------------------- MODULE CodecArchive ----------------------------
(***************************************************************************)
(* C27, archive files -- the index structure of src/utils/archive.rs as    *)
(* the readers see it: `Archive::open` (l. 121), `find` (l. 496, used by   *)
(* fetch / RrdpArchive::load_object / load_state / publish), `verify` (l. 145) and   *)
(* `ObjectsIter` (l. 813, RrdpArchive::objects).                           *)
(*                                                                         *)
(* File: magic(6) hash_key(16) bucket_count(8) | index: bucket_count + 1   *)
(* slots of 8 bytes (the last one heads the chain of empty objects) |      *)
(* objects: size(8) next(8) is_empty(1) name_len(8) data_len(8) name meta  *)
(* data padding.  A name is looked up in slot  siphash(name) % bucket_count*)
(* and then along the `next` pointers.                                     *)
(*                                                                         *)
(* The pristine archive of the model: 2 buckets; bucket 0: A; bucket 1:    *)
(* C -> B; empty chain: E; file order B A E C.  The environment damages    *)
(* ONE header / index / object-header field; then one reader operation     *)
(* runs.  Pointers are abstract: an object, nil, "mid" (into the middle of *)
(* an object: whatever is read there is garbage), "eof" (= file size) and  *)
(* "past" (> file size).                                                   *)
(*                                                                         *)
(* Variant "as_shipped": `% bucket_count` with 0 panics (l. 951); no       *)
(* reader remembers where it has been, so a pointer cycle never ends.      *)
(* Variant "intended": bucket_count = 0 is refused by open; every walk     *)
(* refuses a position it has seen before.                                  *)
(***************************************************************************)
EXTENDS Integers, Sequences, FiniteSets, TLC

CONSTANT Variant

NB == 2
Objs == {"A", "B", "C", "E"}
Ptrs == Objs \cup {"nil", "mid", "eof", "past"}
Names == {"A", "B", "C", "X"}                    \* X is not in the archive
RawHash == [A |-> 4, B |-> 3, C |-> 5, X |-> 7, E |-> 6]     \* siphash of the name (E: the empty name)
FileOrder == <<"B", "A", "E", "C">>

Pristine == [magic |-> "ok", trunc |-> "no", bc |-> 2,
             slot |-> <<"A", "C", "E">>,                      \* slot[k + 1] = head of bucket k, slot[bc + 1] = empties
             next |-> [A |-> "nil", B |-> "nil", C |-> "B", E |-> "nil"],
             flag |-> [o \in Objs |-> "ok"],                  \* the is_empty byte is 0 or 1
             nlen |-> [o \in Objs |-> "ok"],                  \* name_len
             dlen |-> [o \in Objs |-> "ok"]]                  \* data_len

Cor(f, t, to) == [f |-> f, t |-> t, to |-> to]              \* all strings (TLC compares them)
Num == [x \in {"0", "1", "2", "3", "1000"} |-> CASE x = "0" -> 0 [] x = "1" -> 1 [] x = "2" -> 2 [] x = "3" -> 3 [] x = "1000" -> 1000]
Corruptions ==
  {Cor("magic", "", m) : m \in {"bad_magic", "bad_version", "bad_system"}}
  \cup {Cor("trunc", "", x) : x \in {"magic", "meta", "index", "data"}}
  \cup {Cor("bc", "", n) : n \in {"0", "1", "3", "1000"}}     \* 1000 stands for a count far beyond the file size
  \cup {Cor("slot", k, p) : k \in {"0", "1", "2"}, p \in Ptrs}
  \cup {Cor("next", o, p) : o \in Objs, p \in Ptrs}
  \cup {Cor("flag", o, "bad") : o \in Objs}
  \cup {Cor("nlen", o, x) : o \in Objs, x \in {"short", "long", "huge"}}
  \cup {Cor("dlen", o, x) : o \in Objs, x \in {"long", "huge"}}

ApplyCor(c) ==
  CASE c.f = "none"  -> Pristine
    [] c.f = "magic" -> [Pristine EXCEPT !.magic = c.to]
    [] c.f = "trunc" -> [Pristine EXCEPT !.trunc = c.to]
    [] c.f = "bc"    -> [Pristine EXCEPT !.bc = Num[c.to]]
    [] c.f = "slot"  -> [Pristine EXCEPT !.slot[Num[c.t] + 1] = c.to]
    [] c.f = "next"  -> [Pristine EXCEPT !.next[c.t] = c.to]
    [] c.f = "flag"  -> [Pristine EXCEPT !.flag[c.t] = c.to]
    [] c.f = "nlen"  -> [Pristine EXCEPT !.nlen[c.t] = c.to]
    [] c.f = "dlen"  -> [Pristine EXCEPT !.dlen[c.t] = c.to]

Ops == {[k |-> "find", n |-> n] : n \in Names}
       \cup {[k |-> "publish", n |-> "X"], [k |-> "verify", n |-> ""], [k |-> "objects", n |-> ""]}

-----------------------------------------------------------------------------
(* reading *)

(* the pointer in index slot k (0-based); slots behind the real index hold object bytes *)
SlotPtr(a, k) == IF k >= 1000 THEN "past"
                 ELSE IF a.trunc = "index" /\ k >= 1 THEN "past"
                 ELSE IF k <= NB THEN a.slot[k + 1] ELSE "mid"

(* what reading an object header (and name) at pointer p gives: "hdr" or an error class *)
HeaderAt(a, p) ==
  CASE p \in {"eof", "past"} -> "ioerr"                       \* StorageRead::new / mmap.read: unexpected EOF
    [] p = "mid" -> "err"                                     \* garbage: EOF, bad bool, or a wrong object
    [] p \in Objs -> IF a.trunc = "index" THEN "ioerr"        \* the object area is gone
                     ELSE IF a.flag[p] = "bad" THEN "corrupt" \* read_bool, l. 1493
                     ELSE IF a.nlen[p] = "huge" THEN "ioerr"
                     ELSE "hdr"

NameMatches(a, o, n) == o = n /\ a.nlen[o] = "ok"
HashOf(a, o) == IF a.nlen[o] = "ok" THEN RawHash[o] ELSE 9     \* another name, another hash
DataAt(a, o) == IF a.dlen[o] = "huge" THEN "ioerr"
                ELSE IF a.trunc = "data" /\ o = "C" THEN "ioerr"      \* C is the last object of the file
                ELSE "ok"

Start(op) == [pc |-> "open", b |-> 0, cur |-> "nil", seen |-> {}, got |-> <<>>, outcome |-> "run", steps |-> 0]

End(s, o) == [s EXCEPT !.outcome = o]

(* a walk arrives at pointer p: a position seen before never ends (as shipped) / is refused (intended) *)
Revisit(s) == IF Variant = "as_shipped" THEN End(s, "hang") ELSE End(s, "corrupt")

(* Archive::open, l. 121-138 *)
Open(s, a, op) ==
  IF a.trunc \in {"magic", "meta"} THEN End(s, "ioerr")
  ELSE IF a.magic # "ok" THEN End(s, "corrupt")
  ELSE IF a.bc = 0 /\ Variant = "intended" THEN End(s, "corrupt")
  ELSE IF op.k \in {"find", "publish"}
    THEN IF a.bc = 0 THEN End(s, "panic")                                     \* l. 951: % 0
         ELSE LET k == RawHash[op.n] % a.bc IN [s EXCEPT !.pc = "walk", !.b = k, !.cur = SlotPtr(a, k)]
  ELSE [s EXCEPT !.pc = "walk", !.b = 0, !.cur = IF a.bc = 0 /\ op.k = "verify" THEN "nil" ELSE SlotPtr(a, 0)]

(* find, l. 496-516, followed by the fetch of the data, l. 230.  The replay runs every find twice: on a fresh handle,   *)
(* and on a handle through which an object has just been appended (Storage::write re-maps the file; the reader must   *)
(* see the same bytes and apply the same bounds either way) *)
FindStep(s, a, op) ==
  IF s.cur = "nil" THEN End(s, "ok")                                          \* not found
  ELSE IF s.cur \in s.seen THEN Revisit(s)
  ELSE LET h == HeaderAt(a, s.cur) IN
       IF h # "hdr" THEN End(s, h)
       ELSE IF NameMatches(a, s.cur, op.n) THEN End(s, DataAt(a, s.cur))
       ELSE [s EXCEPT !.seen = s.seen \cup {s.cur}, !.cur = a.next[s.cur]]

(* publish, l. 290-314: find (the name must be new), then find_empty (l. 522) walks the whole chain of empty objects *)
PublishStep(s, a, op) ==
  IF s.pc = "walk" THEN
    IF s.cur = "nil" THEN [s EXCEPT !.pc = "empty", !.cur = SlotPtr(a, a.bc), !.seen = {}]
    ELSE FindStep(s, a, op)
  ELSE
    IF s.cur = "nil" THEN End(s, "ok")
    ELSE IF s.cur \in s.seen THEN Revisit(s)
    ELSE LET h == HeaderAt(a, s.cur) IN
         IF h # "hdr" THEN End(s, h)
         ELSE [s EXCEPT !.seen = s.seen \cup {s.cur}, !.cur = a.next[s.cur]]

(* verify, l. 145-202: every bucket chain with the hash check, then the empty chain, then the tiling check *)
Tiles(got) ==                       \* l. 193-199: sorted by position, each must start where the previous ends
  /\ \A i, j \in 1..Len(got) : i # j => got[i] # got[j]
  /\ LET idx == {i \in 1..4 : \E j \in 1..Len(got) : got[j] = FileOrder[i]}
     IN \A i, j \in idx : \A m \in i..j : m \in idx

VerifyStep(s, a) ==
  IF s.pc = "walk" THEN
    IF s.b >= a.bc THEN [s EXCEPT !.pc = "empty", !.cur = SlotPtr(a, a.bc), !.seen = {}]
    ELSE IF s.cur = "nil" THEN [s EXCEPT !.b = s.b + 1, !.cur = SlotPtr(a, s.b + 1), !.seen = {}]
    ELSE IF s.cur \in s.seen THEN Revisit(s)
    ELSE LET h == HeaderAt(a, s.cur) IN
         IF h # "hdr" THEN End(s, h)
         ELSE IF HashOf(a, s.cur) % a.bc # s.b THEN End(s, "corrupt")         \* "incorrect hash"
         ELSE [s EXCEPT !.seen = s.seen \cup {s.cur}, !.got = Append(s.got, s.cur), !.cur = a.next[s.cur]]
  ELSE \* the empty chain: no check at all
    IF s.cur = "nil" THEN End(s, IF Tiles(s.got) THEN "ok" ELSE "corrupt")
    ELSE IF s.cur \in s.seen THEN Revisit(s)
    ELSE LET h == HeaderAt(a, s.cur) IN
         IF h \notin {"hdr"} THEN End(s, h)
         ELSE [s EXCEPT !.seen = s.seen \cup {s.cur}, !.got = Append(s.got, s.cur), !.cur = a.next[s.cur]]

(* ObjectsIter, l. 813-851: bucket 0, then 1 .. bucket_count - 1; the consumer stops at the first error *)
ObjectsStep(s, a) ==
  IF s.cur = "nil" THEN
    IF s.b + 1 >= a.bc THEN End(s, "ok")
    ELSE [s EXCEPT !.b = s.b + 1, !.cur = SlotPtr(a, s.b + 1), !.seen = {}]
  ELSE IF s.cur \in s.seen THEN Revisit(s)
  ELSE LET h == HeaderAt(a, s.cur) IN
       IF h # "hdr" THEN End(s, h)
       ELSE IF DataAt(a, s.cur) # "ok" THEN End(s, DataAt(a, s.cur))
       ELSE [s EXCEPT !.seen = s.seen \cup {s.cur}, !.cur = a.next[s.cur]]

Step(s, a, op) ==
  LET s1 == [s EXCEPT !.steps = s.steps + 1] IN
  IF s.pc = "open" THEN Open(s1, a, op)
  ELSE CASE op.k = "find" -> FindStep(s1, a, op)
         [] op.k = "publish" -> PublishStep(s1, a, op)
         [] op.k = "verify" -> VerifyStep(s1, a)
         [] op.k = "objects" -> ObjectsStep(s1, a)

RECURSIVE Final(_, _, _)
Final(s, a, op) == IF s.outcome # "run" THEN s ELSE Final(Step(s, a, op), a, op)

-----------------------------------------------------------------------------
VARIABLES cor, op, st
vars == <<cor, op, st>>

Init == cor = Cor("none", "", "") /\ op \in Ops /\ st = Start(op)
Corrupt == /\ st.steps = 0 /\ cor.f = "none"
           /\ cor' \in Corruptions
           /\ UNCHANGED <<op, st>>
Read == /\ st.outcome = "run"
        /\ st' = Step(st, ApplyCor(cor), op)
        /\ UNCHANGED <<cor, op>>
Done == st.outcome # "run" /\ UNCHANGED vars
Spec == Init /\ [][Corrupt \/ Read \/ Done]_vars

(* C27: every reader operation on a damaged archive ends with a result or a reported error *)
C27_ArchiveOutcome == st.outcome \in {"run", "ok", "corrupt", "ioerr", "err"}
(* ... within a number of steps bounded by the size of the file (here: slots + objects) *)
C27_ArchiveTerminates == st.steps <= 1004 + 2 * Cardinality(Objs)
(* the undamaged archive is read completely *)
PristineReads == (cor.f = "none" /\ st.outcome # "run") => st.outcome = "ok"
=============================================================================
