----------------------------- MODULE MC_Codec -----------------------------
(* Bounded instances of Codec for exhaustive TLC runs (see the cfg files). *)
EXTENDS Codec
=============================================================================
