--------------------------- MODULE MC_StoreCrash ---------------------------
EXTENDS StoreCrash, Json
Emit == ~alive => PrintT(<<"REPLAY", ToJson([scenario |-> scenario, point |-> point, tmp |-> tmp, status |-> status, ta |-> ta, pc |-> pc])>>)
=============================================================================
