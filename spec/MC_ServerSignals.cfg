\* refresh 3 ticks, runs of 2 ticks, 3 signals of either kind at any time, 12 ticks
SPECIFICATION Spec
CONSTANTS
  Refresh = 3
  RunTicks = 2
  MaxSignals = 3
  MaxTime = 12
  Variant = "code"
INVARIANTS DeadlineKept ReloadNotLost
CHECK_DEADLOCK FALSE
