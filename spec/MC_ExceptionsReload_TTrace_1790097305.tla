---- MODULE MC_ExceptionsReload_TTrace_1790097305 ----
EXTENDS Sequences, TLCExt, Toolbox, Naturals, TLC, MC_ExceptionsReload

_expression ==
    LET MC_ExceptionsReload_TEExpression == INSTANCE MC_ExceptionsReload_TEExpression
    IN MC_ExceptionsReload_TEExpression!expression
----

_trace ==
    LET MC_ExceptionsReload_TETrace == INSTANCE MC_ExceptionsReload_TETrace
    IN MC_ExceptionsReload_TETrace!trace
----

_inv ==
    ~(
        TLCGet("level") = Len(_TETrace)
        /\
        loaded = ("v2")
        /\
        hist = (<<[file |-> "v1", served |-> "v2"]>>)
        /\
        file = ("v1")
        /\
        edits = (1)
        /\
        served = ("v2")
        /\
        state = ("running")
        /\
        first = ("v2")
    )
----

_init ==
    /\ state = _TETrace[1].state
    /\ edits = _TETrace[1].edits
    /\ first = _TETrace[1].first
    /\ loaded = _TETrace[1].loaded
    /\ file = _TETrace[1].file
    /\ served = _TETrace[1].served
    /\ hist = _TETrace[1].hist
----

_next ==
    /\ \E i,j \in DOMAIN _TETrace:
        /\ \/ /\ j = i + 1
              /\ i = TLCGet("level")
        /\ state  = _TETrace[i].state
        /\ state' = _TETrace[j].state
        /\ edits  = _TETrace[i].edits
        /\ edits' = _TETrace[j].edits
        /\ first  = _TETrace[i].first
        /\ first' = _TETrace[j].first
        /\ loaded  = _TETrace[i].loaded
        /\ loaded' = _TETrace[j].loaded
        /\ file  = _TETrace[i].file
        /\ file' = _TETrace[j].file
        /\ served  = _TETrace[i].served
        /\ served' = _TETrace[j].served
        /\ hist  = _TETrace[i].hist
        /\ hist' = _TETrace[j].hist

\* Uncomment the ASSUME below to write the states of the error trace
\* to the given file in Json format. Note that you can pass any tuple
\* to `JsonSerialize`. For example, a sub-sequence of _TETrace.
    \* ASSUME
    \*     LET J == INSTANCE Json
    \*         IN J!JsonSerialize("MC_ExceptionsReload_TTrace_1790097305.json", _TETrace)

=============================================================================

 Note that you can extract this module `MC_ExceptionsReload_TEExpression`
  to a dedicated file to reuse `expression` (the module in the 
  dedicated `MC_ExceptionsReload_TEExpression.tla` file takes precedence 
  over the module `MC_ExceptionsReload_TEExpression` below).

---- MODULE MC_ExceptionsReload_TEExpression ----
EXTENDS Sequences, TLCExt, Toolbox, Naturals, TLC, MC_ExceptionsReload

expression == 
    [
        \* To hide variables of the `MC_ExceptionsReload` spec from the error trace,
        \* remove the variables below.  The trace will be written in the order
        \* of the fields of this record.
        state |-> state
        ,edits |-> edits
        ,first |-> first
        ,loaded |-> loaded
        ,file |-> file
        ,served |-> served
        ,hist |-> hist
        
        \* Put additional constant-, state-, and action-level expressions here:
        \* ,_stateNumber |-> _TEPosition
        \* ,_stateUnchanged |-> state = state'
        
        \* Format the `state` variable as Json value.
        \* ,_stateJson |->
        \*     LET J == INSTANCE Json
        \*     IN J!ToJson(state)
        
        \* Lastly, you may build expressions over arbitrary sets of states by
        \* leveraging the _TETrace operator.  For example, this is how to
        \* count the number of times a spec variable changed up to the current
        \* state in the trace.
        \* ,_stateModCount |->
        \*     LET F[s \in DOMAIN _TETrace] ==
        \*         IF s = 1 THEN 0
        \*         ELSE IF _TETrace[s].state # _TETrace[s-1].state
        \*             THEN 1 + F[s-1] ELSE F[s-1]
        \*     IN F[_TEPosition - 1]
    ]

=============================================================================



Parsing and semantic processing can take forever if the trace below is long.
 In this case, it is advised to uncomment the module below to deserialize the
 trace from a generated binary file.

\*
\*---- MODULE MC_ExceptionsReload_TETrace ----
\*EXTENDS IOUtils, TLC, MC_ExceptionsReload
\*
\*trace == IODeserialize("MC_ExceptionsReload_TTrace_1790097305.bin", TRUE)
\*
\*=============================================================================
\*

---- MODULE MC_ExceptionsReload_TETrace ----
EXTENDS TLC, MC_ExceptionsReload

trace == 
    <<
    ([loaded |-> "none",hist |-> <<>>,file |-> "v2",edits |-> 0,served |-> "nothing served",state |-> "starting",first |-> "v2"]),
    ([loaded |-> "v2",hist |-> <<>>,file |-> "v2",edits |-> 0,served |-> "v2",state |-> "running",first |-> "v2"]),
    ([loaded |-> "v2",hist |-> <<[file |-> "v1", served |-> "v2"]>>,file |-> "v1",edits |-> 1,served |-> "v2",state |-> "running",first |-> "v2"])
    >>
----


=============================================================================

---- CONFIG MC_ExceptionsReload_TTrace_1790097305 ----
CONSTANTS
    MaxEdits = 2
    Variant = "no_reload"

INVARIANT
    _inv

CHECK_DEADLOCK
    \* CHECK_DEADLOCK off because of PROPERTY or INVARIANT above.
    FALSE

INIT
    _init

NEXT
    _next

CONSTANT
    _TETrace <- _trace

ALIAS
    _expression
=============================================================================
\* Generated on Tue Sep 22 17:15:10 UTC 2026