SPECIFICATION GSpec
CONSTANTS
  DataSets = {1, 2}
  MaxUpdates = 3
  MaxReq = 3
  MaxRtr = 2
  Variant = "intended"
  SubSecond = TRUE
INVARIANT Emit
CHECK_DEADLOCK FALSE
