\* thorough: 7 runs, history sizes 0..4
SPECIFICATION Spec
CONSTANTS
  M = 16
  Keeps = {0, 1, 2, 3, 4}
  Sets = {0, 1, 2}
  MaxRuns = 7
  Bases = {0,1,2,3,4,5,6,7,8,9,10,11,12,13,14,15}
  Variant = "intended"
CONSTRAINT RunBound
INVARIANTS C13 C14_Bounded C14_Consecutive C14_SerialCarried C14_FirstIsZero
PROPERTIES C14_Step C33_FailedRunChangesNothing
CHECK_DEADLOCK FALSE
