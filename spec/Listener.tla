------------------------------ MODULE Listener ------------------------------
(***************************************************************************)
(* The RTR listener: src/rtr.rs (RtrListener::poll_next, RtrStream::new /  *)
(* drop) and the per-client-address metrics registry of src/metrics.rs     *)
(* (RtrServerMetrics::get_client, RtrPerAddrMetrics::get, RtrMetricsData   *)
(* inc/dec_current_connections).                                           *)
(*                                                                         *)
(* Part A (C19) - the accept loop as a poll-based stream.  The listener    *)
(* task (rpki::rtr::server::Server::run: `while let Some(sock) =           *)
(* listener.next().await`) is either scheduled ("polling") or has returned *)
(* Poll::Pending ("parked").  A parked task runs again only if something   *)
(* holds its waker: the I/O driver (tokio stores the waker in              *)
(* TcpListener::poll_accept only when accept() said WouldBlock) or a timer *)
(* (tokio::time::Sleep registers the waker when it is *polled*, not when   *)
(* it is created).  Returning Pending without either is the lost wake-up.  *)
(*   Variant "as_shipped" (rtr.rs:163-183): a failed RtrStream::new gives  *)
(*   `Err(_) => Poll::Pending`, an accept error creates the back-off sleep *)
(*   and returns Pending without polling it.                               *)
(*   Variant "intended": both cases go round the loop again (next          *)
(*   poll_accept resp. poll the sleep).                                    *)
(*   Variant "bounded_drain" (seeded fault): the loop gives up after       *)
(*   DrainBound failed set-ups in one poll and returns Pending.            *)
(*                                                                         *)
(* Part B (C36) - the address registry: a sorted vector behind an ArcSwap  *)
(* plus a write mutex.  One process per connection: get(addr) = load ->    *)
(* [hit: return] | lock -> reload -> [hit: return] | build new vector with *)
(* the entry at its sorted position -> store; then inc_current_connections *)
(* (RtrStream::new), later dec_current_connections (RtrStream::drop).      *)
(*   RegVariant "as_coded" is the pinned code.  The other values are       *)
(*   design mutants used to show that the invariants have teeth and to     *)
(*   export adversarial schedules: "no_lock" (the mutex is not taken),     *)
(*   "no_reload" (the first snapshot is used for the insert), "unsorted"   *)
(*   (the new entry is appended).                                          *)
(*                                                                         *)
(* The two parts do not share state; each has its own specification        *)
(* (SpecA / SpecB) that keeps the other part's variables fixed.            *)
(***************************************************************************)
EXTENDS Naturals, Sequences, FiniteSets, TLC

CONSTANTS MaxConn,       \* A: connections per behaviour: 1 .. MaxConn
          MaxAcceptErr,  \* A: accept() errors (EMFILE-like: the connection stays queued) the environment may inject
          Variant,       \* A: "intended" | "as_shipped"
          Threads,       \* B: connection processes, e.g. {1, 2, 3}
          Addrs,         \* B: client addresses (naturals, ordered), e.g. {1, 2}
          PreLists,      \* B: set of address sets already registered before the processes start, e.g. {{}, {0}, {3}}
          RegVariant     \* B: "as_coded" | "no_lock" | "no_reload" | "unsorted"

-----------------------------------------------------------------------------
(* Part A *)

VARIABLES n,          \* number of connections of this behaviour
          setup,      \* setup[c]: does RtrStream::new succeed for the c-th accepted connection
          arrived,    \* connections that completed the TCP handshake so far
          backlog,    \* kernel accept queue
          task,       \* "polling" | "parked"
          waker,      \* the I/O driver holds the task's waker for the listening socket
          timer,      \* back-off sleep: "none" | "created" (never polled) | "armed" (polled, waker held) | "fired"
          errs,       \* accept errors injected so far
          outcome,    \* outcome[c]: "none" | "served" (stream yielded to the server) | "dropped" (socket closed)
          drained     \* failed set-ups handled in the current poll (for the seeded fault "bounded_drain")

varsA == <<n, setup, arrived, backlog, task, waker, timer, errs, outcome, drained>>

(* Seeded fault "bounded_drain": at most DrainBound failed set-ups are      *)
(* handled per poll, then Poll::Pending is returned with no waker stored.  *)
DrainBound == 2

InitA ==
  /\ n \in 1..MaxConn
  /\ setup \in [1..n -> BOOLEAN]
  /\ arrived = 0 /\ backlog = <<>>
  /\ task = "polling" /\ waker = FALSE /\ timer = "none" /\ errs = 0
  /\ outcome = [c \in 1..n |-> "none"]
  /\ drained = 0

(* A client completes the handshake.  The kernel marks the listening socket *)
(* readable; the I/O driver wakes the task iff it holds its waker (and     *)
(* gives the waker back).                                                  *)
Arrive ==
  /\ arrived < n
  /\ arrived' = arrived + 1
  /\ backlog' = Append(backlog, arrived + 1)
  /\ IF waker /\ task = "parked"
       THEN task' = "polling" /\ waker' = FALSE /\ drained' = 0
       ELSE UNCHANGED <<task, waker, drained>>
  /\ UNCHANGED <<n, setup, timer, errs, outcome>>

(* rtr.rs:155-160: a back-off sleep exists and is polled first. *)
PollBackoff ==
  /\ task = "polling" /\ timer # "none"
  /\ IF timer = "fired"
       THEN timer' = "none" /\ UNCHANGED task                  \* *this.backoff = None; fall through to the accept
       ELSE timer' = "armed" /\ task' = "parked"               \* Sleep::poll registered the waker: Pending is legal
  /\ UNCHANGED <<n, setup, arrived, backlog, waker, errs, outcome, drained>>

(* rtr.rs:182: poll_accept -> Pending.  accept() said WouldBlock, tokio     *)
(* cleared the readiness and stored the waker.                             *)
PollEmpty ==
  /\ task = "polling" /\ timer = "none" /\ backlog = <<>>
  /\ waker' = TRUE /\ task' = "parked"
  /\ UNCHANGED <<n, setup, arrived, backlog, timer, errs, outcome, drained>>

(* rtr.rs:162-169: accepted, RtrStream::new succeeded: Ready(Some(Ok)).    *)
(* Server::run spawns the connection and polls the stream again.           *)
PollAcceptOk ==
  /\ task = "polling" /\ timer = "none" /\ backlog # <<>> /\ setup[Head(backlog)]
  /\ outcome' = [outcome EXCEPT ![Head(backlog)] = "served"]
  /\ backlog' = Tail(backlog)
  /\ drained' = 0                                              \* Ready: Server::run polls the stream afresh
  /\ UNCHANGED <<n, setup, arrived, task, waker, timer, errs>>

(* rtr.rs:170: accepted, RtrStream::new failed (keepalive options rejected *)
(* by the kernel, hook H6).  The socket is dropped, i.e. closed.  No waker *)
(* was stored by this poll_accept: the socket was readable.                *)
PollAcceptFail ==
  /\ task = "polling" /\ timer = "none" /\ backlog # <<>> /\ ~setup[Head(backlog)]
  /\ outcome' = [outcome EXCEPT ![Head(backlog)] = "dropped"]
  /\ backlog' = Tail(backlog)
  /\ drained' = drained + 1
  /\ IF Variant = "as_shipped" \/ (Variant = "bounded_drain" /\ drained + 1 >= DrainBound)
       THEN task' = "parked"                                   \* Err(_) => Poll::Pending
       ELSE UNCHANGED task                                     \* continue with the next poll_accept
  /\ UNCHANGED <<n, setup, arrived, waker, timer, errs>>

(* rtr.rs:172-180: accept() failed (e.g. EMFILE; the connection stays in   *)
(* the queue).  A 100 ms sleep is created.                                 *)
AcceptError ==
  /\ task = "polling" /\ timer = "none" /\ backlog # <<>> /\ errs < MaxAcceptErr
  /\ errs' = errs + 1
  /\ timer' = "created"
  /\ IF Variant = "as_shipped"
       THEN task' = "parked"                                   \* Poll::Pending with the sleep never polled
       ELSE UNCHANGED task                                     \* loop: PollBackoff polls the sleep
  /\ UNCHANGED <<n, setup, arrived, backlog, waker, outcome, drained>>

(* The timer driver fires an armed sleep and wakes the task.  A sleep that  *)
(* was never polled holds no waker: nothing happens when its time is up.   *)
TimerFire ==
  /\ timer = "armed"
  /\ timer' = "fired" /\ task' = "polling" /\ drained' = 0
  /\ UNCHANGED <<n, setup, arrived, backlog, waker, errs, outcome>>

TaskStep == PollBackoff \/ PollEmpty \/ PollAcceptOk \/ PollAcceptFail \/ AcceptError
NextA == Arrive \/ TaskStep \/ TimerFire

(* C19, safety: the task never sleeps on a non-empty accept queue with     *)
(* nothing registered that could wake it.                                  *)
C19_NeverStuck == ~(task = "parked" /\ ~waker /\ timer # "armed" /\ backlog # <<>>)
(* The waker discipline itself: Pending only with a wake-up source.        *)
C19_WakeSourceWhenParked == task = "parked" => (waker \/ timer = "armed")
(* Connections are taken in order and each ends up served or closed        *)
(* according to its own setup result only.                                 *)
C19_OutcomeMatchesSetup ==
  \A c \in 1..n : /\ outcome[c] = "served" => setup[c]
                  /\ outcome[c] = "dropped" => ~setup[c]
                  /\ outcome[c] # "none" => c <= arrived
TypeA ==
  /\ task \in {"polling", "parked"} /\ waker \in BOOLEAN
  /\ timer \in {"none", "created", "armed", "fired"}
  /\ arrived \in 0..n /\ errs \in 0..MaxAcceptErr

(* C19, liveness: every connection that arrives is eventually accepted     *)
(* (served or closed), whatever happened to the earlier ones; healthy ones *)
(* are served.                                                             *)
DoneConn(c) == c > n \/ outcome[c] # "none"
ServedConn(c) == c > n \/ ~setup[c] \/ outcome[c] = "served"
C19_EveryoneAccepted == \A c \in 1..MaxConn : <>DoneConn(c)
C19_HealthyServed == \A c \in 1..MaxConn : <>ServedConn(c)

-----------------------------------------------------------------------------
(* Part B *)

VARIABLES addr,       \* addr[t]: the source address of connection process t
          list,       \* the ArcSwap'd vector: sequence of [a |-> address, m |-> metrics object id]
          owner,      \* holder of the write mutex (0: free)
          pc,         \* pc[t]: "start" | "loaded" | "locked" | "insert" | "got" | "open" | "closed"
          snap,       \* snap[t]: the vector thread t works from
          ret,        \* ret[t]: the metrics object id get() returned to t (0: none yet)
          nextId,     \* next fresh metrics object id
          cnt,        \* cnt[id]: current_connections of that metrics object
          global      \* current_connections of the global metrics

varsB == <<addr, list, owner, pc, snap, ret, nextId, cnt, global>>

MaxIds == Cardinality(Threads) + 4

SeqOfSet(S) ==         \* ascending sequence of a finite set of naturals
  LET RECURSIVE F(_)
      F(R) == IF R = {} THEN <<>>
              ELSE LET m == CHOOSE x \in R : \A y \in R : x <= y IN <<m>> \o F(R \ {m})
  IN F(S)

InitB ==
  /\ addr \in [Threads -> Addrs]
  /\ \E P \in PreLists :
       LET s == SeqOfSet(P) IN
       /\ list = [i \in 1..Len(s) |-> [a |-> s[i], m |-> i]]
       /\ nextId = Len(s) + 1
  /\ owner = 0
  /\ pc = [t \in Threads |-> "start"]
  /\ snap = [t \in Threads |-> <<>>]
  /\ ret = [t \in Threads |-> 0]
  /\ cnt = [i \in 1..MaxIds |-> 0]
  /\ global = 0

Find(l, a) == IF \E i \in 1..Len(l) : l[i].a = a
                THEN (CHOOSE i \in 1..Len(l) : l[i].a = a) ELSE 0
(* binary_search's Err(idx): number of entries with a smaller address *)
InsPos(l, a) == Cardinality({i \in 1..Len(l) : l[i].a < a})
InsertAt(l, k, e) == SubSeq(l, 1, k) \o <<e>> \o SubSeq(l, k + 1, Len(l))

(* metrics.rs:674-677: addrs.load() and binary search. *)
Load(t) ==
  /\ pc[t] = "start"
  /\ snap' = [snap EXCEPT ![t] = list]
  /\ IF Find(list, addr[t]) # 0
       THEN /\ ret' = [ret EXCEPT ![t] = list[Find(list, addr[t])].m]
            /\ pc' = [pc EXCEPT ![t] = "got"]
       ELSE /\ pc' = [pc EXCEPT ![t] = "loaded"]                \* preemption point metrics-after-load
            /\ UNCHANGED ret
  /\ UNCHANGED <<addr, list, owner, nextId, cnt, global>>

(* metrics.rs:683: self.write.lock(). *)
Lock(t) ==
  /\ pc[t] = "loaded"
  /\ IF RegVariant = "no_lock" THEN UNCHANGED owner
     ELSE owner = 0 /\ owner' = t
  /\ pc' = [pc EXCEPT ![t] = "locked"]                          \* preemption point metrics-after-lock
  /\ UNCHANGED <<addr, list, snap, ret, nextId, cnt, global>>

Unlock(t) == IF owner = t THEN owner' = 0 ELSE UNCHANGED owner

(* metrics.rs:688-692: re-load and search again. *)
Reload(t) ==
  /\ pc[t] = "locked"
  /\ LET l == IF RegVariant = "no_reload" THEN snap[t] ELSE list IN
     /\ snap' = [snap EXCEPT ![t] = l]
     /\ IF Find(l, addr[t]) # 0
          THEN /\ ret' = [ret EXCEPT ![t] = l[Find(l, addr[t])].m]
               /\ pc' = [pc EXCEPT ![t] = "got"]
               /\ Unlock(t)
          ELSE /\ pc' = [pc EXCEPT ![t] = "insert"]             \* preemption point metrics-before-store
               /\ UNCHANGED <<ret, owner>>
  /\ UNCHANGED <<addr, list, nextId, cnt, global>>

(* metrics.rs:696-703: new vector with the entry at the search position,   *)
(* store, unlock (guard dropped on return).                                *)
Store(t) ==
  /\ pc[t] = "insert"
  /\ LET e == [a |-> addr[t], m |-> nextId]
         k == IF RegVariant = "unsorted" THEN Len(snap[t]) ELSE InsPos(snap[t], addr[t])
     IN list' = InsertAt(snap[t], k, e)
  /\ ret' = [ret EXCEPT ![t] = nextId]
  /\ nextId' = nextId + 1
  /\ pc' = [pc EXCEPT ![t] = "got"]
  /\ Unlock(t)
  /\ UNCHANGED <<addr, snap, cnt, global>>

(* rtr.rs:213: metrics.update(inc_current_connections): global and client. *)
Inc(t) ==
  /\ pc[t] = "got"
  /\ cnt' = [cnt EXCEPT ![ret[t]] = @ + 1]
  /\ global' = global + 1
  /\ pc' = [pc EXCEPT ![t] = "open"]
  /\ UNCHANGED <<addr, list, owner, snap, ret, nextId>>

(* rtr.rs:327: Drop for RtrStream. *)
Dec(t) ==
  /\ pc[t] = "open"
  /\ cnt' = [cnt EXCEPT ![ret[t]] = @ - 1]
  /\ global' = global - 1
  /\ pc' = [pc EXCEPT ![t] = "closed"]
  /\ UNCHANGED <<addr, list, owner, snap, ret, nextId>>

(* Seeded fault "dec_load_store": the decrement is a load followed by a store instead of one atomic                *)
(* read-modify-write (metrics.rs:799 is fetch_sub).  The loaded values are kept in snap[t], which has no other use   *)
(* once get() has returned: <<[a |-> per-address count, m |-> global count]>>.                                       *)
Monus(x) == IF x = 0 THEN 0 ELSE x - 1
DecLoad(t) ==
  /\ RegVariant = "dec_load_store" /\ pc[t] = "open"
  /\ snap' = [snap EXCEPT ![t] = <<[a |-> cnt[ret[t]], m |-> global]>>]
  /\ pc' = [pc EXCEPT ![t] = "decl"]
  /\ UNCHANGED <<addr, list, owner, ret, nextId, cnt, global>>
DecStore(t) ==
  /\ pc[t] = "decl"
  /\ cnt' = [cnt EXCEPT ![ret[t]] = Monus(snap[t][1].a)]
  /\ global' = Monus(snap[t][1].m)
  /\ pc' = [pc EXCEPT ![t] = "closed"]
  /\ UNCHANGED <<addr, list, owner, snap, ret, nextId>>

NextB == \E t \in Threads : \/ Load(t) \/ Lock(t) \/ Reload(t) \/ Store(t) \/ Inc(t)
                            \/ (RegVariant # "dec_load_store" /\ Dec(t)) \/ DecLoad(t) \/ DecStore(t)

Has(t) == pc[t] \in {"got", "open", "decl", "closed"}
Registered == {list[i].a : i \in 1..Len(list)}

C36_OneEntryPerAddress == \A i, j \in 1..Len(list) : i # j => list[i].a # list[j].a
C36_Sorted == \A i, j \in 1..Len(list) : i < j => list[i].a < list[j].a
(* nobody's entry is lost: what get() handed out is what the list holds    *)
C36_NoneLost ==
  \A t \in Threads : Has(t) => \E i \in 1..Len(list) : list[i].a = addr[t] /\ list[i].m = ret[t]
C36_SameObjectPerAddress ==
  \A t, u \in Threads : (Has(t) /\ Has(u) /\ addr[t] = addr[u]) => ret[t] = ret[u]
(* entries never disappear and never change their object *)
C36_EntriesStable ==
  [][\A i \in 1..Len(list) : \E j \in 1..Len(list') : list'[j] = list[i]]_varsB
(* the per-address gauge counts the open connections of that address       *)
C36_CountsOpenConnections ==
  /\ \A i \in 1..Len(list) :
       cnt[list[i].m] = Cardinality({t \in Threads : pc[t] = "open" /\ addr[t] = list[i].a /\ ret[t] = list[i].m})
  /\ global = Cardinality({t \in Threads : pc[t] = "open"})
C36_ZeroWhenAllClosed ==
  (\A t \in Threads : pc[t] = "closed") =>
     /\ global = 0
     /\ \A i \in 1..Len(list) : cnt[list[i].m] = 0
     /\ \A t \in Threads : addr[t] \in Registered
TypeB ==
  /\ owner \in Threads \cup {0}
  /\ (RegVariant # "no_lock" => \A t \in Threads : pc[t] \in {"locked", "insert"} <=> owner = t)

-----------------------------------------------------------------------------
(* Specifications.  Each part keeps the other part's variables fixed. *)

IdleA ==
  /\ n = 1 /\ setup = [c \in 1..1 |-> TRUE] /\ arrived = 0 /\ backlog = <<>> /\ task = "parked"
  /\ waker = TRUE /\ timer = "none" /\ errs = 0 /\ outcome = [c \in 1..1 |-> "none"] /\ drained = 0
IdleB ==
  /\ addr = [t \in Threads |-> CHOOSE a \in Addrs : TRUE] /\ list = <<>> /\ owner = 0
  /\ pc = [t \in Threads |-> "closed"] /\ snap = [t \in Threads |-> <<>>] /\ ret = [t \in Threads |-> 0]
  /\ nextId = 1 /\ cnt = [i \in 1..MaxIds |-> 0] /\ global = 0

vars == <<varsA, varsB>>

SpecA == InitA /\ IdleB /\ [][NextA /\ UNCHANGED varsB]_vars
FairSpecA == SpecA /\ WF_vars(TaskStep /\ UNCHANGED varsB) /\ WF_vars(TimerFire /\ UNCHANGED varsB)
                   /\ WF_vars(Arrive /\ UNCHANGED varsB)
SpecB == IdleA /\ InitB /\ [][NextB /\ UNCHANGED varsA]_vars

=============================================================================
