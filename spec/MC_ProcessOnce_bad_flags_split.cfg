\* seeded fault flags_split, TLC must reject
SPECIFICATION Spec
CONSTANTS
  Points = {1, 2, 3}
  MaxRuns = 3
  Variant = "flags_split"
INVARIANTS TypeOK C33_FailedRunChangesNothing FaultMeansFailure ServedIsComplete
CHECK_DEADLOCK FALSE
