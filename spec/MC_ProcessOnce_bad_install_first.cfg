\* seeded fault install_first, TLC must reject
SPECIFICATION Spec
CONSTANTS
  Points = {1, 2, 3}
  MaxRuns = 3
  Variant = "install_first"
INVARIANTS TypeOK C33_FailedRunChangesNothing FaultMeansFailure ServedIsComplete
CHECK_DEADLOCK FALSE
