----------------------- MODULE MC_ExceptionsReload -----------------------
EXTENDS ExceptionsReload, Json, TLC
VARIABLE first
MCInit == Init /\ first = file
MCNext == Next /\ UNCHANGED first
MCSpec == MCInit /\ [][MCNext]_<<vars, first>>
(* with the file the server started from, the expectation can be stated exactly *)
ServedExactly ==
  (state = "running") => served = LastGood(hist, first)
Emit == ((state = "running" /\ edits = MaxEdits) \/ state = "exited") =>
          PrintT(<<"REPLAY", ToJson([first |-> first, starts |-> (state = "running"), steps |-> hist])>>)
=============================================================================
