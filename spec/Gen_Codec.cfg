\* same cases as MC_Codec.cfg
SPECIFICATION GSpec
CONSTANTS
  Variant = "intended"
  ValueMode = "pairs"
  CorrMode = "basic"
INVARIANT Emit
CHECK_DEADLOCK FALSE
