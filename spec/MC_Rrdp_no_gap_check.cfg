\* only the state invalidation repaired (expected to FAIL: gapped delta list applied); 4 versions, 2 runs, 1 fault (publishes only)
SPECIFICATION Spec
CONSTANTS
  Objs = {1, 2}
  MaxVer = 4
  MaxRuns = 2
  MaxFaults = 1
  EtagModes = {TRUE}
  WithExpiry = FALSE
  Variant = "no_gap_check"
CONSTRAINT OneSession
INVARIANTS TypeOK VersionsDistinct C25_UpdatedIsSnapshotAtSerial C25_UpdatedIsAnnounced C25_FailureNotUsed C25_NoCopyUnavailable
CHECK_DEADLOCK FALSE
