\* export: both streams, every action sequence of length <= 2 per payload type, every threshold
SPECIFICATION Spec
CONSTANTS
  Shapes <- ShapesQuick
  Modes = {"delta", "reset"}
  SzHdr = 2
  SzSep = 2
  SzFoot = 1
  SzO = 1
  SzK = 2
  SzA = 3
  Variant = "as_code"
INVARIANT Emit
CHECK_DEADLOCK FALSE
