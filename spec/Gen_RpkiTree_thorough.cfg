\* thorough, part 1: every single fault under all four configurations
SPECIFICATION GSpec
CONSTANTS
  Shapes <- AllShapes
  MaxFaults = 1
  Configs <- ConfigSet
  Threads = 2
INVARIANT Emit
CHECK_DEADLOCK FALSE
