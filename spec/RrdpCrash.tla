----------------------------- MODULE RrdpCrash -----------------------------
(***************************************************************************)
(* C24: the local copy of one RRDP repository under process kills.         *)
(*                                                                         *)
(* One repository, one client.  The server publishes versions (an object   *)
(* map per version; the serial is the index of the version; a version may  *)
(* open a new session).  A client run (collector/rrdp/base.rs:             *)
(* Repository::try_update / update) reads the notification, then           *)
(*   - reports "not modified" when session and serial are those stored,    *)
(*   - applies the deltas in place (delta_update, base.rs:993-1083;        *)
(*     DeltaUpdate, update.rs:332-440; the elements carry hash             *)
(*     preconditions), the state record is written last, or                *)
(*   - takes the snapshot into a temporary archive (snapshot_update,       *)
(*     base.rs:904-991): objects, state, index, then remove the old file   *)
(*     and rename the new one over it.                                     *)
(* Every step that writes is one action, and Kill may happen between any   *)
(* two of them (and, for the in-place element writes, in the middle of     *)
(* one: KillMidElem).  A kill loses nothing but the process: the file      *)
(* contents stay as they are.                                              *)
(*                                                                         *)
(* The notification the client gets need not be the newest: a cache may    *)
(* present an older one again (StaleCache; `ann` is the version            *)
(* announced).  The client sends the validator stored with its state       *)
(* (`lm`: the version whose Last-Modified it holds, 0 = none) and a 304    *)
(* makes it report its copy as current without looking at it.              *)
(*                                                                         *)
(* Variant:                                                                *)
(*   "code"       the tree as it is: before the first delta element is     *)
(*                applied the state is overwritten with one that matches   *)
(*                no notification (base.rs:1026-1043)                      *)
(*   "pre_fix"    the tree before that change: no such mark.  Safe against *)
(*                kills as long as the server is honest and no cache       *)
(*                presents old notifications (Caches = FALSE), because every *)
(*                element re-applied by a later run meets its hash         *)
(*                precondition or makes the run fall back to the snapshot  *)
(*   "pre_fix_no_precond"  pre_fix without the hash preconditions: TLC     *)
(*                shows this is safe against kills too (a delta applied    *)
(*                again sets every object it touches); the preconditions   *)
(*                matter for dishonest servers (C25), not for C24          *)
(*   "state_first"         the new state is written before the deltas      *)
(*                         are applied                               [bad] *)
(*   "snapshot_in_place"   the snapshot is written into the existing       *)
(*                         archive, state first                      [bad] *)
(*   "mark_keeps_lm"       the mark clears session and ETag but keeps      *)
(*                         Last-Modified                             [bad] *)
(***************************************************************************)
EXTENDS Naturals, Sequences, FiniteSets, TLC

CONSTANTS NObj,        \* objects are 1..NObj
          Vals,        \* contents, positive integers; 0 = absent
          MaxVer,      \* number of server versions
          MaxKills,
          MaxRuns,     \* client runs started
          Caches,      \* BOOLEAN: may a cache present an older notification again (StaleCache)?
          Variant

Objs   == 1..NObj
Absent == 0
Torn   == 99           \* an object half overwritten: equal to no content the server ever had
Maps   == [Objs -> Vals \cup {Absent}]
Nil    == 0            \* the session that matches no notification
Broken == 98           \* a state record half overwritten: load_state fails, the archive counts as corrupt

VARIABLES srv,         \* sequence of [sess, objs]; serial of srv[i] is i
          arch,        \* the archive file: [ex, sess, serial, objs]
          tmp,         \* the temporary archive of a snapshot update: same shape
          pc,          \* where the client run is
          target,      \* serial (= index) announced by the notification this run has read
          di,          \* delta being applied (its serial)
          ei,          \* next element of that delta
          todo,        \* snapshot: objects still to be written
          reported,    \* the step just taken ended a run with "updated" (or "not modified": copy is current)
          ann,         \* the version the notification announces (a cache may serve an older one again)
          kills, runs

vars == <<srv, arch, tmp, pc, target, di, ei, todo, reported, ann, kills, runs>>

NoFile == [ex |-> FALSE, sess |-> Nil, serial |-> 0, lm |-> 0, objs |-> [o \in Objs |-> Absent]]

(* The elements of the delta leading to version v, in object order. *)
Changed(v) == {o \in Objs : srv[v - 1].objs[o] # srv[v].objs[o]}
RECURSIVE SeqOf(_)
SeqOf(S) == IF S = {} THEN <<>>
            ELSE LET m == CHOOSE x \in S : \A y \in S : x <= y IN <<m>> \o SeqOf(S \ {m})
Elems(v) == LET q == SeqOf(Changed(v))
            IN [i \in 1..Len(q) |-> [o |-> q[i], old |-> srv[v - 1].objs[q[i]], new |-> srv[v].objs[q[i]]]]

SameSession(a, b) == \A k \in a..b : srv[k].sess = srv[b].sess

Init ==
  /\ srv = << [sess |-> 1, objs |-> [o \in Objs |-> Absent]] >>
  /\ arch = NoFile /\ tmp = NoFile
  /\ pc = "idle" /\ target = 0 /\ di = 0 /\ ei = 0 /\ todo = {}
  /\ reported = FALSE /\ ann = 1 /\ kills = 0 /\ runs = 0

-----------------------------------------------------------------------------
(* The server *)
(* (The client reads the notification only at RunStart and the files of a   *)
(* version never change, so server steps commute with the steps of a run:  *)
(* they are taken only between runs.)                                       *)
Publish ==
  /\ pc = "idle"
  /\ Len(srv) < MaxVer
  /\ \E m \in Maps, newSess \in BOOLEAN :
        /\ (~newSess => m # srv[Len(srv)].objs)
        /\ srv' = Append(srv, [sess |-> IF newSess THEN srv[Len(srv)].sess + 1 ELSE srv[Len(srv)].sess,
                               objs |-> m])
  /\ ann' = Len(srv')
  /\ reported' = FALSE
  /\ UNCHANGED <<arch, tmp, pc, target, di, ei, todo, kills, runs>>

(* A cache presents an older notification again (or the newest one after that). *)
StaleCache ==
  /\ Caches
  /\ pc = "idle"
  /\ \E a \in 1..Len(srv) : a # ann /\ ann' = a
  /\ reported' = FALSE
  /\ UNCHANGED <<srv, arch, tmp, pc, target, di, ei, todo, kills, runs>>

-----------------------------------------------------------------------------
(* A client run *)
StartSnapshot(n) ==
  IF Variant = "snapshot_in_place"
    THEN /\ pc' = "snap_objs" /\ todo' = Objs
         /\ arch' = [ex |-> TRUE, sess |-> srv[n].sess, serial |-> n, lm |-> n, objs |-> arch.objs]   \* state first, in place
         /\ UNCHANGED tmp
    ELSE /\ pc' = "snap_objs" /\ todo' = {o \in Objs : srv[n].objs[o] # Absent}
         /\ tmp' = [NoFile EXCEPT !.ex = TRUE]
         /\ UNCHANGED arch

RunStart ==
  /\ pc = "idle" /\ runs < MaxRuns
  /\ runs' = runs + 1
  /\ LET n == ann IN
     /\ target' = n
     /\ IF arch.ex /\ arch.sess # Broken /\ arch.lm # 0 /\ arch.lm >= n
          THEN \* If-Modified-Since with the stored date: 304, not_modified() (base.rs:847)
               /\ reported' = TRUE
               /\ pc' = "idle" /\ UNCHANGED <<arch, tmp, di, ei, todo>>
        ELSE IF ~arch.ex \/ arch.sess # srv[n].sess \/ arch.serial > n
            \/ (arch.serial < n /\ ~SameSession(arch.serial, n))
          THEN StartSnapshot(n) /\ reported' = FALSE /\ UNCHANGED <<di, ei>>
        ELSE IF arch.serial = n
          THEN /\ reported' = TRUE                      \* not modified / no deltas to apply: copy reported current
               /\ pc' = "idle" /\ UNCHANGED <<arch, tmp, di, ei, todo>>
        ELSE /\ reported' = FALSE
             /\ di' = arch.serial + 1 /\ ei' = 1
             /\ pc' = IF Variant = "code" THEN "delta_mark"
                      ELSE IF Variant = "state_first" THEN "delta_state_first"
                      ELSE "delta_apply"
             /\ UNCHANGED <<arch, tmp, todo>>
  /\ UNCHANGED <<srv, ann, kills>>

(* base.rs:1026-1043 *)
DeltaMark ==
  /\ pc = "delta_mark"
  /\ arch' = [arch EXCEPT !.sess = Nil, !.lm = IF Variant = "mark_keeps_lm" THEN @ ELSE 0]
  /\ pc' = "delta_apply"
  /\ reported' = FALSE
  /\ UNCHANGED <<srv, tmp, target, di, ei, todo, ann, kills, runs>>

DeltaStateFirst ==
  /\ pc = "delta_state_first"
  /\ arch' = [arch EXCEPT !.sess = srv[target].sess, !.serial = target, !.lm = target]
  /\ pc' = "delta_apply"
  /\ reported' = FALSE
  /\ UNCHANGED <<srv, tmp, target, di, ei, todo, ann, kills, runs>>

PrecondOk(e) ==
  \/ Variant = "pre_fix_no_precond"
  \/ arch.objs[e.o] = e.old      \* publish: absent; update / withdraw: hash of the present object

(* One element (update.rs:379-439), or the step to the next delta / the end. *)
DeltaApply ==
  /\ pc = "delta_apply"
  /\ reported' = FALSE
  /\ LET es == Elems(di) IN
     IF ei > Len(es)
       THEN /\ IF di = target THEN pc' = "delta_state" /\ UNCHANGED <<di, ei>>
                              ELSE pc' = "delta_apply" /\ di' = di + 1 /\ ei' = 1
            /\ UNCHANGED <<arch, tmp, todo>>
     ELSE LET e == es[ei] IN
          IF PrecondOk(e)
            THEN /\ arch' = [arch EXCEPT !.objs[e.o] = e.new]
                 /\ ei' = ei + 1
                 /\ UNCHANGED <<pc, di, tmp, todo>>
            ELSE \* ConflictingDelta: fall back to the snapshot
                 /\ StartSnapshot(target) /\ UNCHANGED <<di, ei>>
  /\ UNCHANGED <<srv, target, ann, kills, runs>>

(* base.rs:1066-1077 *)
DeltaState ==
  /\ pc = "delta_state"
  /\ arch' = [arch EXCEPT !.sess = srv[target].sess, !.serial = target, !.lm = target]
  /\ pc' = "idle" /\ reported' = TRUE
  /\ UNCHANGED <<srv, tmp, target, di, ei, todo, ann, kills, runs>>

(* Snapshot: objects into the temporary archive *)
SnapObj ==
  /\ pc = "snap_objs"
  /\ reported' = FALSE
  /\ IF todo = {}
       THEN pc' = "snap_state" /\ UNCHANGED <<tmp, arch, todo>>
     ELSE LET o == CHOOSE x \in todo : \A y \in todo : x <= y IN
          /\ todo' = todo \ {o}
          /\ IF Variant = "snapshot_in_place"
               THEN arch' = [arch EXCEPT !.objs[o] = srv[target].objs[o]] /\ UNCHANGED tmp
               ELSE tmp' = [tmp EXCEPT !.objs[o] = srv[target].objs[o]] /\ UNCHANGED arch
          /\ UNCHANGED pc
  /\ UNCHANGED <<srv, target, di, ei, ann, kills, runs>>

(* update.rs:222-227: state, then the index (finalize) *)
SnapState ==
  /\ pc = "snap_state"
  /\ reported' = (Variant = "snapshot_in_place")
  /\ IF Variant = "snapshot_in_place"
       THEN pc' = "idle" /\ UNCHANGED <<tmp, arch>>
       ELSE /\ tmp' = [tmp EXCEPT !.sess = srv[target].sess, !.serial = target]
            /\ pc' = "snap_remove" /\ UNCHANGED arch
  /\ UNCHANGED <<srv, target, di, ei, todo, ann, kills, runs>>

(* base.rs:966 *)
SnapRemove ==
  /\ pc = "snap_remove"
  /\ arch' = NoFile
  /\ pc' = "snap_rename" /\ reported' = FALSE
  /\ UNCHANGED <<srv, tmp, target, di, ei, todo, ann, kills, runs>>

(* base.rs:979 *)
SnapRename ==
  /\ pc = "snap_rename"
  /\ arch' = tmp /\ tmp' = NoFile
  /\ pc' = "idle" /\ reported' = TRUE
  /\ UNCHANGED <<srv, target, di, ei, todo, ann, kills, runs>>

-----------------------------------------------------------------------------
(* The process dies.  The temporary file stays behind under a random name  *)
(* nobody reads again.                                                     *)
Kill ==
  /\ pc # "idle" /\ kills < MaxKills
  /\ kills' = kills + 1
  /\ pc' = "idle" /\ tmp' = NoFile /\ todo' = {} /\ reported' = FALSE
  /\ UNCHANGED <<srv, arch, target, di, ei, ann, runs>>

(* ... in the middle of an element's write: an object replaced in place    *)
(* can be half written; one replaced by delete + publish can be gone.      *)
KillMidElem ==
  /\ pc = "delta_apply" /\ kills < MaxKills
  /\ LET es == Elems(di) IN
     /\ ei <= Len(es)
     /\ LET e == es[ei] IN
        /\ PrecondOk(e)
        /\ e.old # Absent /\ e.new # Absent
        /\ \E mid \in {Torn, Absent} : arch' = [arch EXCEPT !.objs[e.o] = mid]
  /\ kills' = kills + 1
  /\ pc' = "idle" /\ tmp' = NoFile /\ todo' = {} /\ reported' = FALSE
  /\ UNCHANGED <<srv, target, di, ei, ann, runs>>

(* ... in the middle of a state write (the record is replaced in place):  *)
(* the archive cannot be read any more; the next run takes the snapshot     *)
(* (SnapshotReason::CorruptArchive).                                        *)
KillMidState ==
  /\ pc \in {"delta_mark", "delta_state", "delta_state_first"} /\ kills < MaxKills
  /\ arch' = [arch EXCEPT !.sess = Broken]
  /\ kills' = kills + 1
  /\ pc' = "idle" /\ tmp' = NoFile /\ todo' = {} /\ reported' = FALSE
  /\ UNCHANGED <<srv, target, di, ei, ann, runs>>

Next == Publish \/ StaleCache \/ RunStart \/ DeltaMark \/ DeltaStateFirst \/ DeltaApply \/ DeltaState
        \/ SnapObj \/ SnapState \/ SnapRemove \/ SnapRename \/ Kill \/ KillMidElem \/ KillMidState

Spec == Init /\ [][Next]_vars

-----------------------------------------------------------------------------
TypeOK ==
  /\ pc \in {"idle", "delta_mark", "delta_state_first", "delta_apply", "delta_state",
             "snap_objs", "snap_state", "snap_remove", "snap_rename"}
  /\ arch.ex \in BOOLEAN /\ tmp.ex \in BOOLEAN
  /\ kills \in 0..MaxKills /\ runs \in 0..MaxRuns
  /\ target \in 0..MaxVer

(* C24: a run that reports the repository as updated (or current) leaves   *)
(* the copy equal to the server's snapshot at the notified serial.          *)
(* (After a 304 for a stale notification the copy may be ahead of what is   *)
(* announced; it then equals the snapshot at its own serial.)               *)
C24_ReportedMeansEqual ==
  reported => /\ arch.ex
              /\ arch.serial \in 1..Len(srv)
              /\ arch.sess = srv[arch.serial].sess
              /\ arch.objs = srv[arch.serial].objs
              /\ (arch.serial = target \/ (arch.lm # 0 /\ arch.lm >= target))

(* A torn object never survives into a copy reported as updated, and the   *)
(* temporary archive is never what a run reads.                             *)
NoTornReported == reported => \A o \in Objs : arch.objs[o] # Torn

(* In the code variant: a copy whose state matches the server's current    *)
(* session is intact whenever no run is in progress (so even a server that *)
(* serves an old notification again cannot make it pass for current).      *)
MarkedWhileDirty ==
  (Variant = "code" /\ pc = "idle" /\ arch.ex /\ arch.sess \notin {Nil, Broken} /\ arch.serial <= Len(srv)
     /\ arch.sess = srv[arch.serial].sess)
  => arch.objs = srv[arch.serial].objs
=============================================================================
