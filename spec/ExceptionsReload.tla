-------------------------- MODULE ExceptionsReload --------------------------
(***************************************************************************)
(* Local exceptions (SLURM files) of a running server: operation.rs:251-   *)
(* 283.  At start-up the files are loaded and a server that cannot load    *)
(* them does not start.  Before every validation run they are loaded       *)
(* again; if that fails the run goes on with the exceptions loaded last    *)
(* ("Using previously loaded local exceptions.").  What is served after a  *)
(* run is the validated payload composed with the exceptions in effect     *)
(* (Compose.tla says how; this module says which exceptions).              *)
(*                                                                         *)
(* Not one of the listed properties (C09 composes with "the" exceptions).  *)
(* The replay runs every history against a real `routinator server`        *)
(* child: the file is rewritten, SIGUSR1 starts a run, /json shows which   *)
(* assertion is served.                                                    *)
(***************************************************************************)
EXTENDS Naturals, Sequences

CONSTANTS MaxEdits,   \* edits of the file after the start
          Variant     \* "code" | "broken_clears" (a failed reload leaves no exceptions at all)
                      \* | "no_reload" (the file is read at start-up only)

Good == {"v1", "v2"}                 \* two readable versions with different assertions
FileStates == Good \cup {"broken", "missing"}

VARIABLES file,      \* what is on disk
          state,     \* "starting" | "running" | "exited"
          loaded,    \* the exceptions in effect: "none" | "v1" | "v2"
          served,    \* the assertion the served data set shows: "nothing served" | "none" | "v1" | "v2"
          edits, hist
vars == <<file, state, loaded, served, edits, hist>>

Init ==
  /\ file \in FileStates /\ state = "starting" /\ loaded = "none" /\ served = "nothing served"
  /\ edits = 0 /\ hist = <<>>

(* start-up: load or refuse to start; then the first runs *)
Start ==
  /\ state = "starting"
  /\ IF file \in Good
       THEN state' = "running" /\ loaded' = file /\ served' = file
       ELSE state' = "exited" /\ UNCHANGED <<loaded, served>>
  /\ UNCHANGED <<file, edits, hist>>

(* the operator rewrites the file and asks for a run (SIGUSR1); the run reloads first *)
EditAndRun(f) ==
  /\ state = "running" /\ edits < MaxEdits
  /\ file' = f /\ edits' = edits + 1
  /\ loaded' = IF Variant = "no_reload" THEN loaded
               ELSE IF f \in Good THEN f
               ELSE IF Variant = "broken_clears" THEN "none" ELSE loaded
  /\ served' = loaded'
  /\ hist' = Append(hist, [file |-> f, served |-> served'])
  /\ UNCHANGED state

Next == Start \/ \E f \in FileStates : EditAndRun(f)
Spec == Init /\ [][Next]_vars

(* ---- what an operator expects ---- *)
RECURSIVE LastGood(_, _)
LastGood(h, first) == IF h = <<>> THEN first
                      ELSE IF h[Len(h)].file \in Good THEN h[Len(h)].file
                      ELSE LastGood(SubSeq(h, 1, Len(h) - 1), first)

(* the first file of a running server was good (otherwise it would not run): it is the first entry's predecessor *)
ServedIsLastGoodFile ==
  (state = "running" /\ hist # <<>>) =>
     \/ served = LastGood(hist, served)                    \* some good file seen since the start ...
     \/ \A i \in 1..Len(hist) : hist[i].file \notin Good   \* ... or none yet: what was served at the start stays
NeverWithoutExceptions == state = "running" => served \in Good
RefusesToStartOnBrokenFile == (state = "exited") => served = "nothing served"
=============================================================================
