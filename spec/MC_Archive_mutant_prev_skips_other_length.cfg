\* seeded fault "prev_skips_other_length" (see Archive.tla, Find): the walk along a bucket chain passes over names of
\* another length without remembering them as the predecessor; unlinking an object behind such a name then relinks the
\* wrong predecessor.  Needs two names of different lengths in one bucket ("a" and "b").  TLC must reject it.
SPECIFICATION MCSpec
CONSTANTS
  Names = {"a", "b", "c"}
  NBuckets = 2
  BucketOf <- MCBucketOf
  Lens = {1, 5}
  Metas = {1}
  Page = 4
  Header = 2
  NameMeta = 1
  LongNames = {"b"}
  IndexEnd = 3
  MaxOps = 4
  MaxFile = 1000
  Variant = "prev_skips_other_length"
INVARIANTS C26_NoError C26_Results C26_Refinement C26_NoGhosts C26_Tiling C26_Accounted C26_VerifyOk
CHECK_DEADLOCK FALSE
