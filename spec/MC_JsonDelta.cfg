\* exhaustive: both streams; per payload type every action sequence of length <= 2
\* (7 shapes, 343 change sets; resets: 0..2 items per type), EVERY threshold 0..total size;
\* sizes: header 2, separator 2, footer 1, origin 1, router key 2, ASPA 3, comma 1.
SPECIFICATION Spec
CONSTANTS
  Shapes <- ShapesQuick
  Modes = {"delta", "reset"}
  SzHdr = 2
  SzSep = 2
  SzFoot = 1
  SzO = 1
  SzK = 2
  SzA = 3
  Variant = "as_code"
INVARIANTS TypeOK Counter C18_Prefix C18_Exact C18_Progress Chunking
PROPERTIES C18_Terminates
CHECK_DEADLOCK TRUE
