---------------------------- MODULE Gen_Compose ----------------------------
(* Behaviour export for Compose: one line per world (validated payload     *)
(* multiset, rejected resources, SLURM, configuration) with the documented *)
(* composition as the expected served set, and the reason why each         *)
(* validated item that is not served is left out.                          *)
EXTENDS MC_Compose, Json

Line ==
  LET w == world IN
  [cls   |-> w.cls, wt |-> w.wt, cfg |-> w.cfg,
   occ   |-> w.occ, certs |-> w.certs, aspas |-> w.aspas, rej |-> w.rej,
   pf    |-> w.pf, bf |-> w.bf, pa |-> w.pa, ba |-> w.ba,
   exp   |-> [o |-> DocOrigins(w), k |-> DocKeys(w), a |-> DocAspas(w)],
   why   |-> [limit  |-> {v \in ValidatedVrps(w) : OverLimit(w, v)},
              unsafe |-> {v \in ValidatedVrps(w) : Unsafe(w, v)},
              slurm  |-> {v \in ValidatedVrps(w) : SlurmDropsVrp(w, v)},
              kslurm |-> {k \in ValidatedKeys(w) : SlurmDropsKey(w, k)},
              large  |-> {c \in Customers(w) : TooLarge(w, UnionProv(w, c))}],
   dups  |-> Cardinality(w.occ) - Cardinality(ValidatedVrps(w))
             + Cardinality(ValidatedVrps(w) \cap w.pa) + Cardinality(ValidatedKeys(w) \cap w.ba),
   undecided |-> \E f \in w.pf : f.fam = "none" /\ f.asn = 0]

(* Only initial states are expanded. *)
GNext == UNCHANGED vars
GSpec == MCInit /\ [][GNext]_vars
Emit == PrintT(<<"REPLAY", ToJson(Line)>>)
=============================================================================
