\* Part B (C36), seeded fault "dec_load_store" (the decrement of the connection gauges is not atomic): TLC must reject it
\* (two connections of one address closing at the same time lose one decrement)
SPECIFICATION SpecB
CONSTANTS
  MaxConn = 1
  MaxAcceptErr = 0
  Variant = "intended"
  Threads = {1, 2, 3}
  Addrs = {1, 2}
  PreLists = {{}, {0}, {3}, {0, 3}}
  RegVariant = "dec_load_store"
INVARIANTS C36_ZeroWhenAllClosed
CHECK_DEADLOCK FALSE
