----------------------------- MODULE MC_Delta -----------------------------
(* Bounded instance of Delta for exhaustive TLC runs.                      *)
EXTENDS Delta
CONSTANT MaxLen
LenBound == len < MaxLen
MergeOfEmptyIsIdentity == len = 1 => acc = Construct(first, cur)
=============================================================================
