\* quick: exhaustive over all sequences of <= 5 operations over 3 names (a, b colliding; c distinct),
\* 2 meta values, data lengths {0, 1, 2}: with Page = 4, Header = 2, NameMeta = 1 these are one page
\* with padding, one page exactly full, one unit over the page (2 pages).  In every state every operation
\* result (publish, update/delete and fetch_if with every check, fetch; all names) is compared with the map.
SPECIFICATION MCSpec
CONSTANTS
  Names = {"a", "b", "c"}
  NBuckets = 2
  BucketOf <- MCBucketOf
  Lens = {0, 1, 2}
  Metas = {1, 2}
  Page = 4
  Header = 2
  NameMeta = 1
  LongNames = {"b"}
  IndexEnd = 3
  MaxOps = 5
  MaxFile = 1000
  Variant = "code"
INVARIANTS TypeOK C26_NoError C26_Results C26_Refinement C26_NoGhosts C26_Tiling C26_Accounted C26_VerifyOk
           CacheCoherent PageAligned FitsIsGe
CHECK_DEADLOCK FALSE
