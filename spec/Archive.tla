------------------------------ MODULE Archive ------------------------------
(***************************************************************************)
(* The RRDP object archive of Routinator: src/utils/archive.rs             *)
(* (`Archive<Meta>`), property C26.                                        *)
(*                                                                         *)
(* Concrete state (variable `disk`), shaped like the file:                 *)
(*   hdr    : position -> object header (size, next, empty, name, len,     *)
(*            meta, tag) -- one entry per block whose header is live on    *)
(*            disk; positions are byte offsets scaled down to units;       *)
(*   fsize  : the real length of the file;                                 *)
(*   msize  : `Storage::size`, the cached length (refreshed by mmap());    *)
(*   bucket : the hash index, bucket -> position of the first object of    *)
(*            the bucket chain (0 = none, like Option<NonZeroU64>);        *)
(*   ehead  : the additional bucket for the chain of empty blocks;         *)
(*   err    : sticky marker for ArchiveError::Corrupt / io errors /        *)
(*            panics raised inside an operation ("" = none).               *)
(* Abstract state (refinement target): `amap`, a map from names to         *)
(* (meta, data) where data = (len, tag); tag flips on every update so that *)
(* a rewrite with equal length is visible.                                 *)
(*                                                                         *)
(* Every operator below is a transcription of one function of archive.rs;  *)
(* the line numbers of the pinned tree are given.  Scaling: the code has   *)
(* PAGE_SIZE = 256 and ObjectHeader::SIZE = 33 (8+8+1+8+8) bytes; the      *)
(* model has Page and Header units with Header <= Page.  The index ends at *)
(* byte 6 + 24 + 1025*8 = 8230, which is not a multiple of the page size;  *)
(* the model's IndexEnd is not a multiple of Page either.                  *)
(*                                                                         *)
(* Variant = "code" is the pinned code.  The other variants are seeded     *)
(* faults used only to show that the invariants bite                       *)
(* (the MC_Archive_mutant_*.cfg instances must be rejected by TLC).        *)
(*                                                                         *)
(* Bounded instances: MC_Archive.tla with MC_Archive.cfg (quick),          *)
(* MC_Archive_thorough.cfg (<= 6 operations) and MC_Archive_closed.cfg     *)
(* (any number of operations, file <= 6 pages).  Behaviour export for the  *)
(* replay on the real code: Gen_Archive.tla.                               *)
(***************************************************************************)
EXTENDS Naturals, Sequences, FiniteSets, TLC

CONSTANTS Names,      \* object names (strings)
          NBuckets,   \* number of hash buckets (code: 1024)
          BucketOf,   \* Names -> 1..NBuckets  (code: SipHash-2-4 of the name, keyed per archive, mod bucket count)
          Lens,       \* data lengths in units
          Metas,      \* meta data values (positive integers)
          Page,       \* code: PAGE_SIZE = 256                      (archive.rs:57)
          Header,     \* code: ObjectHeader::SIZE = 33              (archive.rs:1063)
          NameMeta,   \* name length + Meta::SIZE in units (sizes are abstract: the replay keeps the page count and the fill
                      \* class of every object whatever the real length of its name)
          LongNames,  \* the names that are longer than the others (the replay gives them more bytes): find may not care
          IndexEnd,   \* first position behind magic, archive meta and index (code: 8230)
          MaxOps,     \* bound on the number of operations (0 = unbounded, nops is then not counted)
          MaxFile,    \* bound on the file size in units
          Variant     \* "code" | "no_unlink_on_coalesce" | "no_chain_on_split" | "stale_next_on_split" | "fits_any"
                      \* | "prev_skips_other_length"

ASSUME /\ Header >= 1 /\ Header <= Page /\ IndexEnd >= 1
       /\ BucketOf \in [Names -> 1..NBuckets]
       /\ \A m \in Metas : m >= 1

Nil    == 0          \* null position
AnyMeta == 0          \* a check closure that accepts every stored meta value
NoName == "-"

Absent         == [p |-> FALSE, meta |-> 0, len |-> 0, tag |-> 0]
Entry(m, l, t) == [p |-> TRUE, meta |-> m, len |-> l, tag |-> t]

(* min_object_size, archive.rs:569-574 *)
MinSize(l) == Header + NameMeta + l
(* page_object_size, archive.rs:577-581 *)
Paged(l)   == ((MinSize(l) + Page - 1) \div Page) * Page
(* fits, archive.rs:589-594 *)
Fits(emptySize, objectSize) ==
  IF Variant = "fits_any" THEN TRUE
  ELSE \/ emptySize = objectSize
       \/ emptySize >= objectSize + Header

(* The three boundary cases of `fits` on raw numbers. *)
ASSUME Variant = "code" =>
       \A o \in {Page, 2 * Page} :
          /\ Fits(o, o)
          /\ Fits(o + Header, o)
          /\ (Header > 1 => ~Fits(o + Header - 1, o))
          /\ ~Fits(o - 1, o)

ObjHdr(size, next, n, m, l, t) ==
  [size |-> size, next |-> next, empty |-> FALSE, name |-> n, len |-> l, meta |-> m, tag |-> t]
(* ObjectHeader::new_empty, archive.rs:995-1002 *)
EmptyHdr(size, next) ==
  [size |-> size, next |-> next, empty |-> TRUE, name |-> NoName, len |-> 0, meta |-> 0, tag |-> 0]

Put(f, k, v) == [x \in (DOMAIN f) \cup {k} |-> IF x = k THEN v ELSE f[x]]
Drop(f, k)   == [x \in (DOMAIN f) \ {k} |-> f[x]]
MinOf(S)     == CHOOSE x \in S : \A y \in S : x <= y

Err(D, e) == IF D.err = "" THEN [D EXCEPT !.err = e] ELSE D

VARIABLES disk,   \* the file and the cached size, see above
          amap,   \* the abstract map
          nops    \* number of operations so far

vars == <<disk, amap, nops>>

-----------------------------------------------------------------------------
(* Chains: follow `next` pointers.  Fuel keeps the operator total on a     *)
(* corrupt (cyclic) disk; the invariants show that this never happens.     *)
RECURSIVE ChainFrom(_, _, _)
ChainFrom(h, p, fuel) ==
  IF p = Nil \/ fuel = 0 \/ p \notin DOMAIN h THEN <<>>
  ELSE <<p>> \o ChainFrom(h, h[p].next, fuel - 1)

Chain(D, p) == ChainFrom(D.hdr, p, Cardinality(DOMAIN D.hdr) + 1)

(* find, archive.rs:496-516: walk the bucket chain comparing names,        *)
(* remember the predecessor.                                               *)
Find(D, n) ==
  LET c   == Chain(D, D.bucket[BucketOf[n]])
      idx == {i \in 1..Len(c) : D.hdr[c[i]].name = n}
  IN IF idx = {} THEN [found |-> FALSE, start |-> Nil, prev |-> Nil]
     ELSE LET i == MinOf(idx)
              \* seeded fault "prev_skips_other_length": a length shortcut in the walk passes over names of another
              \* length without remembering them as the predecessor
              same == {j \in 1..(i - 1) : (D.hdr[c[j]].name \in LongNames) = (n \in LongNames)}
              pred == IF Variant = "prev_skips_other_length"
                        THEN (IF same = {} THEN Nil ELSE c[CHOOSE j \in same : \A k \in same : k <= j])
                        ELSE (IF i = 1 THEN Nil ELSE c[i - 1])
          IN [found |-> TRUE, start |-> c[i], prev |-> pred]

(* unlink_empty, archive.rs:469-493 *)
UnlinkEmpty(D, start, next) ==
  IF D.ehead = start THEN [D EXCEPT !.ehead = next]                        \* 476-479
  ELSE LET c  == Chain(D, D.ehead)
           ps == {i \in 1..Len(c) : D.hdr[c[i]].next = start}
       IN IF ps = {} THEN Err(D, "corrupt: empty object not in empty chain")  \* 492
          ELSE [D EXCEPT !.hdr[c[MinOf(ps)]].next = next]                   \* 482-489

(* find_empty, archive.rs:522-543: all blocks of the empty chain that fit, *)
(* stable sort by size, first one -- the smallest fit, ties broken by the  *)
(* position in the chain.                                                  *)
FindEmpty(D, size) ==
  LET c    == Chain(D, D.ehead)
      cand == {i \in 1..Len(c) : Fits(D.hdr[c[i]].size, size)}
  IN IF cand = {} THEN Nil
     ELSE c[CHOOSE i \in cand : \A j \in cand :
                \/ D.hdr[c[i]].size < D.hdr[c[j]].size
                \/ (D.hdr[c[i]].size = D.hdr[c[j]].size /\ i <= j)]

(* Storage::write + write_object, archive.rs:546-566, 1339-1355:           *)
(* appends iff the start equals the cached size (the file then grows by    *)
(* exactly head.size: header, name, meta, data, padding) and re-maps;      *)
(* otherwise overwrites inside the mapped region.                          *)
WriteObject(D, start, h) ==
  IF start = D.msize
    THEN [D EXCEPT !.hdr = Put(@, D.fsize, h), !.fsize = D.fsize + h.size, !.msize = D.fsize + h.size]
  ELSE IF start > D.msize THEN Err(D, "corrupt: update writer past end of file")   \* 1539-1541
  ELSE IF start + h.size > D.msize THEN Err(D, "io: unexpected EOF")                \* 1829-1833
  ELSE [D EXCEPT !.hdr = Put(@, start, h)]

(* ObjectHeader::write, archive.rs:1046-1050: the header only *)
WriteHeader(D, start, h) ==
  IF start = D.msize
    THEN [D EXCEPT !.hdr = Put(@, D.fsize, h), !.fsize = D.fsize + Header, !.msize = D.fsize + Header]
  ELSE IF start > D.msize THEN Err(D, "corrupt: update writer past end of file")
  ELSE IF start + Header > D.msize THEN Err(D, "io: unexpected EOF")
  ELSE [D EXCEPT !.hdr = Put(@, start, h)]

(* publish_replace, archive.rs:325-348 *)
PublishReplace(D, n, m, l, t, pos) ==
  LET e        == D.hdr[pos]
      b        == BucketOf[n]
      D1       == UnlinkEmpty(D, pos, e.next)                               \* 330
      emptyEnd == pos + e.size                                              \* 331
      size     == Paged(l)
      head     == ObjHdr(size, D1.bucket[b], n, m, l, t)                    \* 332-336
      D2       == WriteObject(D1, pos, head)                                \* 337
      objEnd   == pos + size                                                \* 338
      D3       == [D2 EXCEPT !.bucket[b] = pos]                             \* 339
  IN IF emptyEnd > objEnd                                                   \* 340
       THEN IF emptyEnd - objEnd < Header
              THEN Err(D3, "panic: assert empty.size >= ObjectHeader::SIZE") \* 342
              ELSE LET D4 == WriteHeader(D3, objEnd,
                                         EmptyHdr(emptyEnd - objEnd,
                                                  IF Variant = "stale_next_on_split" THEN e.next
                                                  ELSE D3.ehead))            \* 341-344
                   IN IF Variant = "no_chain_on_split" THEN D4
                      ELSE [D4 EXCEPT !.ehead = objEnd]                      \* 345
       ELSE D3

(* publish_append, archive.rs:351-363 *)
PublishAppend(D, n, m, l, t) ==
  LET b     == BucketOf[n]
      start == D.msize                                                      \* 354
      head  == ObjHdr(Paged(l), D.bucket[b], n, m, l, t)                    \* 355-359
      D1    == WriteObject(D, start, head)                                  \* 360
  IN [D1 EXCEPT !.bucket[b] = start]                                        \* 361

(* publish_not_found, archive.rs:301-314 *)
PublishNotFound(D, n, m, l, t) ==
  LET pos == FindEmpty(D, Paged(l))
  IN IF pos # Nil THEN PublishReplace(D, n, m, l, t, pos) ELSE PublishAppend(D, n, m, l, t)

PublishPath(D, l) ==
  LET pos == FindEmpty(D, Paged(l))
      at  == IF pos = D.ehead THEN "@head" ELSE "@chain"    \* is the block taken the first of the empty chain?
  IN IF pos = Nil THEN "append"
     ELSE IF D.hdr[pos].size = Paged(l) THEN "exact" \o at ELSE "split" \o at

(* create_empty, archive.rs:447-466 *)
CreateEmpty(D, start, size) ==
  LET nextStart == start + size                                             \* 450
  IN IF nextStart = D.msize                                                 \* 451
       THEN [D EXCEPT !.hdr = [p \in {q \in DOMAIN @ : q < start} |-> @[p]], \* 452 set_len(start)
                      !.fsize = start, !.msize = start]
     ELSE IF nextStart \notin DOMAIN D.hdr THEN Err(D, "corrupt: no header behind the deleted object")
     ELSE LET h  == D.hdr[nextStart]                                        \* 455
              co == h.empty                                                 \* 456
              D1 == IF ~co THEN D
                    ELSE IF Variant = "no_unlink_on_coalesce" THEN D
                    ELSE LET U == UnlinkEmpty(D, nextStart, h.next)         \* 457
                         IN [U EXCEPT !.hdr = Drop(@, nextStart)]           \* its header becomes free bytes
              sz == IF co THEN size + h.size ELSE size                      \* 458
              D2 == WriteHeader(D1, start, EmptyHdr(sz, D1.ehead))          \* 460-462
          IN [D2 EXCEPT !.ehead = start]                                    \* 463

(* delete_found, archive.rs:432-444 *)
DeleteFound(D, n, f) ==
  LET h  == D.hdr[f.start]
      D1 == IF f.prev # Nil THEN [D EXCEPT !.hdr[f.prev].next = h.next]     \* 436-439
            ELSE [D EXCEPT !.bucket[BucketOf[n]] = h.next]                  \* 440
  IN CreateEmpty(D1, f.start, h.size)                                       \* 442

DeletePath(D, f) ==
  LET h == D.hdr[f.start]
      nextStart == f.start + h.size
      link == IF f.prev = Nil THEN "head" ELSE "mid"
  IN IF nextStart = D.msize THEN link \o "-truncate"
     ELSE IF nextStart \in DOMAIN D.hdr /\ D.hdr[nextStart].empty THEN link \o "-coalesce"
     ELSE link \o "-plain"

CheckOk(chk, stored) == chk = AnyMeta \/ chk = stored

-----------------------------------------------------------------------------
(* Results of the public API, computed from the disk the way the code      *)
(* does (Find walks the bucket chain) and, independently, from the         *)
(* abstract map (the A... operators).  C26_Results compares them in every  *)
(* reachable state for every argument.                                     *)

(* publish, archive.rs:293-296 *)
PublishRes(D, n) == IF Find(D, n).found THEN <<"exists">> ELSE <<"ok">>
APublishRes(n)   == IF amap[n].p THEN <<"exists">> ELSE <<"ok">>

(* update / delete, archive.rs:379-386, 417-424 *)
AccessRes(D, n, chk) ==
  LET f == Find(D, n)
  IN IF ~f.found THEN <<"notfound">>
     ELSE IF ~CheckOk(chk, D.hdr[f.start].meta) THEN <<"inconsistent">> ELSE <<"ok">>
AAccessRes(n, chk) ==
  IF ~amap[n].p THEN <<"notfound">>
  ELSE IF ~CheckOk(chk, amap[n].meta) THEN <<"inconsistent">> ELSE <<"ok">>

(* fetch / fetch_bytes, archive.rs:221-248 *)
FetchRes(D, n) ==
  LET f == Find(D, n)
  IN IF ~f.found THEN <<"notfound">> ELSE <<"data", D.hdr[f.start].len, D.hdr[f.start].tag>>
AFetchRes(n) == IF ~amap[n].p THEN <<"notfound">> ELSE <<"data", amap[n].len, amap[n].tag>>

(* fetch_if, archive.rs:264-280 *)
FetchIfRes(D, n, chk) ==
  LET f == Find(D, n)
  IN IF ~f.found THEN <<"notfound">>
     ELSE IF ~CheckOk(chk, D.hdr[f.start].meta) THEN <<"inconsistent">>
     ELSE <<"data", D.hdr[f.start].len, D.hdr[f.start].tag>>
AFetchIfRes(n, chk) ==
  IF ~amap[n].p THEN <<"notfound">>
  ELSE IF ~CheckOk(chk, amap[n].meta) THEN <<"inconsistent">>
  ELSE <<"data", amap[n].len, amap[n].tag>>

-----------------------------------------------------------------------------
(* Operations of the public API as actions.  An operation that reports an  *)
(* error returns before it writes anything.                                *)

Count == nops' = IF MaxOps = 0 THEN nops ELSE nops + 1

Init ==
  /\ disk = [hdr |-> <<>>, fsize |-> IndexEnd, msize |-> IndexEnd,          \* create, 89-116
             bucket |-> [b \in 1..NBuckets |-> Nil], ehead |-> Nil, err |-> ""]
  /\ amap = [n \in Names |-> Absent]
  /\ nops = 0

(* publish, archive.rs:290-299 *)
Publish(n, m, l) ==
  /\ disk' = IF PublishRes(disk, n) # <<"ok">> THEN disk                    \* 294-296
             ELSE PublishNotFound(disk, n, m, l, 0)                         \* 297
  /\ amap' = IF amap[n].p THEN amap ELSE [amap EXCEPT ![n] = Entry(m, l, 0)]
  /\ Count

(* update, archive.rs:374-401 *)
Update(n, m, l, chk) ==
  LET f == Find(disk, n)
      h == disk.hdr[f.start]
  IN /\ disk' = IF AccessRes(disk, n, chk) # <<"ok">> THEN disk             \* 380-386
                ELSE IF h.size = Paged(l)                                    \* 392
                  THEN WriteObject(disk, f.start,
                                   [h EXCEPT !.len = l, !.meta = m, !.tag = 1 - h.tag])  \* 393-394
                  ELSE PublishNotFound(DeleteFound(disk, n, f), n, m, l, 1 - h.tag)      \* 397-398
     /\ amap' = IF AAccessRes(n, chk) = <<"ok">>
                  THEN [amap EXCEPT ![n] = Entry(m, l, 1 - amap[n].tag)] ELSE amap
     /\ Count

UpdatePath(D, n, l) ==
  LET f == Find(D, n)
  IN IF D.hdr[f.start].size = Paged(l) THEN "inplace"
     ELSE "move:" \o DeletePath(D, f) \o "/" \o PublishPath(DeleteFound(D, n, f), l)

(* delete, archive.rs:412-426 *)
Delete(n, chk) ==
  /\ disk' = IF AccessRes(disk, n, chk) # <<"ok">> THEN disk                \* 418-424
             ELSE DeleteFound(disk, n, Find(disk, n))                       \* 425
  /\ amap' = IF AAccessRes(n, chk) = <<"ok">> THEN [amap EXCEPT ![n] = Absent] ELSE amap
  /\ Count

(* fetch, fetch_if: read only *)
Fetch(n)        == UNCHANGED <<disk, amap>> /\ Count
FetchIf(n, chk) == UNCHANGED <<disk, amap>> /\ Count

(* Drop the archive and Archive::open it again (archive.rs:121-138): only  *)
(* the cached size is volatile; it is re-read from the file.               *)
Reopen ==
  /\ disk' = [disk EXCEPT !.msize = disk.fsize]
  /\ UNCHANGED amap
  /\ Count

Checks == Metas \cup {AnyMeta}

Next ==
  \/ \E n \in Names, m \in Metas, l \in Lens : Publish(n, m, l)
  \/ \E n \in Names, m \in Metas, l \in Lens, c \in Checks : Update(n, m, l, c)
  \/ \E n \in Names, c \in Checks : Delete(n, c)
  \/ \E n \in Names : Fetch(n)
  \/ \E n \in Names, c \in Checks : FetchIf(n, c)
  \/ Reopen

(* Bounds: at most MaxOps operations (0 = unbounded) and a file of at most *)
(* MaxFile units (operations that would grow it further are not taken).    *)
Bounded == (MaxOps = 0 \/ nops < MaxOps) /\ Next /\ disk'.fsize <= MaxFile

Spec == Init /\ [][Bounded]_vars

-----------------------------------------------------------------------------
(* verify, archive.rs:145-202, transcribed: collect (position, size) of    *)
(* everything reachable from the buckets and from the empty chain, check   *)
(* the hash of every object, sort, check that they are consecutive.        *)
RECURSIVE ObjSeq(_, _)
ObjSeq(D, b) == IF b > NBuckets THEN <<>> ELSE Chain(D, D.bucket[b]) \o ObjSeq(D, b + 1)
EmptySeq(D)  == Chain(D, D.ehead)
Reach(D)     == ObjSeq(D, 1) \o EmptySeq(D)

Verify(D) ==
  LET hashBad == \E b \in 1..NBuckets :
                   LET c == Chain(D, D.bucket[b])
                   IN \E i \in 1..Len(c) : \/ D.hdr[c[i]].name \notin Names
                                           \/ BucketOf[D.hdr[c[i]].name] # b     \* 162-164
      objs    == SortSeq(Reach(D), LAMBDA x, y : x < y)                         \* 193
      broken  == \E i \in 1..(Len(objs) - 1) :
                    objs[i + 1] # objs[i] + D.hdr[objs[i]].size                 \* 195-199
  IN IF hashBad THEN "corrupt: incorrect hash"
     ELSE IF broken THEN "corrupt: broken sequence" ELSE "ok"

RECURSIVE SizeSum(_, _)
SizeSum(D, s) == IF s = <<>> THEN 0 ELSE D.hdr[Head(s)].size + SizeSum(D, Tail(s))
RECURSIVE PadSum(_, _)
PadSum(D, s)  == IF s = <<>> THEN 0
                 ELSE (D.hdr[Head(s)].size - MinSize(D.hdr[Head(s)].len)) + PadSum(D, Tail(s))   \* 168-170

(* ArchiveStats: <<object_count, object_size, padding_size, empty_count, empty_size, empty_min, empty_max>> *)
Stats(D) ==
  LET os == ObjSeq(D, 1)
      es == EmptySeq(D)
      ez == {D.hdr[es[i]].size : i \in 1..Len(es)}
  IN << Len(os), SizeSum(D, os), PadSum(D, os),
        Len(es), SizeSum(D, es),
        IF ez = {} THEN 0 ELSE MinOf(ez),
        IF ez = {} THEN 0 ELSE CHOOSE x \in ez : \A y \in ez : y <= x >>

(* The file read front to back: hop from header to header. *)
RECURSIVE WalkFrom(_, _, _)
WalkFrom(D, p, fuel) ==
  IF p \notin DOMAIN D.hdr \/ fuel = 0 THEN <<>>
  ELSE LET h == D.hdr[p]
       IN << <<p, h.size, IF h.empty THEN 1 ELSE 0, h.name, h.len>> >> \o WalkFrom(D, p + h.size, fuel - 1)
Layout(D) == WalkFrom(D, IndexEnd, Cardinality(DOMAIN D.hdr))

-----------------------------------------------------------------------------
(* Properties (C26).                                                       *)

TypeOK ==
  /\ disk.fsize \in Nat /\ disk.msize \in Nat /\ disk.ehead \in Nat
  /\ \A p \in DOMAIN disk.hdr : /\ disk.hdr[p].size \in Nat \ {0}
                                /\ disk.hdr[p].empty \in BOOLEAN
  /\ nops \in Nat

(* No operation ever hits Corrupt, an io error or a panic. *)
C26_NoError == disk.err = ""

(* Every operation reports what a map would. *)
C26_Results ==
  \A n \in Names :
    /\ PublishRes(disk, n) = APublishRes(n)
    /\ FetchRes(disk, n) = AFetchRes(n)
    /\ \A c \in Checks : /\ AccessRes(disk, n, c) = AAccessRes(n, c)
                         /\ FetchIfRes(disk, n, c) = AFetchIfRes(n, c)

(* Refinement mapping: looking a name up on disk = looking it up in the map. *)
C26_Refinement ==
  \A n \in Names :
    LET f == Find(disk, n)
    IN /\ f.found = amap[n].p
       /\ f.found => LET h == disk.hdr[f.start]
                     IN /\ ~h.empty
                        /\ h.meta = amap[n].meta /\ h.len = amap[n].len /\ h.tag = amap[n].tag
                        /\ h.size = Paged(h.len)
(* ... and nothing else is stored: one live object per present name. *)
C26_NoGhosts ==
  /\ \A p, q \in DOMAIN disk.hdr :
        (~disk.hdr[p].empty /\ ~disk.hdr[q].empty /\ disk.hdr[p].name = disk.hdr[q].name) => p = q
  /\ \A p \in DOMAIN disk.hdr : ~disk.hdr[p].empty => disk.hdr[p].name \in Names /\ amap[disk.hdr[p].name].p

(* Objects and free space tile [IndexEnd, fsize) without gap or overlap. *)
C26_Tiling ==
  LET H == disk.hdr
      P == DOMAIN H
  IN /\ (P = {}) => disk.fsize = IndexEnd
     /\ (P # {}) => IndexEnd \in P
     /\ \A p \in P : /\ p >= IndexEnd
                     /\ p + H[p].size <= disk.fsize
                     /\ (p + H[p].size = disk.fsize \/ p + H[p].size \in P)
     /\ \A p, q \in P : p < q => p + H[p].size <= q

(* Every block is accounted for exactly once: objects on the chain of      *)
(* their bucket, empty blocks on the empty chain.                          *)
C26_Accounted ==
  LET r == Reach(disk)
  IN /\ \A i, j \in 1..Len(r) : r[i] = r[j] => i = j
     /\ {r[i] : i \in 1..Len(r)} = DOMAIN disk.hdr
     /\ \A i \in 1..Len(EmptySeq(disk)) : disk.hdr[EmptySeq(disk)[i]].empty
     /\ \A b \in 1..NBuckets :
           LET c == Chain(disk, disk.bucket[b])
           IN \A i \in 1..Len(c) : /\ ~disk.hdr[c[i]].empty
                                   /\ disk.hdr[c[i]].name \in Names
                                   /\ BucketOf[disk.hdr[c[i]].name] = b

(* The code's own consistency check agrees. *)
C26_VerifyOk == Verify(disk) = "ok"

(* The cached size is the file size after every complete operation. *)
CacheCoherent == disk.msize = disk.fsize

(* All block sizes are whole pages.  With Header <= Page this makes the    *)
(* second disjunct of `fits` equivalent to plain `>`: the boundary         *)
(* size + Header - 1 cannot be reached through the public API.             *)
PageAligned ==
  /\ \A p \in DOMAIN disk.hdr : disk.hdr[p].size % Page = 0 /\ (p - IndexEnd) % Page = 0
  /\ (disk.fsize - IndexEnd) % Page = 0
FitsIsGe ==
  \A p \in DOMAIN disk.hdr : \A l \in Lens :
     disk.hdr[p].empty => (Fits(disk.hdr[p].size, Paged(l)) <=> disk.hdr[p].size >= Paged(l))

=============================================================================
