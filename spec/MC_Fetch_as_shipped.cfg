\* rsync.rs as shipped (running.remove before updated.insert): TLC must reject C37_AtMostOnce (DESIGN B.1, F15)
SPECIFICATION Spec
CONSTANTS
  Threads = {"T1", "T2"}
  Keys = {"k1"}
  MaxCalls = 1
  Order = "remove_then_insert"
  Check2Removes = FALSE
  HostVariant = "intended"
INVARIANTS TypeOK C37_AtMostOnce C37_WaitsForFetch MutexOwned
CHECK_DEADLOCK TRUE
