-------------------------- MODULE Gen_TrustAnchor --------------------------
(* Behaviour export for TrustAnchor: one line per history of `Depth` runs  *)
(* from an empty cache.  Per run: what every URI serves, the dirty flag    *)
(* and what the specification expects afterwards.  Download results of     *)
(* URIs that the run never asks for cannot matter; only the canonical      *)
(* representative ("absent" there) is exported.                            *)
EXTENDS TrustAnchor, Sequences, Json

VARIABLE h
CONSTANT Depth

AllDl == AllDownloads
Bools == {TRUE, FALSE}
Clean == {FALSE}
Dirty == {TRUE}

Obs == [dl |-> dl, dirty |-> dirty,
        exp |-> [used |-> used, usedKind |-> usedKind, tried |-> tried, loaded |-> loaded,
                 before |-> before, storedMid |-> stored, stored |-> stored', work |-> work']]

GInit == Init /\ h = <<>>
GNext == \/ (\E d \in [URIs -> Downloads], dy \in DirtyChoices : StartRun(d, dy)) /\ UNCHANGED h
         \/ LoadTa /\ UNCHANGED h
         \/ Cleanup /\ (\A u \in URIs \ tried : dl[u] = "absent") /\ h' = Append(h, Obs)
GSpec == GInit /\ [][GNext]_<<vars, h>>
Emit == (runs = Depth /\ phase = "idle") =>
          PrintT(<<"REPLAY", ToJson([nuris |-> NUris, runs |-> h])>>)
=============================================================================
