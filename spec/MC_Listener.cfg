\* Part A (C19), exhaustive: 1..4 connections, every subset failing its setup, up to 1 accept error(s) injected at any
\* point, every interleaving of arrivals, task steps and the back-off timer; variant "intended"
SPECIFICATION FairSpecA
CONSTANTS
  MaxConn = 4
  MaxAcceptErr = 1
  Variant = "intended"
  Threads = {1}
  Addrs = {1}
  PreLists = {{}}
  RegVariant = "as_coded"
INVARIANTS TypeA C19_NeverStuck C19_WakeSourceWhenParked C19_OutcomeMatchesSetup
PROPERTIES C19_EveryoneAccepted C19_HealthyServed
CHECK_DEADLOCK FALSE
