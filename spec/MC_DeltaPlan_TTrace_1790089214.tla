---- MODULE MC_DeltaPlan_TTrace_1790089214 ----
EXTENDS Sequences, TLCExt, MC_DeltaPlan, Toolbox, Naturals, TLC

_expression ==
    LET MC_DeltaPlan_TEExpression == INSTANCE MC_DeltaPlan_TEExpression
    IN MC_DeltaPlan_TEExpression!expression
----

_trace ==
    LET MC_DeltaPlan_TETrace == INSTANCE MC_DeltaPlan_TETrace
    IN MC_DeltaPlan_TETrace!trace
----

_inv ==
    ~(
        TLCGet("level") = Len(_TETrace)
        /\
        same = (TRUE)
        /\
        notified = (3)
        /\
        retain = (1)
        /\
        fault = (<<"none", 0>>)
        /\
        maxl = (2)
        /\
        list = (<<3>>)
        /\
        maxc = (1)
        /\
        done = (TRUE)
        /\
        plan = ([reason |-> "-", kind |-> "deltas", deltas |-> <<3>>])
        /\
        local = (1)
    )
----

_init ==
    /\ done = _TETrace[1].done
    /\ retain = _TETrace[1].retain
    /\ fault = _TETrace[1].fault
    /\ same = _TETrace[1].same
    /\ list = _TETrace[1].list
    /\ maxc = _TETrace[1].maxc
    /\ maxl = _TETrace[1].maxl
    /\ plan = _TETrace[1].plan
    /\ notified = _TETrace[1].notified
    /\ local = _TETrace[1].local
----

_next ==
    /\ \E i,j \in DOMAIN _TETrace:
        /\ \/ /\ j = i + 1
              /\ i = TLCGet("level")
        /\ done  = _TETrace[i].done
        /\ done' = _TETrace[j].done
        /\ retain  = _TETrace[i].retain
        /\ retain' = _TETrace[j].retain
        /\ fault  = _TETrace[i].fault
        /\ fault' = _TETrace[j].fault
        /\ same  = _TETrace[i].same
        /\ same' = _TETrace[j].same
        /\ list  = _TETrace[i].list
        /\ list' = _TETrace[j].list
        /\ maxc  = _TETrace[i].maxc
        /\ maxc' = _TETrace[j].maxc
        /\ maxl  = _TETrace[i].maxl
        /\ maxl' = _TETrace[j].maxl
        /\ plan  = _TETrace[i].plan
        /\ plan' = _TETrace[j].plan
        /\ notified  = _TETrace[i].notified
        /\ notified' = _TETrace[j].notified
        /\ local  = _TETrace[i].local
        /\ local' = _TETrace[j].local

\* Uncomment the ASSUME below to write the states of the error trace
\* to the given file in Json format. Note that you can pass any tuple
\* to `JsonSerialize`. For example, a sub-sequence of _TETrace.
    \* ASSUME
    \*     LET J == INSTANCE Json
    \*         IN J!JsonSerialize("MC_DeltaPlan_TTrace_1790089214.json", _TETrace)

=============================================================================

 Note that you can extract this module `MC_DeltaPlan_TEExpression`
  to a dedicated file to reuse `expression` (the module in the 
  dedicated `MC_DeltaPlan_TEExpression.tla` file takes precedence 
  over the module `MC_DeltaPlan_TEExpression` below).

---- MODULE MC_DeltaPlan_TEExpression ----
EXTENDS Sequences, TLCExt, MC_DeltaPlan, Toolbox, Naturals, TLC

expression == 
    [
        \* To hide variables of the `MC_DeltaPlan` spec from the error trace,
        \* remove the variables below.  The trace will be written in the order
        \* of the fields of this record.
        done |-> done
        ,retain |-> retain
        ,fault |-> fault
        ,same |-> same
        ,list |-> list
        ,maxc |-> maxc
        ,maxl |-> maxl
        ,plan |-> plan
        ,notified |-> notified
        ,local |-> local
        
        \* Put additional constant-, state-, and action-level expressions here:
        \* ,_stateNumber |-> _TEPosition
        \* ,_doneUnchanged |-> done = done'
        
        \* Format the `done` variable as Json value.
        \* ,_doneJson |->
        \*     LET J == INSTANCE Json
        \*     IN J!ToJson(done)
        
        \* Lastly, you may build expressions over arbitrary sets of states by
        \* leveraging the _TETrace operator.  For example, this is how to
        \* count the number of times a spec variable changed up to the current
        \* state in the trace.
        \* ,_doneModCount |->
        \*     LET F[s \in DOMAIN _TETrace] ==
        \*         IF s = 1 THEN 0
        \*         ELSE IF _TETrace[s].done # _TETrace[s-1].done
        \*             THEN 1 + F[s-1] ELSE F[s-1]
        \*     IN F[_TEPosition - 1]
    ]

=============================================================================



Parsing and semantic processing can take forever if the trace below is long.
 In this case, it is advised to uncomment the module below to deserialize the
 trace from a generated binary file.

\*
\*---- MODULE MC_DeltaPlan_TETrace ----
\*EXTENDS IOUtils, MC_DeltaPlan, TLC
\*
\*trace == IODeserialize("MC_DeltaPlan_TTrace_1790089214.bin", TRUE)
\*
\*=============================================================================
\*

---- MODULE MC_DeltaPlan_TETrace ----
EXTENDS MC_DeltaPlan, TLC

trace == 
    <<
    ([same |-> TRUE,notified |-> 3,retain |-> 1,fault |-> <<"none", 0>>,maxl |-> 2,list |-> <<3>>,maxc |-> 1,done |-> FALSE,plan |-> [reason |-> "-", kind |-> "nothing", deltas |-> <<>>],local |-> 1]),
    ([same |-> TRUE,notified |-> 3,retain |-> 1,fault |-> <<"none", 0>>,maxl |-> 2,list |-> <<3>>,maxc |-> 1,done |-> TRUE,plan |-> [reason |-> "-", kind |-> "deltas", deltas |-> <<3>>],local |-> 1])
    >>
----


=============================================================================

---- CONFIG MC_DeltaPlan_TTrace_1790089214 ----
CONSTANTS
    MaxSerial = 5
    Counts = { 1 , 2 , 4 }
    ListLens = { 2 , 10 }
    Variant = "no_first_check"

INVARIANT
    _inv

CHECK_DEADLOCK
    \* CHECK_DEADLOCK off because of PROPERTY or INVARIANT above.
    FALSE

INIT
    _init

NEXT
    _next

CONSTANT
    _TETrace <- _trace

ALIAS
    _expression
=============================================================================
\* Generated on Tue Sep 22 15:00:28 UTC 2026