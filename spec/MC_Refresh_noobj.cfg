\* mutant noobj of the refresh computation: TLC must reject it
SPECIFICATION Spec
CONSTANTS
  Short <- ShortTimes
  Long = 30
  MaxShort = 1
  FaultSites = "all"
  MaxFaults = 1
  Variant = "noobj"
INVARIANTS
  C39_RefreshWithinBound
PROPERTIES Terminates
