\* seeded fault, TLC must reject
SPECIFICATION Spec
CONSTANTS
  NObj = 2
  Vals = {1, 2}
  MaxVer = 3
  MaxKills = 2
  MaxRuns = 4
  Caches = TRUE
  Variant = "mark_keeps_lm"
INVARIANTS TypeOK C24_ReportedMeansEqual NoTornReported MarkedWhileDirty
CHECK_DEADLOCK FALSE
