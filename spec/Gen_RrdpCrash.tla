--------------------------- MODULE Gen_RrdpCrash ---------------------------
(* Scenario export for the replay of RrdpCrash on the real collector.      *)
(* A scenario: a server history of 2..MaxVer versions, the client synced   *)
(* to version `base` (0 = no local copy), then one uninterrupted client    *)
(* run towards the last version.  Exported: the history, base, and the     *)
(* archive state (ex, sess, serial, objs) the model has after every step   *)
(* of the run together with the step's label.  The replayer kills the real *)
(* client at every kill point of that run and checks that the states found *)
(* on disk walk through this list in order.                                *)
EXTENDS RrdpCrash, Json

VARIABLES h, base

GInit ==
  /\ \E n \in 2..MaxVer :
       \E ms \in [1..n -> Maps], ns \in [2..n -> BOOLEAN] :
         /\ \A i \in 2..n : (~ns[i] => ms[i] # ms[i - 1])
         /\ LET RECURSIVE S(_)
                S(i) == IF i = 1 THEN 1 ELSE IF ns[i] THEN S(i - 1) + 1 ELSE S(i - 1)
            IN srv = [i \in 1..n |-> [sess |-> S(i), objs |-> ms[i]]]
  /\ base \in 0..(Len(srv) - 1)
  /\ arch = IF base = 0 THEN NoFile
            ELSE [ex |-> TRUE, sess |-> srv[base].sess, serial |-> base, lm |-> base, objs |-> srv[base].objs]
  /\ tmp = NoFile /\ pc = "idle" /\ target = 0 /\ di = 0 /\ ei = 0 /\ todo = {}
  /\ reported = FALSE /\ ann = Len(srv) /\ kills = 0 /\ runs = 0
  /\ h = <<>>

Step == RunStart \/ DeltaMark \/ DeltaApply \/ DeltaState \/ SnapObj \/ SnapState \/ SnapRemove \/ SnapRename

GNext ==
  /\ (runs = 0 \/ pc # "idle")
  /\ Step
  /\ h' = Append(h, [pc |-> pc', a |-> arch', el |-> IF pc = "delta_apply" /\ ei <= Len(Elems(di))
                                                       THEN <<Elems(di)[ei].old, Elems(di)[ei].new>> ELSE <<>>])
  /\ UNCHANGED base

GSpec == GInit /\ [][GNext]_<<vars, h, base>>

Emit == (runs = 1 /\ pc = "idle") =>
          PrintT(<<"REPLAY", ToJson([srv |-> srv, base |-> base, steps |-> h, ok |-> reported])>>)
=============================================================================
