\* a wrong reload (broken_clears, see ExceptionsReload.tla): TLC must reject it
SPECIFICATION MCSpec
CONSTANTS
  MaxEdits = 2
  Variant = "broken_clears"
INVARIANTS ServedExactly NeverWithoutExceptions RefusesToStartOnBrokenFile ServedIsLastGoodFile
CHECK_DEADLOCK FALSE
