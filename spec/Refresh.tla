------------------------------ MODULE Refresh ------------------------------
(***************************************************************************)
(* The refresh deadline of a served data set (property C39):               *)
(*   src/payload/validation.rs  ProcessRun::process_ta (127-140),          *)
(*       PubPointProcessor::{point_validity 171, process_ca 186,           *)
(*       process_roa 253, commit 295}, PubPoint::{new_ta 369, new_ca 374,  *)
(*       update_refresh 391}, SnapshotBuilder::{process_pub_point 635,     *)
(*       update_refresh 654}                                               *)
(*   src/engine.rs  PubPoint::process_collected (782: point_validity       *)
(*       before the manifest entries are walked in shuffled order),        *)
(*       ValidPointManifest::point_validity (1768)                         *)
(*                                                                         *)
(* World: TA = CA1 -> CA2 -> {CA3, CA4}; ROAs under every CA.  Every       *)
(* element that carries an expiry -- CA certificate notAfter, manifest EE  *)
(* certificate notAfter, manifest nextUpdate, CRL nextUpdate per CA, EE    *)
(* certificate notAfter per ROA -- gets an abstract time (hours from now). *)
(* At most MaxShort elements are "short", all others are Long.  Up to      *)
(* MaxFaults elements are faulty (a ROA that does not validate, or a CA    *)
(* certificate that does not validate) and contribute nothing; the pair    *)
(* "both ROAs of CA2" is always included, so that a CA without payload of  *)
(* its own but with contributing descendants occurs at both inner levels.  *)
(*                                                                         *)
(* Operational model: the engine's task queue; a publication point is      *)
(* worked off entry by entry in an arbitrary order (the shuffle), child    *)
(* CAs inherit the parent's refresh value *as it is at that moment*, a     *)
(* point is committed only if it produced payload, the snapshot takes the  *)
(* minimum over the committed points.  So the per-point value depends on   *)
(* the order: ROAs of the parent seen before a child certificate tighten   *)
(* the child's value as well.  C39 is an upper bound, so that is allowed.  *)
(* (The minimum over all points turns out not to depend on the order, see  *)
(* SnapshotOrderIndependent.)                                              *)
(*                                                                         *)
(* Declarative bound: Bound = Min over contributing objects o of           *)
(*   Min(times on the chain of o's CA, time of o).                         *)
(*                                                                         *)
(* Variant "code" transcribes the code; "nocrl", "noobj", "noinherit",     *)
(* "nomftee" are mutants that TLC must reject.                             *)
(***************************************************************************)
EXTENDS Naturals, FiniteSets, TLC

CONSTANTS Short,      \* set of short times, e.g. {5, 9}
          Long,       \* the default time, e.g. 30
          MaxShort,   \* how many elements may be short (0..2)
          FaultSites, \* "all" | "none"
          MaxFaults,  \* 1 or 2
          Variant

CAs == 1..4
Parent(c) == CASE c = 1 -> 0 [] c = 2 -> 1 [] c = 3 -> 2 [] c = 4 -> 2
Children(c) == {d \in CAs : Parent(d) = c}

(* Objects <<ca, n>>; "early" ones carry a file name that sorts before the *)
(* child certificates (hook H8 order), "late" ones after.                  *)
Objs  == {<<1, 1>>, <<2, 1>>, <<2, 2>>, <<3, 1>>, <<4, 1>>}
Early == {<<2, 1>>}
ObjsOf(c) == {o \in Objs : o[1] = c}

(* Elements carrying a time: uniform triples. *)
Cert(c)    == <<"cert", c, 0>>
MftEe(c)   == <<"mftee", c, 0>>
MftNext(c) == <<"mftnext", c, 0>>
CrlNext(c) == <<"crlnext", c, 0>>
ObjEl(o)   == <<"obj", o[1], o[2]>>
Elements == {Cert(c) : c \in CAs} \cup {MftEe(c) : c \in CAs} \cup {MftNext(c) : c \in CAs}
            \cup {CrlNext(c) : c \in CAs} \cup {ObjEl(o) : o \in Objs}

Sites == IF FaultSites = "none" THEN {}
         ELSE {ObjEl(o) : o \in Objs} \cup {Cert(2), Cert(3), Cert(4)}
FaultSets == {{}} \cup {{s} : s \in Sites}
             \cup (IF Sites # {} THEN {{ObjEl(<<2, 1>>), ObjEl(<<2, 2>>)}} ELSE {})
             \cup (IF MaxFaults >= 2 THEN {{r, s} : r \in Sites, s \in Sites} ELSE {})

AllLong == [e \in Elements |-> Long]
TimeAssignments ==
  {AllLong}
  \cup (IF MaxShort >= 1 THEN {[AllLong EXCEPT ![e] = s] : e \in Elements, s \in Short} ELSE {})
  \cup (IF MaxShort >= 2 THEN {[AllLong EXCEPT ![e1] = s1, ![e2] = s2] :
                                  e1 \in Elements, e2 \in Elements, s1 \in Short, s2 \in Short} ELSE {})

Min2(a, b) == IF a <= b THEN a ELSE b
MinSet(S) == CHOOSE m \in S : \A x \in S : m <= x
None == 9999       \* "no refresh time" (no point committed)

VARIABLES t,          \* element -> time
          faults,     \* the set of faulty elements
          queue,      \* pending CA tasks: [ca, init]  (CaTask with its PubPointProcessor)
          cur,        \* the point being processed: [ca, refresh, pending, payload] or [ca |-> 0]
          committed   \* set of [ca, refresh] pushed to the report (PubPointProcessor::commit)

vars == <<t, faults, queue, cur, committed>>

Idle == [ca |-> 0, refresh |-> 0, pending |-> {}, payload |-> FALSE]

CertOk(c) == Cert(c) \notin faults
ObjOk(o)  == ObjEl(o) \notin faults

Init ==
  /\ t \in TimeAssignments
  /\ faults \in FaultSets
  \* process_ta: PubPoint::new_ta(cert) -- refresh starts at the TA certificate's notAfter
  /\ queue = {[ca |-> 1, init |-> t[Cert(1)]]}
  /\ cur = Idle
  /\ committed = {}

(* ValidPointManifest::point_validity -> PubPointProcessor::point_validity *)
PointValidity(c) ==
  LET stale == IF Variant = "nocrl" THEN t[MftNext(c)] ELSE Min2(t[MftNext(c)], t[CrlNext(c)])
      ee    == IF Variant = "nomftee" THEN Long ELSE t[MftEe(c)]
  IN Min2(ee, stale)

Entries(c) == {Cert(d) : d \in Children(c)} \cup {ObjEl(o) : o \in ObjsOf(c)}

(* A thread takes a CA task; the manifest and CRL are fine; point_validity *)
(* is reported before any entry is looked at (engine.rs:782 / 1212).       *)
StartPoint(task) ==
  /\ cur.ca = 0
  /\ task \in queue
  /\ queue' = queue \ {task}
  /\ cur' = [ca |-> task.ca, refresh |-> Min2(task.init, PointValidity(task.ca)),
             pending |-> Entries(task.ca), payload |-> FALSE]
  /\ UNCHANGED <<t, faults, committed>>

(* One manifest entry, in whatever order the shuffle produced.             *)
ProcessEntry(e) ==
  /\ cur.ca # 0
  /\ e \in cur.pending
  /\ IF e[1] = "cert"
       THEN \* process_ca: PubPoint::new_ca(&self.pub_point, cert)
            /\ cur' = [cur EXCEPT !.pending = @ \ {e}]
            /\ queue' = IF CertOk(e[2])
                          THEN queue \cup {[ca |-> e[2],
                                            init |-> IF Variant = "noinherit" THEN t[e]
                                                     ELSE Min2(cur.refresh, t[e])]}
                          ELSE queue
       ELSE \* process_roa: add_roa, then update_refresh(ee.notAfter)
            /\ cur' = IF ObjOk(<<e[2], e[3]>>)
                        THEN [cur EXCEPT !.pending = @ \ {e}, !.payload = TRUE,
                                         !.refresh = IF Variant = "noobj" THEN @ ELSE Min2(@, t[e])]
                        ELSE [cur EXCEPT !.pending = @ \ {e}]
            /\ UNCHANGED queue
  /\ UNCHANGED <<t, faults, committed>>

(* accept_point -> commit: only points with payload reach the report.      *)
Commit ==
  /\ cur.ca # 0
  /\ cur.pending = {}
  /\ committed' = IF cur.payload THEN committed \cup {[ca |-> cur.ca, refresh |-> cur.refresh]} ELSE committed
  /\ cur' = Idle
  /\ UNCHANGED <<t, faults, queue>>

Done == queue = {} /\ cur.ca = 0

Next == \/ \E task \in queue : StartPoint(task)
        \/ \E e \in cur.pending : ProcessEntry(e)
        \/ Commit
        \/ (Done /\ UNCHANGED vars)

Spec == Init /\ [][Next]_vars /\ WF_vars(Next)

(* SnapshotBuilder::update_refresh over all committed points.              *)
SnapRefresh == IF committed = {} THEN None ELSE MinSet({p.refresh : p \in committed})

-----------------------------------------------------------------------------
(* Declarative side *)
RECURSIVE Anc(_)
Anc(c) == IF c = 0 THEN {} ELSE {c} \cup Anc(Parent(c))      \* c and its ancestors

Reachable(c) == \A a \in Anc(c) : CertOk(a)
ChainElements(c) == UNION {{Cert(a), MftEe(a), MftNext(a), CrlNext(a)} : a \in Anc(c)}
ChainMin(c) == MinSet({t[e] : e \in ChainElements(c)})

Contributing == {o \in Objs : ObjOk(o) /\ Reachable(o[1])}
ObjBound(o) == Min2(ChainMin(o[1]), t[ObjEl(o)])
Bound == IF Contributing = {} THEN None ELSE MinSet({ObjBound(o) : o \in Contributing})

(* The result of the operational model for a fixed entry order per point:  *)
(* B is the set of objects processed before the child certificates of     *)
(* their point.                                                            *)
RECURSIVE PointResults(_, _, _)
PointResults(c, init, B) ==
  LET r0   == Min2(init, PointValidity(c))
      ok   == {o \in ObjsOf(c) : ObjOk(o)}
      rE   == IF (ok \cap B) = {} THEN r0
              ELSE Min2(r0, MinSet({t[ObjEl(o)] : o \in (ok \cap B)}))
      rAll == IF ok = {} THEN r0 ELSE Min2(r0, MinSet({t[ObjEl(o)] : o \in ok}))
      rEv  == IF Variant = "noobj" THEN r0 ELSE rE
      rAv  == IF Variant = "noobj" THEN r0 ELSE rAll
  IN (IF ok = {} THEN {} ELSE {rAv})
     \cup UNION {PointResults(d, IF Variant = "noinherit" THEN t[Cert(d)] ELSE Min2(rEv, t[Cert(d)]), B)
                   : d \in {d \in Children(c) : CertOk(d)}}

ResultFor(B) == LET rs == PointResults(1, t[Cert(1)], B)
                 IN IF rs = {} THEN None ELSE MinSet(rs)
Sorted == ResultFor(Early)     \* hook H8: file name order
Lo     == ResultFor(Objs)      \* the tightest any order can give
Hi     == ResultFor({})        \* the loosest any order can give

-----------------------------------------------------------------------------
(* C39: the refresh deadline of the served data set is no later than the   *)
(* earliest expiry on the chain of any contributing object, nor than that  *)
(* of the object itself -- whatever the processing order.                  *)
C39_RefreshWithinBound == Done => SnapRefresh <= Bound

(* The same per committed publication point (stronger).                    *)
C39_PerPoint ==
  \A p \in committed : \A o \in ObjsOf(p.ca) : ObjOk(o) => p.refresh <= ObjBound(o)

(* A data set is served exactly if something contributes.                  *)
C39_DefinedIffPayload == Done => (SnapRefresh = None <=> Contributing = {})

(* Model sanity: every order lands between the two extreme orders, the     *)
(* loosest order gives exactly the bound.                                  *)
OrderWindow == Done => (Lo <= SnapRefresh /\ SnapRefresh <= Hi)
HiIsBound   == Hi = Bound
SortedInWindow == Lo <= Sorted /\ Sorted <= Hi
(* The per-point values depend on the order (a ROA of the parent seen      *)
(* before a child certificate is inherited by the child), the minimum over *)
(* the committed points does not: such a ROA makes the parent's point a    *)
(* committed one, so its time enters the minimum anyway.                   *)
SnapshotOrderIndependent == Lo = Hi

Terminates == <>Done
=============================================================================
