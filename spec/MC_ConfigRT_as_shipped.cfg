\* as shipped (expected to FAIL): same bound as MC_ConfigRT.cfg with the deviations D1-D5 of the pinned code.
\* Fixed names the deviations (D1..D5, see ConfigRT.tla) already repaired in /repo; after a `fix:` commit add its
\* id here (in all Gen_ConfigRT*.cfg and MC_ConfigRT_as_shipped.cfg) and drop the matching known: lines.
SPECIFICATION Spec
CONSTANTS
  Opts <- AllOpts
  MaxSet = 1
  Variant = "as_shipped"
  Fixed = {"D1", "D4"}
INVARIANTS TypeOK C35_PrintedFileAccepted C35_RoundTrip
CHECK_DEADLOCK FALSE
