\* as shipped (expected to FAIL): same bound as MC_ConfigRT.cfg with the deviations D1-D5 of the pinned code.
SPECIFICATION Spec
CONSTANTS
  Opts <- AllOpts
  MaxSet = 1
  Variant = "as_shipped"
INVARIANTS TypeOK C35_PrintedFileAccepted C35_RoundTrip
CHECK_DEADLOCK FALSE
