\* thorough export (1/4), pairs: kinds mft and ta, paths of <= 3 segments over {a, A, %2e%2e, ""},
\* 2 hosts x case x port x 2 modules; every pair of accepted URIs one edit apart.
SPECIFICATION Spec
CONSTANTS
  Variant = "as_shipped"
  Kinds = {"mft", "ta"}
  Mode = "near"
  HostsR = {"h.test", "g.test"}
  HostsH = {"h.test"}
  HCases = {"lower", "mixed"}
  SCases = {"lower"}
  Ports = {"", "873"}
  Mods = {"m", "n"}
  Segs = {"a", "A", "%2e%2e", ""}
  SegsAll = {"a"}
  NearSpread = 5
  MaxSegs = 3
INVARIANT Emit
CHECK_DEADLOCK FALSE
