------------------------------ MODULE MC_Rrdp ------------------------------
EXTENDS Rrdp
(* focus for the long-chain instances: one session, the newest version announced *)
OneSession == (\A i \in 1..Len(vers) : V(i).sess = 1) /\ ~moved /\ cur = Len(vers)
=============================================================================
