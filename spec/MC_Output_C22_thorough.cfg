\* thorough, C22: every string of <= 6 character classes {plain, quote, backslash, newline, tab, other control,
\* non-ASCII} at the status and metrics escaping sites (the formatter part is reduced to the empty data set).
SPECIFICATION Spec
CONSTANTS
  MaxItems = 0
  MaxSel = 0
  MaxStr = 6
  Variant = "intended"
INVARIANTS
  C22_StatusStringsRoundTrip
  C22_MetricsLabelsRoundTrip
  C22_NoRawSpecials
CHECK_DEADLOCK TRUE
