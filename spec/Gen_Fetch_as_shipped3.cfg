\* for tlc -simulate: counterexample schedules of the as-shipped rsync order with 3 threads (up to 3 fetches of one key)
SPECIFICATION GSpec
CONSTANTS
  Threads = {"T1", "T2", "T3"}
  Keys = {"k1"}
  MaxCalls = 1
  Order = "remove_then_insert"
  Check2Removes = FALSE
  OnlyBad = TRUE
  HostVariant = "intended"
INVARIANT Emit
CHECK_DEADLOCK FALSE
