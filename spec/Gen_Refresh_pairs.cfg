\* fault-free worlds with up to two short elements (all pairs, all value combinations)
SPECIFICATION GSpec
CONSTANTS
  Short <- ShortTimes
  Long = 30
  MaxShort = 2
  FaultSites = "none"
  MaxFaults = 1
  FaultKinds <- BadSigOnly
  Variant = "code"
INVARIANT Emit
CHECK_DEADLOCK FALSE
