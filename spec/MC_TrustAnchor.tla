--------------------------- MODULE MC_TrustAnchor ---------------------------
EXTENDS TrustAnchor
AllDl == AllDownloads
Bools == {TRUE, FALSE}
Clean == {FALSE}
=============================================================================
