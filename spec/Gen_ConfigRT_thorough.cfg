\* thorough export (1/2): as quick, plus every triple of settings at typical values
\* (command line where the option has a flag, config file otherwise).
\* Fixed names the deviations (D1..D5, see ConfigRT.tla) already repaired in /repo; after a `fix:` commit add its
\* id here (in all Gen_ConfigRT*.cfg and MC_ConfigRT_as_shipped.cfg) and drop the matching known: lines.
SPECIFICATION GSpec
CONSTANTS
  Opts <- AllOpts
  MaxSet = 3
  Variant = "as_shipped"
  Fixed = {"D1", "D4"}
  Targets = {0, 1, 2, 3}
  Combine = "typical"
INVARIANT Emit
CHECK_DEADLOCK FALSE
