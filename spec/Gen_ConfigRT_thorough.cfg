\* thorough export (1/2): as quick, plus every triple of settings at typical values
\* (command line where the option has a flag, config file otherwise).
SPECIFICATION GSpec
CONSTANTS
  Opts <- AllOpts
  MaxSet = 3
  Variant = "as_shipped"
  Targets = {0, 1, 2, 3}
  Combine = "typical"
INVARIANT Emit
CHECK_DEADLOCK FALSE
