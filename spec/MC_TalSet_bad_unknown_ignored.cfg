\* a wrong loader (unknown_ignored, see TalSet.tla): TLC must reject it
SPECIFICATION Spec
CONSTANTS
  Production = {"afrinic", "apnic", "arin", "lacnic", "ripe"}
  OtherBundled = {"nlnetlabs-testbed"}
  Unknown = "no-such-tal"
  Variant = "unknown_ignored"
INVARIANTS FailsInsteadOfShrinking ExactlyTheConfiguredSet RirTalsUnlessSwitchedOff NoTestbedUnasked
CHECK_DEADLOCK FALSE
