------------------------------ MODULE ConfigRT ------------------------------
(***************************************************************************)
(* The configuration round trip of Routinator: src/config.rs.              *)
(*                                                                         *)
(*   command line / config file  -->  Config  --to_toml-->  printed file   *)
(*                                             --from_config_file--> Config *)
(*                                                                         *)
(* This is an OPTION TABLE model.  For every key the config-file reader    *)
(* (Config::from_config_file, config.rs:906-1099) understands, the table   *)
(* gives                                                                   *)
(*   kind   the value type: how the command line parses it (GlobalArgs /   *)
(*          ServerArgs, config.rs:1783-2048) and which range the file      *)
(*          reader accepts (ConfigFile::take_*, config.rs:2150-2588);      *)
(*   flag   the command line option ("" = config file only);               *)
(*   pos    whether the flag is a global option or an option of the        *)
(*          `config` / `server` sub-command (Config::server_args);         *)
(*   print  the printing rule of Config::to_toml (config.rs:1335-1577):    *)
(*          "always", "when_set" (only if the Option is Some / the map is  *)
(*          not empty) or "never".                                         *)
(* Values are abstract boundary classes ("0", "u16max1", "i64max1", ...,   *)
(* "dquote", "nonutf8", ...); the replayer owns the dictionary class ->    *)
(* concrete text.                                                          *)
(*                                                                         *)
(* State machine:  SetFile(o, c)* / SetCli(o, c)*  ->  PrintCfg  ->  ReadCfg.    *)
(* Property C35:   Read(Print(cfg)) = cfg for every option.                *)
(*                                                                         *)
(* Variant = "as_shipped" is the pinned code:                              *)
(*   D1  to_toml never prints `no-rir-tals` and `tals`;                    *)
(*   D2  --validation-threads / --history parse as usize, the file reader  *)
(*       (take_small_usize, config.rs:2267) refuses values > 65535;        *)
(*   D3  insert_int (config.rs:1344-1350) prints every integer above       *)
(*       i64::MAX as i64::MAX;                                             *)
(*   D4  facility_to_string prints LOG_CLOCK_DAEMON as "clockdaemon", the  *)
(*       parser (syslog::Facility::from_str) only knows "clock_daemon";    *)
(*   D5  paths are printed with Path::display() (lossy), the command line  *)
(*       accepts paths that are not UTF-8.                                 *)
(* Variant = "intended" is a design that satisfies the property: the two   *)
(* keys are printed, the facility is printed under the name the parser     *)
(* knows, and the command line accepts exactly what a config file can      *)
(* carry (integers up to i64::MAX resp. 65535, UTF-8 paths).               *)
(* Fixed names the deviations already repaired in the tree, so that the    *)
(* export keeps predicting the code while repairs go in one by one.        *)
(***************************************************************************)
EXTENDS Naturals, Sequences, FiniteSets, TLC

CONSTANTS Opts,      \* the options under consideration (subset of DOMAIN Table)
          MaxSet,    \* bound on the number of settings (file entries + command line options)
          Variant,   \* "intended" | "as_shipped"
          Fixed      \* the deviations among "D1".."D5" already repaired in the tree (as_shipped only)

(* Deviation d of the pinned code is present. *)
Dev(d) == Variant = "as_shipped" /\ d \notin Fixed

R(kind, flag, pos, print) == [kind |-> kind, flag |-> flag, pos |-> pos, print |-> print]

(* The option table.  Keys are config file keys, in the order of           *)
(* from_config_file.                                                       *)
Table ==
     "repository-dir"          :> R("path",          "--repository-dir",          "global", "always")
  @@ "no-rir-tals"             :> R("switch",        "--no-rir-tals",             "global", "always")    \* D1
  @@ "tals"                    :> R("strlist",       "--tal",                     "global", "always")    \* D1
  @@ "extra-tals-dir"          :> R("optpath",       "--extra-tals-dir",          "global", "when_set")
  @@ "exceptions"              :> R("pathlist",      "--exceptions",              "global", "always")
  @@ "strict"                  :> R("switch",        "--strict",                  "global", "always")
  @@ "stale"                   :> R("policy",        "--stale",                   "global", "always")
  @@ "unsafe-vrps"             :> R("policy",        "--unsafe-vrps",             "global", "always")
  @@ "unknown-objects"         :> R("policy",        "--unknown-objects",         "global", "always")
  @@ "limit-v4-len"            :> R("u8_lim",        "--limit-v4-len",            "global", "when_set")
  @@ "limit-v6-len"            :> R("u8_lim",        "--limit-v6-len",            "global", "when_set")
  @@ "allow-dubious-hosts"     :> R("switch",        "--allow-dubious-hosts",     "global", "always")
  @@ "disable-rsync"           :> R("switch",        "--disable-rsync",           "global", "always")
  @@ "rsync-command"           :> R("str",           "--rsync-command",           "global", "always")
  @@ "rsync-args"              :> R("optstrlist",    "",                          "global", "when_set")
  @@ "rsync-timeout"           :> R("u64_zero_none", "--rsync-timeout",           "global", "always")
  @@ "disable-rrdp"            :> R("switch",        "--disable-rrdp",            "global", "always")
  @@ "rrdp-fallback"           :> R("fallback",      "--rrdp-fallback",           "global", "always")
  @@ "rrdp-fallback-time"      :> R("u64",           "--rrdp-fallback-time",      "global", "always")
  @@ "rrdp-max-delta-count"    :> R("usize",         "--rrdp-max-delta-count",    "global", "always")
  @@ "rrdp-max-delta-list-len" :> R("usize",         "--rrdp-max-delta-list-len", "global", "always")
  @@ "rrdp-timeout"            :> R("u64_zero_none", "--rrdp-timeout",            "global", "always")
  @@ "rrdp-read-timeout"       :> R("u64_zero_none", "--rrdp-read-timeout",       "global", "always")
  @@ "rrdp-connect-timeout"    :> R("u64_opt",       "--rrdp-connect-timeout",    "global", "when_set")
  @@ "rrdp-tcp-keepalive"      :> R("u64_zero_none", "--rrdp-tcp-keepalive",      "global", "always")
  @@ "rrdp-local-addr"         :> R("optaddr",       "--rrdp-local-addr",         "global", "when_set")
  @@ "rrdp-root-certs"         :> R("pathlist",      "--rrdp-root-cert",          "global", "always")
  @@ "rrdp-proxies"            :> R("strlist",       "--rrdp-proxy",              "global", "always")
  @@ "max-object-size"         :> R("u64_zero_none", "--max-object-size",         "global", "always")
  @@ "max-ca-depth"            :> R("usize",         "--max-ca-depth",            "global", "always")
  @@ "enable-bgpsec"           :> R("switch",        "--enable-bgpsec",           "global", "always")
  @@ "enable-aspa"             :> R("switch",        "--enable-aspa",             "global", "always")
  @@ "dirty"                   :> R("switch",        "--dirty-repository",        "global", "always")
  @@ "validation-threads"      :> R("small_usize",   "--validation-threads",      "global", "always")    \* D2
  @@ "log-level"               :> R("loglevel",      "-v/-q",                     "global", "always")
  @@ "log"                     :> R("log",           "--syslog/--logfile",        "global", "always")    \* keys log, syslog-facility, log-file
  @@ "log-repository-issues"   :> R("switch",        "--log-repository-issues",   "global", "always")
  @@ "refresh"                 :> R("u64",           "--refresh",                 "server", "always")
  @@ "min-refresh"             :> R("u64_opt",       "--min-refresh",             "server", "when_set")
  @@ "retry"                   :> R("u64",           "--retry",                   "server", "always")
  @@ "expire"                  :> R("u64",           "--expire",                  "server", "always")
  @@ "history-size"            :> R("small_usize",   "--history",                 "server", "always")    \* D2
  @@ "rtr-listen"              :> R("addrlist",      "--rtr",                     "server", "always")
  @@ "rtr-tls-listen"          :> R("addrlist",      "--rtr-tls",                 "server", "always")
  @@ "http-listen"             :> R("addrlist",      "--http",                    "server", "always")
  @@ "http-tls-listen"         :> R("addrlist",      "--http-tls",                "server", "always")
  @@ "systemd-listen"          :> R("switch",        "--systemd-listen",          "server", "always")
  @@ "rtr-tcp-keepalive"       :> R("u64_zero_none", "--rtr-tcp-keepalive",       "server", "always")
  @@ "rtr-client-metrics"      :> R("switch",        "--rtr-client-metrics",      "server", "always")
  @@ "rtr-tls-key"             :> R("optpath",       "--rtr-tls-key",             "server", "when_set")
  @@ "rtr-tls-cert"            :> R("optpath",       "--rtr-tls-cert",            "server", "when_set")
  @@ "http-tls-key"            :> R("optpath",       "--http-tls-key",            "server", "when_set")
  @@ "http-tls-cert"           :> R("optpath",       "--http-tls-cert",           "server", "when_set")
  @@ "pid-file"                :> R("optpath",       "--pid-file",                "server", "when_set")
  @@ "working-dir"             :> R("optpath",       "--working-dir",             "server", "when_set")
  @@ "chroot"                  :> R("optpath",       "--chroot",                  "server", "when_set")
  @@ "user"                    :> R("optstr",        "--user",                    "server", "when_set")
  @@ "group"                   :> R("optstr",        "--group",                   "server", "when_set")
  @@ "tal-labels"              :> R("map",           "",                          "server", "when_set")
  @@ "tal-dir"                 :> R("obsolete",      "",                          "global", "never")     \* read and ignored (config.rs:1090)

AllOpts == DOMAIN Table
KindF == [o \in AllOpts |-> Table[o].kind]          \* (constant-level functions are evaluated once by TLC)
Kind(o) == KindF[o]

(* One representative per kind (for the deeper bounded instances). *)
RepOpts == {"repository-dir", "no-rir-tals", "tals", "extra-tals-dir", "exceptions", "stale", "limit-v4-len",
            "rsync-command", "rsync-args", "rsync-timeout", "rrdp-fallback", "rrdp-connect-timeout",
            "rrdp-local-addr", "max-ca-depth", "validation-threads", "log-level", "log", "refresh",
            "rtr-listen", "user", "tal-labels"}

IntKinds  == {"u64", "u64_zero_none", "u64_opt", "usize", "small_usize"}
PathKinds == {"path", "optpath", "pathlist"}

-----------------------------------------------------------------------------
(* Boundary classes.                                                       *)

IntOrder == <<"neg", "0", "1", "typ", "u16max", "u16max1", "2p31", "i64max", "i64max1", "u64max", "over">>
U8Order  == <<"0", "1", "typ", "lim", "lim1", "256">>       \* lim = 32 resp. 128
RankIn(seq, c) == CHOOSE i \in 1..Len(seq) : seq[i] = c
LE(a, b) == RankIn(IntOrder, a) <= RankIn(IntOrder, b)
IntCls == {IntOrder[i] : i \in 1..Len(IntOrder)}
U8Cls  == {U8Order[i] : i \in 1..Len(U8Order)}

Facilities == {"kern", "user", "mail", "daemon", "auth", "syslog", "lpr", "news", "uucp", "cron", "authpriv",
               "ftp", "ntp", "audit", "alert", "clock_daemon", "local0", "local1", "local2", "local3",
               "local4", "local5", "local6", "local7"}
SyslogVals  == {"syslog:" \o f : f \in Facilities}
DefaultVals == {"default:" \o f : f \in Facilities}

StrCls == {"typ", "empty", "dquote", "squote", "backslash", "nonascii", "ctrl", "mixed"}

(* Classes that can be written on the command line for an option. *)
CliClasses(o) ==
  IF Table[o].flag = "" THEN {} ELSE
  CASE Kind(o) = "switch"              -> {"on"}
    [] Kind(o) \in IntKinds            -> IntCls \ {"neg"}
    [] Kind(o) = "u8_lim"              -> U8Cls
    [] Kind(o) = "policy"              -> {"reject", "warn", "accept", "bogus"}
    [] Kind(o) = "fallback"            -> {"never", "stale", "new", "bogus"}
    [] Kind(o) \in {"path", "optpath"} -> {"typ", "rel", "empty", "special", "ctrl", "nonutf8"}
    [] Kind(o) = "pathlist"            -> {"one", "several", "special", "nonutf8"}
    [] Kind(o) \in {"str", "optstr"}   -> StrCls \cup {"nonutf8"}
    [] Kind(o) = "strlist"             -> {"one", "several", "special"}
    [] Kind(o) = "addrlist"            -> {"one_v4", "one_v6", "several", "edges", "bogus"}
    [] Kind(o) = "optaddr"             -> {"v4", "v6", "v4mapped", "bogus"}
    [] Kind(o) = "loglevel"            -> {"v", "vv", "q", "qq"}
    [] Kind(o) = "log"                 -> {"syslog", "logfile", "logfile_special", "logfile_rel", "dash", "faconly"}
                                          \cup {"fac_" \o f : f \in Facilities}
    [] OTHER                           -> {}

(* Classes that can be written into a config file for a key. *)
FileClasses(o) ==
  CASE Kind(o) = "switch"              -> {"true", "false"}
    [] Kind(o) \in IntKinds            -> IntCls \ {"u64max", "over"}
    [] Kind(o) = "u8_lim"              -> U8Cls \ {"256"}
    [] Kind(o) = "policy"              -> {"reject", "warn", "accept", "bogus"}
    [] Kind(o) = "fallback"            -> {"never", "stale", "new", "bogus"}
    [] Kind(o) \in {"path", "optpath"} -> {"typ", "rel", "empty", "special", "ctrl"}
    [] Kind(o) = "pathlist"            -> {"empty", "one", "several", "special", "string"}
    [] Kind(o) \in {"str", "optstr"}   -> StrCls
    [] Kind(o) \in {"strlist", "optstrlist", "map"} -> {"empty", "one", "several", "special"}
    [] Kind(o) = "addrlist"            -> {"empty", "one_v4", "one_v6", "several", "edges"}
    [] Kind(o) = "optaddr"             -> {"v4", "v6", "v4mapped"}
    [] Kind(o) = "loglevel"            -> {"error", "warn", "info", "debug", "trace", "off", "mixedcase"}
    [] Kind(o) = "log"                 -> {"f_stderr", "f_file", "f_syslog", "f_default", "f_faconly", "f_clock"}
    [] Kind(o) = "obsolete"            -> {"typ"}
    [] OTHER                           -> {}

(* The "typical non-default value" used for combinations. *)
TypCli(o) ==
  CASE Kind(o) = "switch"              -> "on"
    [] Kind(o) \in IntKinds \cup {"u8_lim"} -> "typ"
    [] Kind(o) = "policy"              -> IF o = "unknown-objects" THEN "accept" ELSE "warn"
    [] Kind(o) = "fallback"            -> "new"
    [] Kind(o) \in {"path", "optpath", "str", "optstr"} -> "typ"
    [] Kind(o) \in {"pathlist", "strlist"} -> "several"
    [] Kind(o) = "addrlist"            -> "several"
    [] Kind(o) = "optaddr"             -> "v6"
    [] Kind(o) = "loglevel"            -> "vv"
    [] Kind(o) = "log"                 -> "fac_local3"
    [] OTHER                           -> "none"
TypFile(o) ==
  CASE Kind(o) = "switch"              -> "true"
    [] Kind(o) \in {"optstrlist", "map"} -> "several"
    [] Kind(o) = "loglevel"            -> "trace"
    [] Kind(o) = "log"                 -> "f_default"
    [] Kind(o) = "obsolete"            -> "typ"
    [] OTHER                           -> TypCli(o)

-----------------------------------------------------------------------------
(* What the parsers accept.                                                *)

(* The file reader: take_u64 / take_usize / take_small_usize /             *)
(* take_limited_u8 / take_from_str / take_path_array / ...  A TOML integer *)
(* is an i64, so nothing above i64::MAX can be written down at all.        *)
FileAccepts(o, c) ==
  IF c \in {"default", "lossy"} THEN TRUE           \* "lossy": a valid string, only not the original one
  ELSE CASE Kind(o) = "small_usize"         -> LE("0", c) /\ LE(c, "u16max")
         [] Kind(o) \in IntKinds \ {"small_usize"} -> LE("0", c) /\ LE(c, "i64max")
         [] Kind(o) = "u8_lim"              -> c \in {"0", "1", "typ", "lim"}
         [] Kind(o) \in {"policy", "fallback"} -> c # "bogus"
         [] Kind(o) = "pathlist"            -> (c = "string" => o = "exceptions")   \* take_path_array vs take_from_str_array
         [] Kind(o) = "log"                 -> c \in {"f_stderr", "f_file", "f_syslog", "f_default", "f_faconly", "f_clock",
                                                      "stderr", "file"} \cup SyslogVals \cup DefaultVals
         [] OTHER                           -> TRUE

(* The command line parser of the pinned code (clap value parsers). *)
CliParses(o, c) ==
  CASE Kind(o) \in IntKinds            -> LE("0", c) /\ LE(c, "u64max")     \* u64 / usize (64 bit)
    [] Kind(o) = "u8_lim"              -> c \in {"0", "1", "typ", "lim"}     \* value_parser!(u8).range(..=lim)
    [] Kind(o) \in {"policy", "fallback", "addrlist", "optaddr"} -> c # "bogus"
    [] Kind(o) \in {"str", "optstr"}   -> c # "nonutf8"                      \* String: clap demands UTF-8
    [] Kind(o) \in {"path", "optpath"} -> c # "empty"                        \* PathBuf takes any OsString but ""
    [] OTHER                           -> TRUE

(* Accepted on the command line.  The intended design accepts exactly what *)
(* a config file can carry and the reader takes back; each deviation       *)
(* widens the domain.                                                      *)
CliAccepts(o, c) ==
  /\ CliParses(o, c)
  /\ (Kind(o) \in IntKinds /\ ~LE(c, "i64max")) => Dev("D3")
  /\ (Kind(o) = "small_usize" /\ ~LE(c, "u16max")) => Dev("D2")
  /\ (Kind(o) \in PathKinds /\ c = "nonutf8") => Dev("D5")

-----------------------------------------------------------------------------
(* Abstract configuration values.                                          *)

Default(o) ==
  CASE Kind(o) = "switch"              -> "false"
    [] o = "stale"                     -> "reject"
    [] o = "unsafe-vrps"               -> "accept"
    [] o = "unknown-objects"           -> "warn"
    [] o = "rrdp-fallback"             -> "stale"
    [] Kind(o) \in {"u64_opt", "u8_lim", "optpath", "optstr", "optaddr", "optstrlist"} -> "none"
    [] Kind(o) \in {"pathlist", "strlist", "addrlist", "map"} -> "empty"
    [] Kind(o) = "loglevel"            -> "warn"
    [] Kind(o) = "log"                 -> "default:daemon"
    [] OTHER                           -> "default"

(* log_target_from_config_file, config.rs:1105 *)
LogFile(c) ==
  CASE c = "f_stderr"  -> "stderr"
    [] c = "f_file"    -> "file"
    [] c = "f_syslog"  -> "syslog:local5"
    [] c = "f_default" -> "default:local3"
    [] c = "f_faconly" -> "default:mail"
    [] c = "f_clock"   -> "syslog:clock_daemon"

(* apply_log_matches, config.rs:684: --syslog wins over --logfile; a      *)
(* facility without --syslog is ignored; --syslog alone keeps a facility   *)
(* the file already chose.                                                 *)
LogCli(c, base) ==
  CASE c = "syslog"   -> IF base \in SyslogVals THEN base ELSE "syslog:daemon"
    [] c \in {"logfile", "logfile_special", "logfile_rel"} -> "file"
    [] c = "dash"     -> "stderr"
    [] c = "faconly"  -> base
    [] OTHER          -> "syslog:" \o (CHOOSE f \in Facilities : c = "fac_" \o f)

NormFile(o, c) ==
  CASE Kind(o) = "u64_zero_none" /\ c = "0"   -> "none"
    [] Kind(o) = "loglevel" /\ c = "mixedcase" -> "info"
    [] Kind(o) = "pathlist" /\ c = "string"    -> "one"
    [] Kind(o) = "log"                         -> LogFile(c)
    [] Kind(o) = "obsolete"                    -> "default"
    [] OTHER                                   -> c

NormCli(o, c, base) ==
  CASE Kind(o) = "switch"                      -> "true"
    [] Kind(o) = "u64_zero_none" /\ c = "0"    -> "none"
    [] Kind(o) = "loglevel"                    -> (CASE c = "v" -> "info" [] c = "vv" -> "debug"
                                                     [] c = "q" -> "error" [] c = "qq" -> "off")
    [] Kind(o) = "log"                         -> LogCli(c, base)
    [] OTHER                                   -> c

-----------------------------------------------------------------------------
VARIABLES fin,       \* settings of the initial config file: option -> class | "unset"
          cli,       \* settings on the command line:         option -> class | "unset"
          nset,      \* number of settings made
          phase,     \* "set" | "printed" | "read"
          out,       \* the printed file: option -> token | "absent"
          back,      \* the configuration read back from the printed file
          rejected   \* the printed file was refused by the reader

vars == <<fin, cli, nset, phase, out, back, rejected>>

Unset == [o \in Opts |-> "unset"]

(* Constant-level tables (evaluated once): classes, defaults, and what an  *)
(* option that was not touched prints / reads back as.                     *)
FileCls == [o \in AllOpts |-> FileClasses(o)]
CliCls  == [o \in AllOpts |-> CliClasses(o)]
DefVal  == [o \in AllOpts |-> Default(o)]

IsSet(o) == fin[o] # "unset" \/ cli[o] # "unset"

(* create_base_config + apply_arg_matches + apply_server_arg_matches:      *)
(* command line over config file over default.                             *)
Eff(o) ==
  IF ~IsSet(o) THEN DefVal[o] ELSE
  LET base == IF fin[o] # "unset" THEN NormFile(o, fin[o]) ELSE DefVal[o]
  IN  IF cli[o] # "unset" THEN NormCli(o, cli[o], base) ELSE base

Init ==
  /\ fin = Unset /\ cli = Unset
  /\ nset = 0
  /\ phase = "set"
  /\ out = [o \in Opts |-> "absent"]
  /\ back = Unset
  /\ rejected = FALSE

(* An entry of the config file given with -c (from_config_file). *)
SetFile(o, c) ==
  /\ phase = "set" /\ nset < MaxSet
  /\ fin[o] = "unset"
  /\ c \in FileCls[o] /\ FileAccepts(o, c)
  /\ fin' = [fin EXCEPT ![o] = c]
  /\ nset' = nset + 1
  /\ UNCHANGED <<cli, phase, out, back, rejected>>

(* An option on the command line (apply_arg_matches / apply_server_arg_matches). *)
SetCli(o, c) ==
  /\ phase = "set" /\ nset < MaxSet
  /\ cli[o] = "unset"
  /\ c \in CliCls[o] /\ CliAccepts(o, c)
  /\ cli' = [cli EXCEPT ![o] = c]
  /\ nset' = nset + 1
  /\ UNCHANGED <<fin, phase, out, back, rejected>>

PrintRule(o) ==
  IF Dev("D1") /\ o \in {"no-rir-tals", "tals"} THEN "never"                   \* D1
  ELSE Table[o].print

(* The token to_toml writes for value v of option o. *)
Token(o, v) ==
  IF PrintRule(o) = "never" THEN "absent"
  ELSE IF Kind(o) = "u64_zero_none" /\ v = "none" THEN "0"
  ELSE IF PrintRule(o) = "when_set" /\ (v = "none" \/ (Kind(o) = "map" /\ v = "empty")) THEN "absent"
  ELSE IF v = "default" THEN v
  ELSE IF Kind(o) \in IntKinds /\ ~LE(v, "i64max") THEN "i64max"                             \* D3: unwrap_or(i64::MAX)
  ELSE IF Kind(o) \in PathKinds /\ v = "nonutf8" THEN "lossy"                                \* D5: display()
  ELSE IF Kind(o) = "log" /\ Dev("D4") /\ v = "syslog:clock_daemon" THEN "syslog:clockdaemon"    \* D4
  ELSE IF Kind(o) = "log" /\ Dev("D4") /\ v = "default:clock_daemon" THEN "default:clockdaemon"  \* D4
  ELSE v

DefTok == [o \in AllOpts |-> Token(o, DefVal[o])]

(* `routinator config`: PrintConfig::run prints Config's Display = to_toml. *)
PrintCfg ==
  /\ phase = "set"
  /\ phase' = "printed"
  /\ out' = [o \in Opts |-> IF IsSet(o) THEN Token(o, Eff(o)) ELSE DefTok[o]]
  /\ UNCHANGED <<fin, cli, nset, back, rejected>>

ReadTok(o, t) ==
  CASE t = "absent"                            -> DefVal[o]
    [] t # "absent" /\ Kind(o) = "u64_zero_none" /\ t = "0" -> "none"
    [] OTHER                                   -> t

DefBack == [o \in AllOpts |-> ReadTok(o, DefTok[o])]
DefOk   == [o \in AllOpts |-> DefTok[o] = "absent" \/ FileAccepts(o, DefTok[o])]

(* routinator -c <printed file>: from_config_file. *)
ReadCfg ==
  /\ phase = "printed"
  /\ phase' = "read"
  /\ rejected' = (\E o \in Opts : IF IsSet(o) THEN out[o] # "absent" /\ ~FileAccepts(o, out[o]) ELSE ~DefOk[o])
  /\ back' = [o \in Opts |-> IF IsSet(o) THEN ReadTok(o, out[o]) ELSE DefBack[o]]
  /\ UNCHANGED <<fin, cli, nset, out>>

Next ==
  \/ /\ phase = "set" /\ nset < MaxSet
     /\ \E o \in Opts : (\E c \in FileCls[o] : SetFile(o, c)) \/ (\E d \in CliCls[o] : SetCli(o, d))
  \/ PrintCfg
  \/ ReadCfg

Spec == Init /\ [][Next]_vars

-----------------------------------------------------------------------------
TypeOK ==
  /\ phase \in {"set", "printed", "read"}
  /\ \A o \in Opts : fin[o] = "unset" \/ fin[o] \in FileCls[o]
  /\ \A o \in Opts : cli[o] = "unset" \/ cli[o] \in CliCls[o]
  /\ rejected \in BOOLEAN

(* C35: the printed file is accepted ... *)
C35_PrintedFileAccepted == (phase = "read") => ~rejected
(* ... and yields an identical configuration, option by option. *)
C35_RoundTrip == (phase = "read") => \A o \in Opts : back[o] = Eff(o)

(* The options the model expects NOT to survive (used by the export). *)
Lost == {o \in Opts : back[o] # Eff(o)}
=============================================================================
