\* seeded fault: vrps retries although the clean-up before the retry failed and only uses up its one retry when it worked; TLC must reject it
SPECIFICATION Spec
CONSTANTS
  MaxLen = 4
  Variant = "retry_despite_failed_sanitize"
  Times = {1, 2, 3, 4}
INVARIANTS C32_OneShotRuns C32_OneShotTerminates C32_OneShotErrorStatus C32_ServerRetriesOnce C32_FatalStops C34_Table
PROPERTIES C33_FailedRunChangesNothing
CHECK_DEADLOCK FALSE
