---------------------------- MODULE Gen_Archive ----------------------------
(* Behaviour export for the spec -> implementation replay of Archive.      *)
(* One behaviour = MaxOps operations on a freshly created archive.  Each   *)
(* step carries: the operation <<op, name, len, meta, check>>, the result  *)
(* a map gives (r), the branch the model takes (path), and after the step  *)
(* the abstract map, the block layout front to back                        *)
(* (<<start, size, empty?, name, len>>), the statistics verify() should    *)
(* return and the file size.                                               *)
(*                                                                         *)
(* Mode "exhaustive": every sequence of successful publish / update /      *)
(* delete operations (update and delete with a check that accepts exactly  *)
(* the stored meta value) with at most MaxReopen reopens in between (the    *)
(* replayer additionally reopens after the last step of every behaviour    *)
(* and, for a share of the behaviours, after every step); "a" and "b" are  *)
(* interchangeable, so "b" is only published once "a" has been.            *)
(* Failing and read-only operations are stuttering steps of the spec; the  *)
(* replayer issues all of them after every step and decides them against   *)
(* the exported map.                                                       *)
(* Mode "walk": NWalks pseudo random walks (a Lehmer generator seeded by    *)
(* the walk number and Seed) over the whole alphabet including duplicate   *)
(* publishes, operations on missing names, rejecting checks, fetches and   *)
(* reopens.                                                                *)
EXTENDS Archive, Json, FiniteSetsExt, SequencesExt

CONSTANTS Mode,        \* "exhaustive" | "walk"
          MaxReopen,   \* exhaustive mode: number of reopen steps allowed inside a behaviour
          NWalks,      \* walk mode: number of random walks
          Seed         \* walk mode: seed of the pseudo random choices (VERIF_SEED)
VARIABLES h,          \* history variable: the steps taken with the expected observations
          walk,       \* number of the random walk (walk mode)
          rnd         \* state of the pseudo random generator of the walk

GBucketOf == [n \in Names |-> IF n \in {"a", "b"} THEN 1 ELSE IF n = "c" THEN 2 ELSE 3]

Lo(S)    == CHOOSE x \in S : \A y \in S : x <= y
Other(m) == IF \E x \in Metas : x # m THEN CHOOSE x \in Metas : x # m ELSE m

MapList == { <<n, amap[n].meta, amap[n].len, amap[n].tag>> : n \in {x \in Names : amap[x].p} }

IsOp(i, o)   == h[i].op[1] = o
LastIsReopen == h # <<>> /\ IsOp(Len(h), "reopen")
NReopen      == Cardinality({i \in 1..Len(h) : IsOp(i, "reopen")})
SymOK(n)     == n # "b" \/ \E i \in 1..Len(h) : IsOp(i, "publish") /\ h[i].op[2] = "a"

(* The record appended for a step; primed parts are the state after it. *)
Rec(op, r, path) ==
  h' = Append(h, [op |-> op, r |-> r, path |-> path,
                  map |-> MapList', lay |-> Layout(disk)', st |-> Stats(disk)', fs |-> disk'.fsize])

Ok == <<"ok">>

-----------------------------------------------------------------------------
XNext ==
  \/ \E n \in Names, l \in Lens :
        /\ ~amap[n].p /\ SymOK(n)
        /\ Publish(n, Lo(Metas), l)
        /\ Rec(<<"publish", n, l, Lo(Metas), AnyMeta>>, APublishRes(n), PublishPath(disk, l))
  \/ \E n \in Names, l \in Lens :
        /\ amap[n].p
        /\ Update(n, Other(amap[n].meta), l, amap[n].meta)
        /\ Rec(<<"update", n, l, Other(amap[n].meta), amap[n].meta>>, AAccessRes(n, amap[n].meta),
               UpdatePath(disk, n, l))
  \/ \E n \in Names :
        /\ amap[n].p
        /\ Delete(n, amap[n].meta)
        /\ Rec(<<"delete", n, 0, 0, amap[n].meta>>, AAccessRes(n, amap[n].meta), DeletePath(disk, Find(disk, n)))
  \/ /\ h # <<>> /\ NReopen < MaxReopen /\ ~LastIsReopen /\ Len(h) < MaxOps - 1
     /\ Reopen
     /\ Rec(<<"reopen", NoName, 0, 0, AnyMeta>>, <<"reopened">>, "")

-----------------------------------------------------------------------------
(* Mode "walk": NWalks independent pseudo random walks.  A step draws two  *)
(* numbers: the first selects the kind of operation (6/16 publish, 5/16    *)
(* update, 2/16 delete, 1/16 each fetch, fetch_if, reopen) and whether the *)
(* name is taken from those for which the operation succeeds (7/8) or from *)
(* all names; the second selects length, meta value, check (1/6 rejecting, *)
(* 1/3 accept-all, 1/2 accept-stored) and name.  Failing operations        *)
(* (duplicate publish, missing name, rejecting check) are part of the walk.*)
NoOp == <<"reopen", NoName, 0, 0, AnyMeta>>

Pick(S, r)  == LET q == SetToSeq(S) IN q[1 + (r % Len(q))]
PresentSet  == {n \in Names : amap[n].p}

WalkOp(r1, r2) ==
  LET k   == r1 % 16
      sel == (r1 \div 16) % 8
      l   == Pick(Lens, r2)
      m   == Pick(Metas, r2 \div 8)
      cc  == (r2 \div 16) % 6
      NameFor(pref) == IF sel # 0 /\ pref # {} THEN Pick(pref, r2 \div 128) ELSE Pick(Names, r2 \div 128)
      ChkFor(n) == IF ~amap[n].p THEN (IF cc = 0 THEN Pick(Metas, r2) ELSE AnyMeta)
                   ELSE IF cc = 0 THEN Other(amap[n].meta)
                   ELSE IF cc < 3 THEN AnyMeta ELSE amap[n].meta
  IN IF k < 6 THEN <<"publish", NameFor(Names \ PresentSet), l, m, AnyMeta>>
     ELSE IF k < 11 THEN LET n == NameFor(PresentSet) IN <<"update", n, l, m, ChkFor(n)>>
     ELSE IF k < 13 THEN LET n == NameFor(PresentSet) IN <<"delete", n, 0, 0, ChkFor(n)>>
     ELSE IF k = 13 THEN <<"fetch", Pick(Names, r2 \div 128), 0, 0, AnyMeta>>
     ELSE IF k = 14 \/ LastIsReopen \/ h = <<>> THEN <<"fetch_if", Pick(Names, r2 \div 128), 0, 0, Pick(Metas, r2)>>
     ELSE NoOp

Do(o) ==
  CASE o[1] = "publish"  -> /\ Publish(o[2], o[4], o[3])
                            /\ Rec(o, APublishRes(o[2]), IF APublishRes(o[2]) = Ok THEN PublishPath(disk, o[3]) ELSE "")
    [] o[1] = "update"   -> /\ Update(o[2], o[4], o[3], o[5])
                            /\ Rec(o, AAccessRes(o[2], o[5]),
                                   IF AAccessRes(o[2], o[5]) = Ok THEN UpdatePath(disk, o[2], o[3]) ELSE "")
    [] o[1] = "delete"   -> /\ Delete(o[2], o[5])
                            /\ Rec(o, AAccessRes(o[2], o[5]),
                                   IF AAccessRes(o[2], o[5]) = Ok THEN DeletePath(disk, Find(disk, o[2])) ELSE "")
    [] o[1] = "fetch"    -> /\ Fetch(o[2])
                            /\ Rec(o, AFetchRes(o[2]), "")
    [] o[1] = "fetch_if" -> /\ FetchIf(o[2], o[5])
                            /\ Rec(o, AFetchIfRes(o[2], o[5]), "")
    [] o[1] = "reopen"   -> /\ Reopen
                            /\ Rec(o, <<"reopened">>, "")

(* Linear congruential generator modulo 65537 (fits TLC's 32-bit integers). *)
Lehmer(x) == (x * 75 + 74) % 65537
WNext == \E o \in {WalkOp(rnd, Lehmer(rnd))} :
            /\ Do(o)
            /\ rnd' = Lehmer(Lehmer(rnd))

GInit == /\ Init /\ h = <<>>
         /\ walk \in 1..(IF Mode = "walk" THEN NWalks ELSE 1)
         /\ rnd = Lehmer(Lehmer((walk * 7919 + Seed * 10007) % 65537))
GNext == /\ nops < MaxOps
         /\ IF Mode = "walk" THEN WNext ELSE (XNext /\ UNCHANGED rnd)
         /\ UNCHANGED walk
GSpec == GInit /\ [][GNext]_<<vars, h, walk, rnd>>

(* Print complete behaviours only. *)
Cfg  == [page |-> Page, header |-> Header, namemeta |-> NameMeta, indexend |-> IndexEnd, buckets |-> BucketOf,
         long |-> [n \in Names |-> n \in LongNames]]
Emit == (Len(h) = MaxOps) => PrintT(<<"REPLAY", ToJson([c |-> Cfg, steps |-> h])>>)
=============================================================================
