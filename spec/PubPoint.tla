------------------------------ MODULE PubPoint ------------------------------
(***************************************************************************)
(* One publication point over consecutive validation runs:                 *)
(* src/engine.rs PubPoint::process / process_collected /                   *)
(* check_collected_is_newer / process_stored and src/store.rs              *)
(* StoredPoint::{open, update, reject}.                                    *)
(*                                                                         *)
(* The environment publishes manifest versions (number, thisUpdate, a      *)
(* fixed set of file names whose content differs per version) and may      *)
(* break a fetch (manifest missing / invalid / premature / stale, a listed *)
(* file missing or not matching its hash, repository unreachable).  The    *)
(* engine walks the manifest entries in some order, feeding valid objects  *)
(* to the payload processor while copying them to a temporary file, and    *)
(* either persists the new version or falls back to the stored one.        *)
(*                                                                         *)
(* A fetch that fails as a whole (repository unreachable) leaves the        *)
(* collector's working copy as the last successful transfer left it, and   *)
(* the engine evaluates that copy (collector/rsync.rs load_module inserts  *)
(* the module into `updated` "no matter what").  So a version transferred  *)
(* earlier but refused at the time (stale under reject) is looked at again *)
(* under the policy of the current run: variable `copy`.                   *)
(*                                                                         *)
(* Variant "as_shipped": after an aborted update the processor is not      *)
(* restarted (engine.rs:709-712) -- payload of the abandoned manifest is   *)
(* committed together with the stored objects.  "intended": restart().     *)
(*                                                                         *)
(* Properties: C03 (one consistent object set), C04 (store holds only      *)
(* complete verified points), C05 (no rollback), C06 on the stored path.   *)
(***************************************************************************)
EXTENDS Naturals, Sequences, FiniteSets, TLC

CONSTANTS Files,      \* file names listed on every manifest version, e.g. {1, 2}
          Nums,       \* manifest numbers / thisUpdate values, e.g. 1..3
          MaxRuns,
          Variant

NoVer == [id |-> 0, num |-> 0, this |-> 0, stale |-> FALSE]

(* A version: identity, manifest number, thisUpdate, and whether its       *)
(* nextUpdate has passed by the time it is looked at.                      *)
Versions == [id : {1, 2}, num : Nums, this : Nums, stale : BOOLEAN]

Payload(v) == IF v.id = 0 THEN {} ELSE {<<v.id, f>> : f \in Files}
Orders == {o \in [1..Cardinality(Files) -> Files] : \A i, j \in DOMAIN o : i # j => o[i] # o[j]}

MftConds  == {"ok", "missing", "invalid", "premature", "unreachable"}
FileConds == {"ok", "missing", "badhash"}

VARIABLES v1, v2,      \* the two versions of this world
          policy,      \* stale policy of the current run
          stored,      \* version held by the store (NoVer: none)
          committed,   \* payload the last run contributed for this CA
          accepted,    \* whether the last run accepted the point
          last,        \* what the last run looked at and did: [pub, mc, avail, order, path, before]
          copy,        \* the collector's working copy: what the last transfer that got through brought
          runs

vars == <<v1, v2, policy, stored, committed, accepted, last, copy, runs>>

NoCopy == [pub |-> NoVer, mc |-> "none", avail |-> <<>>, order |-> <<>>]

Init ==
  /\ v1 \in {v \in Versions : v.id = 1 /\ v.num = 2 /\ v.this = 2}
  /\ v2 \in {v \in Versions : v.id = 2}
  /\ policy = "accept"
  /\ stored = NoVer
  /\ committed = {}
  /\ accepted = FALSE
  /\ last = [pub |-> NoVer, mc |-> "none", avail |-> <<>>, order |-> <<>>, path |-> "none", before |-> NoVer]
  /\ copy = NoCopy
  /\ runs = 0

StaleRejected(v) == v.stale /\ policy' = "reject"

(* Payload fed to the processor before the update was abandoned: entries   *)
(* are processed in `order` until the first unavailable one.               *)
RECURSIVE Fed(_, _, _, _)
Fed(p, avail, order, i) ==
  IF i > Len(order) THEN {}
  ELSE IF avail[order[i]] # "ok" THEN {}
  ELSE {<<p.id, order[i]>>} \cup Fed(p, avail, order, i + 1)

AllOk(avail) == \A f \in Files : avail[f] = "ok"

(* process_stored (engine.rs:1178): validate the stored manifest (stale    *)
(* policy), process all stored objects, accept; no stored manifest or an   *)
(* unacceptable one: reject.  `pp` is what the processor already holds.    *)
StoredPath(pp) ==
  IF stored.id = 0 \/ StaleRejected(stored)
    THEN /\ committed' = {} /\ accepted' = FALSE
    ELSE /\ committed' = (IF Variant = "as_shipped" THEN pp ELSE {}) \cup Payload(stored)
         /\ accepted' = TRUE

(* What the engine finds in the working copy in a run where the           *)
(* environment offers (p, mc, avail, order).                                *)
Seen(p, mc, avail, order) ==
  IF mc = "unreachable" THEN copy ELSE [pub |-> p, mc |-> mc, avail |-> avail, order |-> order]

(* One validation run for this publication point. *)
Run(p0, mc0, avail0, order0, pol) ==
  /\ runs' = runs + 1
  /\ policy' = pol
  /\ UNCHANGED <<v1, v2>>
  /\ copy' = Seen(p0, mc0, avail0, order0)
  /\ LET e     == Seen(p0, mc0, avail0, order0)
         p     == e.pub
         mc    == e.mc
         avail == e.avail
         order == e.order
         newer == stored.id = 0 \/ (p.num > stored.num /\ p.this > stored.this)
         same  == stored.id # 0 /\ stored.id = p.id
     IN
     IF mc \in {"none", "missing"} \/ same \/ mc \in {"invalid", "premature"}
        \/ (p.stale /\ pol = "reject") \/ ~newer
       THEN \* no usable update: the stored version is used, store untouched
            /\ StoredPath({})
            /\ UNCHANGED stored
            /\ last' = [pub |-> p, mc |-> mc, avail |-> avail, order |-> order, path |-> "stored", before |-> stored]
       ELSE IF AllOk(avail)
         THEN \* store.update succeeds: persist, commit the new set
              /\ stored' = p
              /\ committed' = Payload(p)
              /\ accepted' = TRUE
              /\ last' = [pub |-> p, mc |-> mc, avail |-> avail, order |-> order, path |-> "updated", before |-> stored]
         ELSE \* UpdateError::Abort after some entries were processed
              /\ StoredPath(Fed(p, avail, order, 1))
              /\ UNCHANGED stored
              /\ last' = [pub |-> p, mc |-> mc, avail |-> avail, order |-> order, path |-> "aborted", before |-> stored]

Next ==
  \E p \in {v1, v2}, mc \in MftConds, avail \in [Files -> FileConds], order \in Orders,
     pol \in {"accept", "reject"} :
       Run(p, mc, avail, order, pol)

Spec == Init /\ [][Next]_vars

-----------------------------------------------------------------------------
(* C03: what a CA contributes comes from one manifest's object set. *)
C03_OneObjectSet ==
  runs > 0 => committed \in {{}, Payload(last.pub), Payload(last.before)}

(* C04: the store changes only for a valid manifest with all listed files  *)
(* retrieved; otherwise it is unchanged and still usable.                  *)
C04_StoreOnlyComplete ==
  (runs > 0 /\ stored # last.before) =>
     /\ last.mc = "ok" /\ AllOk(last.avail)
     /\ ~(last.pub.stale /\ policy = "reject")
     /\ stored = last.pub
C04_FailedFetchKeepsStored ==
  (runs > 0 /\ last.path # "updated") =>
     /\ stored = last.before
     /\ (stored.id # 0 /\ ~(stored.stale /\ policy = "reject")) => committed = Payload(stored)

(* C05: no rollback. *)
C05_NoRollback ==
  (runs > 0 /\ stored # last.before /\ last.before.id # 0) =>
     stored.num > last.before.num /\ stored.this > last.before.this

(* C06 on the stored path. *)
C06_StoredStaleRejected ==
  (runs > 0 /\ last.path # "updated" /\ stored.id # 0 /\ stored.stale /\ policy = "reject") =>
     committed = {} /\ ~accepted
C06_StoredStaleTolerated ==
  (runs > 0 /\ last.path # "updated" /\ stored.id # 0 /\ stored.stale /\ policy # "reject") =>
     accepted /\ committed = Payload(stored)

=============================================================================
