\* worlds with at most one short element x every set of up to two faulty elements (BadSig or Expired)
SPECIFICATION GSpec
CONSTANTS
  Short <- ShortTimes
  Long = 30
  MaxShort = 1
  FaultSites = "all"
  MaxFaults = 2
  FaultKinds <- BothKinds
  Variant = "code"
INVARIANT Emit
CHECK_DEADLOCK FALSE
