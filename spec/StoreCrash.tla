----------------------------- MODULE StoreCrash -----------------------------
(***************************************************************************)
(* The store's file operations during one validation run, with the process *)
(* killed at any point: src/store.rs StoredPoint::{open, create, update,   *)
(* reject}, Run::done (status.bin), Run::update_ta via utils::fatal.       *)
(*                                                                         *)
(* One publication point file, the temporary file it is built in, the      *)
(* status file, one trust anchor file.  Content classes:                   *)
(*   point  : absent | empty | attempt (header only, LastAttempt) |        *)
(*            old | new (complete stored versions)                         *)
(*   tmp    : none | partial | complete                                    *)
(*   status : absent | empty | ok                                          *)
(*   ta     : absent | empty | ok                                          *)
(* A run is a sequence of file operations; Kill may strike between any two *)
(* (a kill leaves the file system as it is: no buffered data, no cleanup). *)
(* Recovery = what the next command does when it finds that state.         *)
(*                                                                         *)
(* Variant "as_shipped": an empty (truncated) status.bin makes             *)
(* Store::status fail, so `vrps --update-after` exits with an error until  *)
(* some other run rewrites the file ("intended": unreadable = no status);  *)
(* and the trust anchor certificate is truncated before it is written, so  *)
(* a kill in between leaves a run without updates with no trust anchor     *)
(* ("intended": temporary file + rename).                                  *)
(***************************************************************************)
EXTENDS Naturals, Sequences, TLC

CONSTANTS Variant

VARIABLES point, tmp, status, ta, pc, alive, scenario
vars == <<point, tmp, status, ta, pc, alive, scenario>>

Scenarios == {"fresh", "update", "reattempt", "attempt_then_ok", "reject"}

Init ==
  /\ scenario \in Scenarios
  /\ point = CASE scenario = "fresh" -> "absent"
               [] scenario = "update" -> "old"
               [] scenario = "reattempt" -> "attempt"
               [] scenario = "attempt_then_ok" -> "attempt"
               [] scenario = "reject" -> "old"
  /\ tmp = "none"
  /\ status = IF scenario = "fresh" THEN "absent" ELSE "ok"
  /\ ta = IF scenario = "fresh" THEN "absent" ELSE "ok"
  /\ pc = "ta_truncate"
  /\ alive = TRUE

Step(from, to) == pc = from /\ pc' = to

(* update_ta.  As shipped: fs::write = truncate, then write.  Intended      *)
(* (and since the repair): written to a temporary file and renamed, so the *)
(* certificate file is never seen truncated.                               *)
TaTruncate == Step("ta_truncate", "ta_write")
              /\ ta' = (IF Variant = "as_shipped" THEN "empty" ELSE ta)
              /\ UNCHANGED <<point, tmp, status>>
TaWrite    == Step("ta_write", "open") /\ ta' = "ok" /\ UNCHANGED <<point, tmp, status>>

(* StoredPoint::open *)
Open ==
  /\ pc = "open"
  /\ CASE point \in {"absent", "empty", "torn"} -> pc' = "create_creat"  \* not found / header cut short: create
       [] point = "attempt" -> pc' = "reopen_truncate"
       [] OTHER -> pc' = IF scenario = "reject" THEN "reject_truncate" ELSE "tmp_header"
  /\ UNCHANGED <<point, tmp, status, ta>>
CreateCreat  == Step("create_creat", "create_write") /\ point' = "empty" /\ UNCHANGED <<tmp, status, ta>>
CreateWrite  == Step("create_write", IF scenario = "reattempt" THEN "done_truncate" ELSE "tmp_header")
                /\ point' = "attempt" /\ UNCHANGED <<tmp, status, ta>>
ReopenTrunc  == Step("reopen_truncate", "reopen_write") /\ point' = "empty" /\ UNCHANGED <<tmp, status, ta>>
ReopenWrite  == Step("reopen_write", IF scenario = "reattempt" THEN "done_truncate" ELSE "tmp_header")
                /\ point' = "attempt" /\ UNCHANGED <<tmp, status, ta>>
(* check_collected_is_newer finds the stored copy inconsistent: reject() *)
RejectTrunc  == Step("reject_truncate", "reject_write") /\ point' = "empty" /\ UNCHANGED <<tmp, status, ta>>
RejectWrite  == Step("reject_write", "tmp_header") /\ point' = "attempt" /\ UNCHANGED <<tmp, status, ta>>

(* StoredPoint::update: build in tmp, then rename over the point file *)
TmpHeader   == Step("tmp_header", "tmp_objects") /\ tmp' = "partial" /\ UNCHANGED <<point, status, ta>>
TmpObjects  == Step("tmp_objects", "tmp_flush") /\ tmp' = "partial" /\ UNCHANGED <<point, status, ta>>
TmpFlush    == Step("tmp_flush", "persist") /\ tmp' = "complete" /\ UNCHANGED <<point, status, ta>>
Persist     == Step("persist", "cleanup_tmp") /\ tmp = "complete" /\ point' = "new" /\ tmp' = "none" /\ UNCHANGED <<status, ta>>
CleanupTmp  == Step("cleanup_tmp", "done_truncate") /\ tmp' = "none" /\ UNCHANGED <<point, status, ta>>

(* Run::done: create_file (truncate), then write *)
DoneTrunc   == Step("done_truncate", "done_write") /\ status' = "empty" /\ UNCHANGED <<point, tmp, ta>>
DoneWrite   == Step("done_write", "finished") /\ status' = "ok" /\ UNCHANGED <<point, tmp, ta>>

Kill == alive /\ pc # "finished" /\ alive' = FALSE /\ UNCHANGED <<point, tmp, status, ta, pc, scenario>>

(* The header is written in pieces (version, length of a URI, its bytes,    *)
(* ...): a kill between them leaves a header cut short.  Reading it ends in *)
(* an early end of file, which StoredPoint::open takes like "no such file". *)
(* Seeded fault "torn_is_fatal": the early end is reported as a hard error.  *)
KillMidHeader ==
  /\ alive /\ pc \in {"create_write", "reopen_write", "reject_write"}
  /\ point' = "torn" /\ alive' = FALSE
  /\ UNCHANGED <<tmp, status, ta, pc, scenario>>

Ops == TaTruncate \/ TaWrite \/ Open \/ CreateCreat \/ CreateWrite \/ ReopenTrunc \/ ReopenWrite
       \/ RejectTrunc \/ RejectWrite \/ TmpHeader \/ TmpObjects \/ TmpFlush \/ Persist \/ CleanupTmp
       \/ DoneTrunc \/ DoneWrite
Next == (alive /\ Ops /\ UNCHANGED <<alive, scenario>>) \/ Kill \/ KillMidHeader
Spec == Init /\ [][Next]_vars

-----------------------------------------------------------------------------
(* What the next command makes of the state it finds. *)
PointUsable == point \in {"absent", "empty", "attempt", "old", "new"}     \* empty: unreadable header, re-created
               \/ (point = "torn" /\ Variant # "torn_is_fatal")
StoredVersion == IF point \in {"old", "new"} THEN point ELSE "none"
StatusReadable == status \in {"absent", "ok"} \/ (Variant = "intended" /\ status = "empty")
TaUsable == TRUE     \* an empty TA file does not decode; the download replaces it or the TAL yields nothing this run

C23_PointOldOrNew == PointUsable
C23_OldNotLostBeforeNew ==
  \* where an old version was stored it stays until the new one is complete (except after an explicit reject)
  (scenario = "update" => point \in {"old", "new"})
C23_CommandsKeepWorking == ~alive => StatusReadable
C23_TmpNeverVisible == point # "partial"
(* an offline run after the crash still finds the trust anchor it had *)
C23_TaNeverTruncated == ta # "empty"
=============================================================================
