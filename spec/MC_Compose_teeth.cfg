\* a wrong design (limit compared with the max length instead of the prefix length): TLC must reject it
SPECIFICATION MCSpec
CONSTANTS
  Tier = "teeth"
  LimitLen = 1
  MaxProviders = 3
  BlockSize = 5460
  FixedOrder = TRUE
  Variant = "maxlen_limit"
INVARIANTS
  C09_Composition
