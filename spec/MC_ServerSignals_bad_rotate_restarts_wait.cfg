\* seeded fault rotate_restarts_wait, TLC must reject
SPECIFICATION Spec
CONSTANTS
  Refresh = 3
  RunTicks = 2
  MaxSignals = 3
  MaxTime = 12
  Variant = "rotate_restarts_wait"
INVARIANTS DeadlineKept ReloadNotLost
CHECK_DEADLOCK FALSE
