\* 1 URI, all histories of 3 runs, every download result, dirty or not per run
SPECIFICATION GSpec
CONSTANTS
  NUris = 1
  MaxRuns = 3
  Depth = 3
  Downloads <- AllDl
  DirtyChoices <- Bools
  Variant = "code"
INVARIANT Emit
CHECK_DEADLOCK FALSE
