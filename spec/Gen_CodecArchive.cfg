\* expected outcome classes of the code as shipped ("panic" / "hang" mark the cases where C27 is expected to fail)
SPECIFICATION GSpec
CONSTANTS Variant = "as_shipped"
INVARIANT Emit
CHECK_DEADLOCK FALSE
