---------------------------- MODULE MC_JsonDelta ----------------------------
EXTENDS JsonDelta

(* All action sequences over {"A","W"} of length <= n: every interleaving. *)
SeqsUpTo(n) == UNION {[1..k -> {"A", "W"}] : k \in 0..n}

Rep(x, n) == [i \in 1..n |-> x]
(* a announcements followed by w withdrawals, a, w \in 0..n *)
ShapesAW(n) == {Rep("A", a) \o Rep("W", w) : a \in 0..n, w \in 0..n}
(* ... plus the withdrawals first and the alternating order *)
Alt(a, w) == [i \in 1..(a + w) |->
                IF i <= 2 * (IF a < w THEN a ELSE w)
                  THEN (IF i % 2 = 1 THEN "W" ELSE "A")
                  ELSE (IF a < w THEN "W" ELSE "A")]
ShapesMix(n) == ShapesAW(n) \cup {Rep("W", w) \o Rep("A", a) : a \in 0..n, w \in 0..n}
                            \cup {Alt(a, w) : a \in 0..n, w \in 0..n}

ShapesQuick == SeqsUpTo(2)
ShapesTiny == SeqsUpTo(1)
ShapesAW3 == ShapesAW(3)
ShapesAll3 == SeqsUpTo(3)
ShapesMix2 == ShapesMix(2)
=============================================================================
