\* ASPA-heavy universe: one origin, no router keys, three ASPA customers (present or absent): change sets with several ASPA items at either end of the customer order
SPECIFICATION GSpec
CONSTANTS
  NO = 1
  NK = 0
  NC = 3
  NP = 1
INVARIANT Emit
CHECK_DEADLOCK FALSE
