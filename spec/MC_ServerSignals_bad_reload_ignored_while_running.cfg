\* seeded fault reload_ignored_while_running, TLC must reject
SPECIFICATION Spec
CONSTANTS
  Refresh = 3
  RunTicks = 2
  MaxSignals = 3
  MaxTime = 12
  Variant = "reload_ignored_while_running"
INVARIANTS DeadlineKept ReloadNotLost
CHECK_DEADLOCK FALSE
