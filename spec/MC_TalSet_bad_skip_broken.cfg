\* a wrong loader (skip_broken, see TalSet.tla): TLC must reject it
SPECIFICATION Spec
CONSTANTS
  Production = {"afrinic", "apnic", "arin", "lacnic", "ripe"}
  OtherBundled = {"nlnetlabs-testbed"}
  Unknown = "no-such-tal"
  Variant = "skip_broken"
INVARIANTS FailsInsteadOfShrinking ExactlyTheConfiguredSet RirTalsUnlessSwitchedOff NoTestbedUnasked
CHECK_DEADLOCK FALSE
