\* as shipped (expected to FAIL on C27_ArchiveOutcome): % bucket_count with 0, pointer cycles never end.
SPECIFICATION Spec
CONSTANTS Variant = "as_shipped"
INVARIANTS C27_ArchiveOutcome C27_ArchiveTerminates PristineReads
CHECK_DEADLOCK TRUE
