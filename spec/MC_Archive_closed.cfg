\* thorough, part 2: no bound on the number of operations (MaxOps = 0: not counted); the complete set of
\* states reachable while the file stays within 6 pages behind the index (MaxFile = IndexEnd + 6 * Page),
\* data lengths {0, 1, 2, 5}, 3 names, 2 meta values.  Diameter 14.
SPECIFICATION MCSpec
CONSTANTS
  Names = {"a", "b", "c"}
  NBuckets = 2
  BucketOf <- MCBucketOf
  Lens = {0, 1, 2, 5}
  Metas = {1, 2}
  Page = 4
  Header = 2
  NameMeta = 1
  LongNames = {"b"}
  IndexEnd = 3
  MaxOps = 0
  MaxFile = 27
  Variant = "code"
INVARIANTS TypeOK C26_NoError C26_Results C26_Refinement C26_NoGhosts C26_Tiling C26_Accounted C26_VerifyOk
           CacheCoherent PageAligned FitsIsGe
CHECK_DEADLOCK FALSE
