---------------------------- MODULE Gen_Listener ----------------------------
(* Behaviour export for Listener.                                          *)
(*  GSpecA: connection sequences.  One record per complete behaviour: for  *)
(*   every connection whether its setup fails, whether it arrived while    *)
(*   the listener task was parked on an empty queue ("quiet") or while it  *)
(*   was busy / other connections were queued ("burst"), and the outcome   *)
(*   the specification demands (served / dropped).                         *)
(*  GSpecB: registry schedules.  The order in which the named threads pass *)
(*   load / lock (metrics-after-load) / reload (metrics-after-lock) /      *)
(*   store (metrics-before-store) / inc / dec, with the list of addresses  *)
(*   and gauges expected after each step.  Exported from RegVariant        *)
(*   "as_coded" (legal schedules) and from "no_lock" (adversarial: the     *)
(*   replayer tries to push a second thread past the mutex; on the real    *)
(*   code that thread must block, the expectations are not used).          *)
EXTENDS Listener, Json

VARIABLE h

GInitA == InitA /\ IdleB /\ h = <<>>
GNextA ==
  /\ UNCHANGED varsB
  /\ \/ Arrive /\ h' = Append(h, [c |-> arrived + 1, quiet |-> (task = "parked" /\ waker /\ backlog = <<>>)])
     \/ (TaskStep \/ TimerFire) /\ UNCHANGED h
GSpecA == GInitA /\ [][GNextA]_<<vars, h>>

CompleteA == arrived = n /\ task = "parked" /\ \A c \in 1..n : outcome[c] # "none"
EmitA == CompleteA =>
  PrintT(<<"REPLAY", ToJson([kind |-> "conns", n |-> n,
                             fail |-> [c \in 1..n |-> ~setup[c]],
                             quiet |-> [c \in 1..n |-> h[c].quiet],
                             exp |-> outcome])>>)

-----------------------------------------------------------------------------
Obs == [l |-> [i \in 1..Len(list') |-> list'[i].a],
        c |-> [i \in 1..Len(list') |-> cnt'[list'[i].m]],
        g |-> global']
Step(t, s) == [t |-> t, s |-> s, pc |-> pc'[t], o |-> Obs]

GInitB == IdleA /\ InitB /\ h = <<>>
GNextB ==
  /\ UNCHANGED varsA
  /\ \E t \in Threads :
       \/ Load(t)   /\ h' = Append(h, Step(t, "load"))
       \/ Lock(t)   /\ h' = Append(h, Step(t, "lock"))
       \/ Reload(t) /\ h' = Append(h, Step(t, "reload"))
       \/ Store(t)  /\ h' = Append(h, Step(t, "store"))
       \/ Inc(t)    /\ h' = Append(h, Step(t, "inc"))
       \/ Dec(t)    /\ h' = Append(h, Step(t, "dec"))
GSpecB == GInitB /\ [][GNextB]_<<vars, h>>

(* Bookkeeping-only export: inc directly after get, all dec at the end, so *)
(* that the enumeration is over the interleavings of the registry steps.   *)
GNextBK ==
  /\ UNCHANGED varsA
  /\ \E t \in Threads :
       \/ /\ \A u \in Threads : pc[u] # "got"
          /\ \/ Load(t)   /\ h' = Append(h, Step(t, "load"))
             \/ Lock(t)   /\ h' = Append(h, Step(t, "lock"))
             \/ Reload(t) /\ h' = Append(h, Step(t, "reload"))
             \/ Store(t)  /\ h' = Append(h, Step(t, "store"))
       \/ Inc(t) /\ h' = Append(h, Step(t, "inc"))
       \/ /\ \A u \in Threads : pc[u] \in {"open", "closed"}
          /\ \A u \in Threads : u < t => pc[u] = "closed"
          /\ Dec(t) /\ h' = Append(h, Step(t, "dec"))
GSpecBK == GInitB /\ [][GNextBK]_<<vars, h>>

CompleteB == \A t \in Threads : pc[t] = "closed"
EmitB == CompleteB =>
  PrintT(<<"REPLAY", ToJson([kind |-> "registry", variant |-> RegVariant,
                             addr |-> addr, pre |-> SeqOfSet(Registered \ Addrs),
                             steps |-> h])>>)
=============================================================================
