\* registry schedules (GSpecB), threads {1, 2, 3}, addresses {1, 2}, pre-registered {{}, {0}, {3}, {0, 3}}, registry variant as_coded
SPECIFICATION GSpecB
CONSTANTS
  MaxConn = 1
  MaxAcceptErr = 0
  Variant = "intended"
  Threads = {1, 2, 3}
  Addrs = {1, 2}
  PreLists = {{}, {0}, {3}, {0, 3}}
  RegVariant = "as_coded"
INVARIANT EmitB
CHECK_DEADLOCK FALSE
