\* seeded mutant (`>=` for `>` on the max length): TLC must reject this one
SPECIFICATION Spec
CONSTANTS
  MaxBits = 3
  Asns = {1, 2}
  MaxVrps = 2
  Variant = "mut_maxlen_ge"
INVARIANTS
  C20_State
  C20_Partition
  C20_Reason
  Code_BothWrongIsLength
  Code_AsBeforeLength
  Code_Description
  Code_ListsSorted
  Rfc_Monotone
CHECK_DEADLOCK FALSE
