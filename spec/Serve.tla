------------------------------- MODULE Serve -------------------------------
(***************************************************************************)
(* Serving data while it is being updated: src/operation.rs                *)
(* Server::process_once, src/payload/history.rs SharedHistory::{update,    *)
(* mark_update_done}, src/http/payload.rs (data endpoints, conditional     *)
(* requests via src/http/response.rs maybe_not_modified), src/http/delta.rs*)
(* (notify long-poll), RTR queries through PayloadSource.                  *)
(*                                                                         *)
(* One action per lock region of the code:                                 *)
(*   updater   Install (one write lock: delta pushed, snapshot replaced),  *)
(*             MarkDone (one write lock: created time), Notify (broadcast) *)
(*   readers   HttpGet (one read lock), RtrReset / RtrSerial (one read     *)
(*             lock each)                                                  *)
(*   long-poll NSubscribe, NCheck (one read lock), NWake                   *)
(*                                                                         *)
(* Variant "as_shipped": the long-poll checks the version first and        *)
(* subscribes afterwards (http/delta.rs:101-108), so a notification sent   *)
(* in between is lost.  "intended": subscribe, then check.                 *)
(*                                                                         *)
(* SubSecond: the creation time keeps its sub-second part while the        *)
(* Last-Modified header is cut to whole seconds, so a date issued earlier  *)
(* is (almost always) strictly older than the creation time it came from.  *)
(* With SubSecond = FALSE (creation time on a whole second) the window     *)
(* between Install and MarkDone answers 304 to the previous date.          *)
(***************************************************************************)
EXTENDS Naturals, Sequences, FiniteSets, TLC

CONSTANTS DataSets,     \* data set identifiers, e.g. {1, 2}
          MaxUpdates,   \* validation runs of the updater
          MaxReq,       \* HTTP requests of the client
          MaxRtr,       \* RTR queries of the router
          Variant,      \* "intended" | "as_shipped"
          SubSecond     \* BOOLEAN

NoData == 0

VARIABLES data,       \* current data set (NoData before the first run)
          ver,        \* ghost: number of the data version (increases with every change)
          serial,
          created,    \* creation time in seconds (0: none yet)
          clock,      \* wall clock in seconds
          pcU,        \* "idle" | "installed" | "marked"
          changed,    \* did the run in progress change the data?
          nUpd,
          have,       \* validators the HTTP client holds: [ver, serial, date] (ver 0: none)
          hresp,      \* last HTTP response
          nReq,
          rhave,      \* what the router holds: [ver, serial]
          rresp,      \* last RTR response
          nRtr,
          pcN,        \* "idle" | "checked" | "subscribed" | "waiting" | "done"
          pres,       \* version presented by the long-poll: [ver, serial]
          sub,        \* the long-poll's receiver is subscribed
          msg         \* a notification is pending for the long-poll's receiver

vars == <<data, ver, serial, created, clock, pcU, changed, nUpd, have, hresp, nReq, rhave, rresp, nRtr,
          pcN, pres, sub, msg>>

Init ==
  /\ data = NoData /\ ver = 0 /\ serial = 0 /\ created = 0 /\ clock = 1
  /\ pcU = "idle" /\ changed = FALSE /\ nUpd = 0
  /\ have = [ver |-> 0, serial |-> 0, date |-> 0]
  /\ hresp = [status |-> 0, ver |-> 0, serial |-> 0, date |-> 0]
  /\ nReq = 0
  /\ rhave = [ver |-> 0, serial |-> 0]
  /\ rresp = [kind |-> "none", ver |-> 0, serial |-> 0]
  /\ nRtr = 0
  /\ pcN = "idle" /\ pres = [ver |-> 0, serial |-> 0] /\ sub = FALSE /\ msg = FALSE

-----------------------------------------------------------------------------
(* Updater: Server::process_once (operation.rs:421-465). *)

Install(d) ==
  /\ pcU = "idle" /\ nUpd < MaxUpdates
  /\ LET ch == d # data IN
     /\ data' = d
     /\ changed' = ch
     /\ ver' = IF ch THEN ver + 1 ELSE ver
     /\ serial' = IF ch /\ data # NoData THEN serial + 1 ELSE serial   \* first data set keeps serial 0
  /\ pcU' = "installed"
  /\ UNCHANGED <<created, clock, nUpd, have, hresp, nReq, rhave, rresp, nRtr, pcN, pres, sub, msg>>

(* mark_update_done (history.rs:107-139); the clock may or may not have    *)
(* moved to the next second since the last run. *)
MarkDone ==
  /\ pcU = "installed"
  /\ \E tick \in {0, 1} :
       /\ clock' = clock + tick
       /\ created' = IF clock' <= created THEN created + 1 ELSE clock'
  /\ pcU' = "marked"
  /\ UNCHANGED <<data, ver, serial, changed, nUpd, have, hresp, nReq, rhave, rresp, nRtr, pcN, pres, sub, msg>>

Notify ==
  /\ pcU = "marked"
  /\ msg' = IF changed /\ sub THEN TRUE ELSE msg
  /\ pcU' = "idle"
  /\ nUpd' = nUpd + 1
  /\ UNCHANGED <<data, ver, serial, created, clock, changed, have, hresp, nReq, rhave, rresp, nRtr, pcN, pres, sub>>

-----------------------------------------------------------------------------
(* HTTP data endpoint with conditional request (http/payload.rs:45-83,     *)
(* http/response.rs:118-152).  mode: which validators the client sends.    *)

(* Does the If-Modified-Since date (whole seconds, as issued) pass         *)
(* `date >= created`?                                                      *)
DatePasses(date) == IF SubSecond THEN date > created ELSE date >= created

HttpGet(mode) ==
  /\ nReq < MaxReq
  /\ nReq' = nReq + 1
  /\ IF data = NoData \/ created = 0
       THEN hresp' = [status |-> 503, ver |-> 0, serial |-> 0, date |-> 0] /\ UNCHANGED have
       ELSE LET etagMatch == mode \in {"etag", "both"} /\ have.ver # 0 /\ have.serial = serial
                dateMatch == mode \in {"date", "both"} /\ have.ver # 0 /\ DatePasses(have.date)
            IN  IF etagMatch \/ dateMatch
                  THEN /\ hresp' = [status |-> 304, ver |-> ver, serial |-> serial, date |-> created]
                       /\ UNCHANGED have
                  ELSE /\ hresp' = [status |-> 200, ver |-> ver, serial |-> serial, date |-> created]
                       /\ have' = [ver |-> ver, serial |-> serial, date |-> created]
  /\ UNCHANGED <<data, ver, serial, created, clock, pcU, changed, nUpd, rhave, rresp, nRtr, pcN, pres, sub, msg>>

-----------------------------------------------------------------------------
(* RTR (PayloadSource::{ready, full, diff}; history.rs:145-187). *)

RtrReset ==
  /\ nRtr < MaxRtr /\ nRtr' = nRtr + 1
  /\ IF data = NoData
       THEN rresp' = [kind |-> "nodata", ver |-> 0, serial |-> 0] /\ UNCHANGED rhave
       ELSE /\ rresp' = [kind |-> "full", ver |-> ver, serial |-> serial]
            /\ rhave' = [ver |-> ver, serial |-> serial]
  /\ UNCHANGED <<data, ver, serial, created, clock, pcU, changed, nUpd, have, hresp, nReq, pcN, pres, sub, msg>>

(* A serial query from the version the router holds: it gets the change    *)
(* set to the current data (history size is large enough here).            *)
RtrSerial ==
  /\ nRtr < MaxRtr /\ nRtr' = nRtr + 1 /\ rhave.ver # 0
  /\ rresp' = [kind |-> "diff", ver |-> ver, serial |-> serial]
  /\ rhave' = [ver |-> ver, serial |-> serial]
  /\ UNCHANGED <<data, ver, serial, created, clock, pcU, changed, nUpd, have, hresp, nReq, pcN, pres, sub, msg>>

-----------------------------------------------------------------------------
(* /json-delta/notify long-poll (http/delta.rs:92-139).  The client        *)
(* presents the version it got from an earlier response.                   *)

NStart ==
  /\ pcN = "idle" /\ have.ver # 0
  /\ pres' = [ver |-> have.ver, serial |-> have.serial]
  /\ pcN' = "started"
  /\ UNCHANGED <<data, ver, serial, created, clock, pcU, changed, nUpd, have, hresp, nReq, rhave, rresp, nRtr, sub, msg>>

NSubscribe ==
  /\ \/ Variant = "intended"  /\ pcN = "started"
     \/ Variant = "as_shipped" /\ pcN = "checked"
  /\ sub' = TRUE
  /\ pcN' = IF Variant = "intended" THEN "subscribed" ELSE "waiting"
  /\ UNCHANGED <<data, ver, serial, created, clock, pcU, changed, nUpd, have, hresp, nReq, rhave, rresp, nRtr, pres, msg>>

(* need_wait: one read lock. *)
NCheck ==
  /\ \/ Variant = "intended"  /\ pcN = "subscribed"
     \/ Variant = "as_shipped" /\ pcN = "started"
  /\ IF pres.serial = serial
       THEN pcN' = IF Variant = "intended" THEN "waiting" ELSE "checked"
       ELSE pcN' = "done"
  /\ UNCHANGED <<data, ver, serial, created, clock, pcU, changed, nUpd, have, hresp, nReq, rhave, rresp, nRtr, pres, sub, msg>>

NWake ==
  /\ pcN = "waiting" /\ msg
  /\ msg' = FALSE
  /\ pcN' = "done"
  /\ UNCHANGED <<data, ver, serial, created, clock, pcU, changed, nUpd, have, hresp, nReq, rhave, rresp, nRtr, pres, sub>>

Next ==
  \/ \E d \in DataSets : Install(d)
  \/ MarkDone \/ Notify
  \/ \E m \in {"none", "etag", "date", "both"} : HttpGet(m)
  \/ RtrReset \/ RtrSerial
  \/ NStart \/ NSubscribe \/ NCheck \/ NWake

Spec == Init /\ [][Next]_vars
FairSpec == Spec /\ WF_vars(NWake) /\ WF_vars(NSubscribe) /\ WF_vars(NCheck)

-----------------------------------------------------------------------------
(* C15: a response pairs a serial with the data of that serial; nothing is *)
(* served before the first validation completed.                           *)
C15_HttpPaired == hresp.status \in {200, 304} => hresp.serial + 1 = hresp.ver
C15_RtrPaired  == rresp.kind \in {"full", "diff"} => rresp.serial + 1 = rresp.ver
C15_NoDataBeforeFirstRun ==
  /\ (hresp.status = 200 => hresp.ver > 0)
  /\ (rresp.kind \in {"full", "diff"} => rresp.ver > 0)

(* C16: 304 only if the validators presented belong to the version served. *)
C16_NotModifiedOnlyIfCurrent == hresp.status = 304 => have.ver = hresp.ver

(* C17 (safety form): the long-poll is never stuck waiting for a change    *)
(* that already happened.                                                  *)
C17_NoLostWakeup ==
  ~(pcN = "waiting" /\ pres.serial # serial /\ ~msg /\ pcU = "idle")
(* liveness form *)
C17_Returns == [](pcN = "waiting" /\ pres.serial # serial /\ pcU = "idle" => <>(pcN = "done"))

=============================================================================
