---------------------------- MODULE MC_Compose ----------------------------
(***************************************************************************)
(* Bounded instances of Compose: the world classes.                        *)
(*                                                                         *)
(* Universes: prefixes = the 7 bit strings of length <= 2 below the base   *)
(* (lengths below / at / above the limit; every covering / overlap /       *)
(* disjointness relation), max length in Len(p)..2, origin ASNs {1, 2},    *)
(* two router keys, router-certificate ASN sets {1}, {2}, {1,2}, ASPA      *)
(* customers 1..5 and providers 1..4 (1..3 are blocks of a third of the    *)
(* encoding limit each, 4 is a single ASN: {1,2,3} is exactly at the       *)
(* limit, {1,2,3,4} one beyond), two address families, CAs "A" (TAL 1),    *)
(* "B" (TAL 2), rejected CA "R".                                           *)
(*                                                                         *)
(* Worlds are enumerated by the initial predicate (one disjunct per class, *)
(* parameters bound by quantifiers) rather than as one set constant: TLC   *)
(* would pre-evaluate and sort such a set for every worker.                *)
(***************************************************************************)
EXTENDS Compose

CONSTANT Tier   \* "quick" | "thorough" | "teeth" | "gen_quick" | "gen_thorough"

Fams == {"v4", "v6"}
Other(f) == IF f = "v4" THEN "v6" ELSE "v4"
Bit == {0, 1}
Pfx == {<<>>} \cup {<<a>> : a \in Bit} \cup {<<a, b>> : a \in Bit, b \in Bit}
PM  == {x \in Pfx \X (0..2) : x[2] >= Len(x[1])}                      \* 11 (prefix, max length)
Asns == {1, 2}
V(f, p, ml, a) == [fam |-> f, p |-> p, ml |-> ml, asn |-> a]
VrpU(f) == {V(f, x[1], x[2], a) : x \in PM, a \in Asns}               \* 22 VRPs per family
V1(f) == {v \in VrpU(f) : v.asn = 1}
Occ(ca, roa, v) == [ca |-> ca, roa |-> roa, fam |-> v.fam, p |-> v.p, ml |-> v.ml, asn |-> v.asn]

R(f, p)  == [fam |-> f, all |-> FALSE, p |-> p]
RAll(f)  == [fam |-> f, all |-> TRUE, p |-> <<>>]
RejChoices(f) == { {}, {RAll(f)}, {R(f, <<>>)}, {R(f, <<0>>)}, {R(f, <<0, 1>>)},
                   {R(f, <<1>>), R(f, <<0, 0>>)}, {R(Other(f), <<>>)},
                   {RAll(f), R(Other(f), <<0>>)} }
RejFew(f) == { {}, {R(f, <<0>>)}, {R(f, <<0, 1>>)}, {RAll(f)} }

PF(f, p, a) == [fam |-> f, p |-> p, asn |-> a]
PfU(f) == {PF(f, p, a) : p \in Pfx, a \in {0, 1, 2}} \cup {PF("none", <<>>, a) : a \in {0, 1, 2}}   \* 24
PfFew(f) == {PF(f, <<>>, 0), PF(f, <<0>>, 1), PF("none", <<>>, 2), PF(f, <<0, 1>>, 0)}
PaU(f) == VrpU(f) \cup {V(Other(f), <<0, 0>>, 2, 1), V(Other(f), <<1>>, 1, 2)}
BfU == {[asn |-> a, ski |-> s] : a \in {0, 1, 2}, s \in {0, 1, 2}}                                  \* 9
KeyU == {[asn |-> a, rk |-> k] : a \in {1, 2}, k \in {1, 2}}
AtMost(S, n) == {s \in SUBSET S : Cardinality(s) <= n}

Cfg(l4, l6, u, b, a) == [l4 |-> l4, l6 |-> l6, unsafe |-> u, bgpsec |-> b, aspa |-> a]
AllCfgs == [l4 : BOOLEAN, l6 : BOOLEAN, unsafe : {"accept", "warn", "reject"}, bgpsec : BOOLEAN, aspa : BOOLEAN]
(* Limit of family f on/off, the other family's limit always on. *)
CfgL(f, on, u) == IF f = "v4" THEN Cfg(on, TRUE, u, TRUE, TRUE) ELSE Cfg(TRUE, on, u, TRUE, TRUE)
Policies == {"accept", "warn", "reject"}

Mk(cls, wt, occ, certs, aspas, rej, pf, bf, pa, ba, cfg) ==
  [cls |-> cls, occ |-> occ, certs |-> certs, aspas |-> aspas, rej |-> rej, pf |-> pf, bf |-> bf,
   pa |-> pa, ba |-> ba, cfg |-> cfg, wt |-> wt]

-----------------------------------------------------------------------------
(* The rich layout: every VRP of family f, duplicates across two ROAs of   *)
(* one CA and across the two TALs, same prefix with different max lengths, *)
(* a few VRPs of the other family (ROA 5 of A mixes the families); four     *)
(* router certificates giving every                                        *)
(* (asn, key) pair with duplicates; ASPAs whose union is exactly at the    *)
(* limit (customer 1, three objects, two TALs), one ASN beyond it          *)
(* (customer 2), far beyond it (customer 3), a single object at the limit  *)
(* (customer 4), a small one (customer 5).                                 *)
RichOcc(f) ==
  {Occ("A", 1, v) : v \in {v \in VrpU(f) : v.asn = 1 /\ v.ml = Len(v.p)}}
  \cup {Occ("A", 2, v) : v \in {v \in VrpU(f) : v.asn = 2 /\ v.ml = Len(v.p)}}
  \cup {Occ("A", 3, v) : v \in {v \in VrpU(f) : v.asn = 1 /\ v.ml > Len(v.p)}}
  \cup {Occ("A", 4, v) : v \in {v \in VrpU(f) : v.asn = 2 /\ v.ml > Len(v.p)}}
  \cup {Occ("A", 5, V(f, <<0>>, 1, 1)), Occ("A", 5, V(f, <<0, 0>>, 2, 1)), Occ("A", 5, V(f, <<>>, 2, 1)),
        Occ("A", 5, V(Other(f), <<1>>, 1, 1)), Occ("A", 5, V(Other(f), <<1, 0>>, 2, 1))}
  \cup {Occ("B", 1, V(f, <<>>, 0, 1)), Occ("B", 1, V(f, <<0>>, 1, 1)), Occ("B", 1, V(f, <<0, 1>>, 2, 1)),
        Occ("B", 1, V(f, <<1>>, 2, 1))}
  \cup {Occ("B", 2, V(Other(f), <<>>, 0, 2)), Occ("B", 2, V(Other(f), <<0>>, 1, 2)),
        Occ("B", 2, V(Other(f), <<0, 0>>, 2, 2)), Occ("B", 2, V(Other(f), <<1>>, 2, 2))}
Cert(ca, n, asns, rk) == [ca |-> ca, n |-> n, asns |-> asns, rk |-> rk]
RichCerts == {Cert("A", 1, {1}, 1), Cert("A", 2, {1, 2}, 2), Cert("B", 1, {1}, 1), Cert("B", 2, {2}, 1)}
Aspa(ca, n, c, ps) == [ca |-> ca, n |-> n, cust |-> c, prov |-> ps]
RichAspas == {Aspa("A", 1, 1, {1, 2}), Aspa("A", 2, 1, {2, 3}), Aspa("B", 1, 1, {1}),
              Aspa("A", 3, 2, {1, 2, 3}), Aspa("B", 2, 2, {4}),
              Aspa("B", 3, 3, {1, 2}), Aspa("A", 4, 3, {3, 4}),
              Aspa("B", 4, 4, {1, 2, 3}),
              Aspa("A", 5, 5, {4})}
Rich(cls, wt, f, rej, pf, bf, pa, ba, cfg) == Mk(cls, wt, RichOcc(f), RichCerts, RichAspas, rej, pf, bf, pa, ba, cfg)

Is(w) == InitWith(w)
T(ts) == Tier \in ts
MC == {"quick", "thorough"}
All == {"quick", "thorough", "gen_quick", "gen_thorough"}
Thorough == {"thorough", "gen_thorough"}

(* Options: every combination, with and without a rejected CA; providers   *)
(* at real size. *)
I_Cfg == \E f \in Fams : \E rej \in {{}, {R(f, <<0>>)}}, c \in AllCfgs :
           Is(Rich("cfg", "block", f, rej, {}, {}, {}, {}, c))
(* Unsafe filter: every rejected-resource choice x policy x limit. *)
I_Rej == \E f \in Fams : \E rej \in RejChoices(f), on \in BOOLEAN, u \in Policies :
           Is(Rich("rej", "unit", f, rej, {}, {}, {}, {}, CfgL(f, on, u)))
(* One prefix filter (every prefix/asn shape, incl. the empty filter and   *)
(* filters of the other family). *)
I_Pf1 == \E f \in Fams : \E x \in PfU(f) \cup {PF(Other(f), <<>>, 0), PF(Other(f), <<0>>, 2)}, on \in BOOLEAN :
           Is(Rich("pf1", "unit", f, {}, {x}, {}, {}, {}, CfgL(f, on, "accept")))
(* Two (overlapping) prefix filters. *)
I_Pf2 == \E f \in Fams : \E x \in PfU(f), y \in PfU(f) :
           Is(Rich("pf2", "unit", f, {}, {x, y}, {}, {}, {}, CfgL(f, FALSE, "accept")))
(* Prefix filter x rejected resources under reject. *)
I_PfRej == \E f \in Fams : \E rej \in RejFew(f) \ {{}}, x \in PfFew(f), on \in BOOLEAN :
             Is(Rich("pfrej", "unit", f, rej, {x}, {}, {}, {}, CfgL(f, on, "reject")))
(* One prefix assertion (every VRP of the family + two of the other one),  *)
(* alone and in a hostile context: covered by filters, longer than the     *)
(* limit, inside rejected resources under reject.                          *)
I_Pa1 == \E f \in Fams : \E x \in PaU(f) :
           \/ Is(Rich("pa1", "unit", f, {}, {}, {}, {x}, {}, CfgL(f, FALSE, "accept")))
           \/ Is(Rich("pa1h", "unit", f, {R(f, <<>>)}, {PF(f, <<>>, 0), PF("none", <<>>, x.asn)}, {}, {x}, {},
                      CfgL(f, TRUE, "reject")))
(* Two assertions, one filter. *)
I_Pa2 == \E f \in Fams : \E x \in V1(f), y \in {v \in VrpU(f) : v.asn = 2 /\ v.ml = 2},
                            z \in {PF(f, <<>>, 1), PF(f, <<1>>, 0)} :
           Is(Rich("pa2", "unit", f, {}, {z}, {}, {x, y}, {}, CfgL(f, TRUE, "accept")))
(* BGPsec filters x assertions x toggle. *)
I_Bg1 == \E bf \in AtMost(BfU, 1), ba \in {{}} \cup {{k} : k \in KeyU}, b \in BOOLEAN :
           Is(Rich("bgpsec1", "unit", "v4", {}, {}, bf, {}, ba, Cfg(FALSE, FALSE, "accept", b, TRUE)))
I_Bg2 == \E bf \in AtMost(BfU, 2),
            ba \in {{}, {[asn |-> 1, rk |-> 1]}, {[asn |-> 2, rk |-> 2], [asn |-> 1, rk |-> 2]}}, b \in BOOLEAN :
           Is(Rich("bgpsec2", "unit", "v4", {}, {}, bf, {}, ba, Cfg(FALSE, FALSE, "accept", b, TRUE)))

-----------------------------------------------------------------------------
(* Small worlds: the multisets themselves are enumerated. *)

(* One VRP: every VRP x rejected resources x at most one filter x          *)
(* (no assertion | the same item asserted) x limit x policy.               *)
I_One(level) ==
  \E f \in Fams :
    \E v \in IF level >= 1 THEN VrpU(f) ELSE V1(f), rej \in IF level >= 2 THEN RejChoices(f) ELSE RejFew(f),
       pf \in {{}} \cup {{x} : x \in IF level >= 1 THEN PfU(f) ELSE PfFew(f)},
       same \in BOOLEAN, on \in BOOLEAN, u \in Policies :
      Is(Mk("one", "unit", {Occ("A", 1, v)}, {}, {}, rej, pf, {}, IF same THEN {v} ELSE {}, {}, CfgL(f, on, u)))
(* Two occurrences: same ROA (then same asn), two ROAs of one CA, two TALs. *)
I_Two(full, onlydup) ==   \* onlydup: only the worlds with the same VRP twice
  \E f \in Fams :
    \E v1 \in IF full THEN VrpU(f) ELSE V1(f), v2 \in IF full THEN VrpU(f) ELSE V1(f),
       x \in {<<"A", 1>>, <<"A", 2>>, <<"B", 1>>}, on \in BOOLEAN :
      /\ (x = <<"A", 1>> => v1.asn = v2.asn)
      /\ (onlydup => (v1 = v2 /\ x # <<"A", 1>>))
      /\ Is(Mk("two", "unit", {Occ("A", 1, v1), Occ(x[1], x[2], v2)}, {}, {}, {}, {}, {}, {}, {}, CfgL(f, on, "accept")))

(* Router certificates: all sets of one or two x at most one filter x      *)
(* assertion x toggle.                                                     *)
CertU == {Cert(ca, 1, as, k) : ca \in {"A", "B"}, as \in {{1}, {2}, {1, 2}}, k \in {1, 2}}
         \cup {Cert("A", 2, as, 1) : as \in {{1}, {1, 2}}}
I_Keys == \E cs \in AtMost(CertU, 2) \ {{}}, bf \in AtMost(BfU, 1), ba \in {{}, {[asn |-> 1, rk |-> 1]}}, b \in BOOLEAN :
            Is(Mk("keys", "unit", {}, cs, {}, {}, {}, bf, {}, ba, Cfg(FALSE, FALSE, "accept", b, FALSE)))

(* ASPAs of one customer at real size: one, two or three objects with      *)
(* every decodable provider set over 1..4, in one CA or across the TALs,   *)
(* enabled or not.                                                         *)
ProvSets == (SUBSET (1..4)) \ {{}, {1, 2, 3, 4}}
FewProv  == {{1}, {1, 2}, {3}, {2, 3, 4}, {1, 2, 3}, {4}}
CfgA(en) == Cfg(FALSE, FALSE, "accept", FALSE, en)
I_Aspa2(few) ==
  \/ \E p1 \in IF few THEN FewProv ELSE ProvSets, p2 \in IF few THEN FewProv ELSE ProvSets, ca \in {"A", "B"} :
       Is(Mk("aspa", "block", {}, {}, {Aspa("A", 1, 1, p1), Aspa(ca, 2, 1, p2)}, {}, {}, {}, {}, {}, CfgA(TRUE)))
  \/ \E p1 \in IF few THEN FewProv ELSE ProvSets, two \in BOOLEAN, en \in BOOLEAN :
       Is(Mk("aspa", "block", {}, {}, {Aspa("A", 1, 1, p1)} \cup (IF two THEN {Aspa("B", 2, 2, p1)} ELSE {}),
             {}, {}, {}, {}, {}, CfgA(en)))
I_Aspa3 ==
  \E p1 \in ProvSets, p2 \in ProvSets, p3 \in {{1}, {4}, {2, 3}, {1, 2, 3}} :
    Is(Mk("aspa3", "block", {}, {}, {Aspa("A", 1, 1, p1), Aspa("A", 2, 1, p2), Aspa("B", 3, 1, p3)},
          {}, {}, {}, {}, {}, CfgA(TRUE)))
(* The same with single-ASN providers: never too large. *)
I_AspaUnit ==
  \E p1 \in SUBSET (1..4) \ {{}}, p2 \in SUBSET (1..4) \ {{}} :
    Is(Mk("aspa-unit", "unit", {}, {}, {Aspa("A", 1, 1, p1), Aspa("B", 2, 1, p2)}, {}, {}, {}, {}, {}, CfgA(TRUE)))

-----------------------------------------------------------------------------
MCInit ==
  \/ T(All) /\ (I_Cfg \/ I_Rej \/ I_Pf1 \/ I_PfRej \/ I_Pa1 \/ I_Bg1 \/ I_Aspa2(FALSE))
  \/ T(Thorough) /\ (I_Pf2 \/ I_Pa2 \/ I_Bg2 \/ I_Aspa3)
  \/ T({"quick", "gen_quick"}) /\ (I_One(0) \/ I_Two(FALSE, FALSE))
  \/ T({"gen_thorough"}) /\ (I_One(1) \/ I_Two(TRUE, FALSE))
  \/ T({"thorough"}) /\ (I_One(2) \/ I_Two(TRUE, FALSE))
  \/ T({"quick", "thorough", "gen_thorough"}) /\ (I_Keys \/ I_AspaUnit)
  \/ T({"teeth"}) /\ (I_Pa1 \/ I_Rej)

MCSpec == MCInit /\ [][Next]_vars /\ WF_vars(Next)
=============================================================================
