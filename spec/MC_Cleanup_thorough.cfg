\* thorough: CA certificates with and without rpkiNotify (RRDP off: stored under stored/rrdp, fetched by rsync), 3 runs, 1 step per gap
SPECIFICATION Spec
CONSTANTS
  NPoints = 2
  Modules = {"m1", "m2"}
  Transports = {FALSE, TRUE}
  Rrdp = FALSE
  MaxVer = 3
  MaxRuns = 3
  MaxEnv = 1
  MaxExpire = 1
  Kinds = {"update", "initial"}
  Corruptions = {FALSE, TRUE}
  Ticks = {FALSE, TRUE}
  Variant = "as_code"
INVARIANTS TypeOK C40_UnexpiredPointKept C40_UsedCopyKept C40_DirtyRemovesNothing C40_FailedRemovesNothing
           ProcessRemovesNothing Sanity_CleanupRemoves Sanity_CleanupOnlyWhenDue
PROPERTY TaKept
CHECK_DEADLOCK FALSE
