------------------------------ MODULE Gen_Paths ------------------------------
(* Behaviour export for Paths.  One behaviour = one case: the kind, the    *)
(* text of the one or two URIs, and what the specification says about it:  *)
(*   a1, a2   whether the rpki parser accepts the URI,                     *)
(*   eq       whether the URIs are equivalent (property level),            *)
(*   e1, e2   the entries the model of the PINNED code (Variant =          *)
(*            "as_shipped") expects below cache/ and dump/ (path text with *)
(*            #(..) for a SHA-256 name, kind of entry, run or dump);       *)
(*            predictions that bind the model to the code - a difference   *)
(*            is a model divergence, not a violation,                      *)
(*   clash    the pairs of entries the model expects to clash,             *)
(*   storable whether every file entry names a file.                       *)
(* The replayer's oracle is the property itself: nothing outside cache/    *)
(* and dump/, no clash between URIs that are not equivalent.               *)
EXTENDS Paths, Json

Ent(e) == [p |-> Join(e.p), n |-> Join(e.n), t |-> e.t, w |-> e.w]

Line ==
  [kind |-> kind,
   u1 |-> UriStr(u1),
   u2 |-> IF u2.sch = "none" THEN "" ELSE UriStr(u2),
   a1 |-> Accept(u1),
   a2 |-> u2.sch # "none" /\ Accept(u2),
   eq |-> u2.sch # "none" /\ Equivalent(u1, u2),
   e1 |-> {Ent(e) : e \in ents[1]},
   e2 |-> {Ent(e) : e \in ents[2]},
   clash |-> {<<Join(c[1].n), Join(c[2].n)>> : c \in ClashingEntries},
   storable |-> Storable,
   confined |-> C30_Confined]

Emit == phase = "done" => PrintT(<<"REPLAY", ToJson(Line)>>)
=============================================================================
