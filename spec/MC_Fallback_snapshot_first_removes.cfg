\* a wrong update procedure (expected to FAIL): the copy is removed before the new snapshot has arrived, so a failing
\* snapshot leaves nothing and a current copy turns into "unavailable"
SPECIFICATION Spec
CONSTANTS MaxRuns = 2
  Variant = "snapshot_first_removes"
INVARIANTS C29_FollowsTable C29_RrdpOnlyIfAnnouncedAndEnabled
CHECK_DEADLOCK FALSE
