\* the observation of TalSet.tla (expected to FAIL on the code as it is): a file of the extra directory named like a bundled TAL is loaded next to it
SPECIFICATION Spec
CONSTANTS
  Production = {"afrinic", "apnic", "arin", "lacnic", "ripe"}
  OtherBundled = {"nlnetlabs-testbed"}
  Unknown = "no-such-tal"
  Variant = "code"
INVARIANT NoNameTwice
CHECK_DEADLOCK FALSE
