\* seeded fault "stale_next_on_split" (see Archive.tla): the remainder of a split free block keeps the
\* `next` pointer of the block it was cut from instead of the current head of the empty chain; only
\* differs when the block taken is not the head of the chain.  TLC must reject it.
\* Page sizes 1, 2, 3 (Lens 1, 5, 9): needs a free block of 3 pages in the chain behind one of 1 page.
SPECIFICATION MCSpec
CONSTANTS
  Names = {"a", "b", "c"}
  NBuckets = 2
  BucketOf <- MCBucketOf
  Lens = {1, 5, 9}
  Metas = {1}
  Page = 4
  Header = 2
  NameMeta = 1
  LongNames = {"b"}
  IndexEnd = 3
  MaxOps = 6
  MaxFile = 1000
  Variant = "stale_next_on_split"
INVARIANTS C26_NoError C26_Results C26_Refinement C26_NoGhosts C26_Tiling C26_Accounted C26_VerifyOk
CHECK_DEADLOCK FALSE
