\* exhaustive: both streams; per payload type a announcements followed by w withdrawals, a, w in 0..3
\* (16 shapes, 4096 change sets; resets: 0..3 items per type), EVERY threshold; unit item sizes
\* (header 2, separator 2, footer 1, items 1, comma 1) so that every token is a possible boundary.
SPECIFICATION Spec
CONSTANTS
  Shapes <- ShapesAW3
  Modes = {"delta", "reset"}
  SzHdr = 2
  SzSep = 2
  SzFoot = 1
  SzO = 1
  SzK = 1
  SzA = 1
  Variant = "as_code"
INVARIANTS TypeOK Counter C18_Prefix C18_Exact C18_Progress Chunking
CHECK_DEADLOCK TRUE
