\* thorough: every ordered pair of accepted URIs, ports on, paths of <= 3 segments over {a, A, ""};
\* intended design.
SPECIFICATION Spec
CONSTANTS
  Variant = "intended"
  Kinds = {"mft", "mftn", "mftr", "ta", "tah", "notify", "notify1"}
  Mode = "all"
  HostsR = {"h.test", "g.test"}
  HostsH = {"h.test", "..", ""}
  HCases = {"lower", "mixed"}
  SCases = {"lower"}
  Ports = {"", "873"}
  Mods = {"m", "n"}
  Segs = {"a", "A", ""}
  SegsAll = {"a"}
  NearSpread = 5
  MaxSegs = 3
INVARIANTS TypeOK C30_Confined C30_Distinct Storable
CHECK_DEADLOCK FALSE
