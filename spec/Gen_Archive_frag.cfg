\* quick and thorough: pseudo random walks (Seed replaced by VERIF_SEED) of 12 operations over 4 names and data lengths
\* {1,5,9} = 1, 2, 3 pages: fragmented archives, so that blocks are taken from the middle of the empty chain and split
\* (paths exact@chain / split@chain, which 5 operations over two page sizes cannot reach).
SPECIFICATION GSpec
CONSTANTS
  Names = {"a", "b", "c", "d"}
  NBuckets = 3
  BucketOf <- GBucketOf
  Lens = {1, 5, 9}
  Metas = {1, 2}
  Page = 4
  Header = 2
  NameMeta = 1
  LongNames = {"b"}
  IndexEnd = 3
  MaxOps = 12
  MaxFile = 1000
  Variant = "code"
  Mode = "walk"
  MaxReopen = 0
  NWalks = 1500
  Seed = 1
INVARIANTS Emit C26_NoError C26_Results C26_Refinement C26_NoGhosts C26_Tiling C26_Accounted C26_VerifyOk
CHECK_DEADLOCK FALSE
