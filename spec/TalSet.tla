------------------------------- MODULE TalSet -------------------------------
(***************************************************************************)
(* Which trust anchor locators a Routinator instance works with:           *)
(* tals::collect_tals (src/tals.rs:13-52) and Engine::reload_tals          *)
(* (src/engine.rs:197-270) against the manual (doc/routinator.1: --tal,    *)
(* --no-rir-tals, --extra-tals-dir).                                       *)
(*                                                                         *)
(* Not one of the listed properties (C10 binds each trust anchor to the    *)
(* key of its TAL; this module says which TALs there are).  What an        *)
(* operator relies on: the five RIR TALs unless switched off, every TAL    *)
(* asked for by name, every *.tal file of the extra directory - and a      *)
(* start-up failure rather than a silently smaller set when a name is      *)
(* unknown, the directory cannot be read or one of its TAL files is        *)
(* broken.  The replay builds every row as a real configuration and a real *)
(* directory and reads the loaded set back from the metrics of a run.      *)
(***************************************************************************)
EXTENDS Naturals, FiniteSets

CONSTANTS Production,   \* names of the bundled RIR TALs
          OtherBundled, \* names of the other bundled TALs (test beds)
          Unknown,      \* a name that is not bundled
          Variant       \* "code" | "skip_broken" (a TAL file that cannot be read is skipped)
                        \* | "unknown_ignored" (an unknown name in --tal is ignored)

Bundled == Production \cup OtherBundled

(* the extra TAL directory *)
DirStates == {"unset",      \* no extra-tals-dir configured
              "missing",    \* configured, does not exist
              "empty",
              "good",       \* x.tal, readable
              "junk",       \* x.tal plus a file without the extension and a directory called d.tal
              "broken",     \* x.tal plus y.tal that is not a TAL
              "shadow"}     \* a file named like a bundled RIR TAL

DirGood(d) == CASE d \in {"good", "junk", "broken"} -> {"x"}
                [] d = "shadow" -> {CHOOSE n \in Production : TRUE}
                [] OTHER -> {}

VARIABLES mention,   \* names given with --tal (bundled-tals)
          noRir, dir,
          result, done
vars == <<mention, noRir, dir, result, done>>

Failed == [ok |-> FALSE, names |-> {}, twice |-> {}]
Loaded(s, t) == [ok |-> TRUE, names |-> s, twice |-> t]

Init ==
  /\ mention \in SUBSET ({CHOOSE n \in Production : TRUE} \cup OtherBundled \cup {Unknown})
  /\ noRir \in BOOLEAN /\ dir \in DirStates
  /\ result = Failed /\ done = FALSE

(* collect_tals: named ones first (an unknown name fails), then the RIR TALs; a map by name, so no doubles *)
Collect ==
  IF Unknown \in mention /\ Variant # "unknown_ignored" THEN Failed
  ELSE Loaded((mention \ {Unknown}) \cup (IF noRir THEN {} ELSE Production), {})

(* reload_tals: the bundled ones plus every regular file *.tal of the directory; appended, not merged by name *)
Reload(c) ==
  IF ~c.ok THEN Failed
  ELSE CASE dir = "unset"   -> c
         [] dir = "missing" -> Failed                                              \* engine.rs:200-208
         [] dir = "broken"  -> IF Variant = "skip_broken" THEN Loaded(c.names \cup DirGood(dir), {}) ELSE Failed   \* :243-254
         [] OTHER           -> Loaded(c.names \cup DirGood(dir), c.names \cap DirGood(dir))

Load ==
  /\ ~done /\ done' = TRUE
  /\ result' = Reload(Collect)
  /\ UNCHANGED <<mention, noRir, dir>>

Spec == Init /\ [][Load]_vars

(* ---- what the manual promises ---- *)
MustFail == Unknown \in mention \/ dir \in {"missing", "broken"}
Expected == (mention \ {Unknown}) \cup (IF noRir THEN {} ELSE Production) \cup DirGood(dir)

FailsInsteadOfShrinking == done => (result.ok <=> ~MustFail)
ExactlyTheConfiguredSet == (done /\ result.ok) => result.names = Expected
RirTalsUnlessSwitchedOff == (done /\ result.ok /\ ~noRir) => Production \subseteq result.names
NoTestbedUnasked        == (done /\ result.ok) => (result.names \cap OtherBundled) \subseteq mention
(* an observation: a file of the extra directory named like a bundled TAL gives two TALs of that name *)
NoNameTwice             == (done /\ result.ok) => result.twice = {}
=============================================================================
