---------------------------- MODULE Gen_PubPoint ----------------------------
(* Behaviour export for PubPoint: run 1 brings the store into a state      *)
(* (nothing stored, or a clean fetch of one version under policy accept),  *)
(* the following runs are arbitrary.  One line per complete behaviour.     *)
EXTENDS PubPoint, Json

VARIABLE h
CONSTANT Depth            \* number of runs per behaviour (>= 2)

IdOrder == [i \in 1..Cardinality(Files) |-> i]
AllOkAvail == [f \in Files |-> "ok"]
OneBad == {a \in [Files -> FileConds] : Cardinality({f \in Files : a[f] # "ok"}) <= 1}

Obs(p, mc, avail, order, pol) ==
  [pub |-> p.id, mc |-> mc, avail |-> avail, order |-> order, pol |-> pol,
   \* what the engine looks at: the working copy (of an earlier run when the repository is unreachable)
   eff |-> [pub |-> last'.pub.id, mc |-> last'.mc, avail |-> last'.avail],
   exp |-> [stored |-> stored'.id, committed |-> committed', accepted |-> accepted', path |-> last'.path]]

Step(p, mc, avail, order, pol) ==
  Run(p, mc, avail, order, pol) /\ h' = Append(h, Obs(p, mc, avail, order, pol))

GInit == Init /\ h = <<>>

(* Setup run: unreachable (nothing stored) or a clean fetch. *)
Setup == runs = 0 /\ \/ Step(v1, "unreachable", AllOkAvail, IdOrder, "accept")
                     \/ \E p \in {v1, v2} : Step(p, "ok", AllOkAvail, IdOrder, "accept")

(* Test run: when the manifest is not usable the files do not matter. *)
Test == runs >= 1 /\ \E p \in {v1, v2}, pol \in {"accept", "reject"} :
            \/ \E avail \in OneBad, order \in Orders : Step(p, "ok", avail, order, pol)
            \/ \E mc \in MftConds \ {"ok"} : Step(p, mc, AllOkAvail, IdOrder, pol)

GNext == Setup \/ Test
GSpec == GInit /\ [][GNext]_<<vars, h>>
RunBound == runs < Depth
Emit == (runs = Depth) =>
          PrintT(<<"REPLAY", ToJson([v1 |-> v1, v2 |-> v2, runs |-> h])>>)
=============================================================================
