\* quick: all six kinds; every ordered pair of accepted URIs over
\*   rsync: hosts {h.test, g.test} x {lower, Mixed} x module {m, n}
\*   https: hosts {h.test, "..", ""} x case x port
\*   paths: <= 2 segments over {a, A, ""(trailing slash)}
\* intended design (digest-named point files): all invariants hold.
SPECIFICATION Spec
CONSTANTS
  Variant = "intended"
  Kinds = {"mft", "mftn", "mftr", "ta", "tah", "notify", "notify1"}
  Mode = "all"
  HostsR = {"h.test", "g.test"}
  HostsH = {"h.test", "..", ""}
  HCases = {"lower", "mixed"}
  SCases = {"lower"}
  Ports = {""}
  Mods = {"m", "n"}
  Segs = {"a", "A", ""}
  SegsAll = {"a"}
  NearSpread = 5
  MaxSegs = 2
INVARIANTS TypeOK C30_Confined C30_Distinct Storable
CHECK_DEADLOCK FALSE
