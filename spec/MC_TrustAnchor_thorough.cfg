\* exhaustive: 2 certificate URIs, every download result per URI and run, dirty or not per run, all histories of 5 runs
SPECIFICATION Spec
CONSTANTS
  NUris = 2
  MaxRuns = 5
  Downloads <- AllDl
  DirtyChoices <- Bools
  Variant = "code"
INVARIANTS
  TypeOK C10_UsedHasTalKeyAndValidates C10_UndecodableKeepsStored C10_FailedDownloadUsesStored
  C10_AllFailNothing OperationalMatchesDeclarative WorkIsStored
CHECK_DEADLOCK FALSE
