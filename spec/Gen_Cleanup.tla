---------------------------- MODULE Gen_Cleanup ----------------------------
(* Behaviour export for Cleanup: histories of MaxRuns validation runs.     *)
(* Per run: the environment steps before it, the world it meets, the run   *)
(* configuration, and what the model expects in the cache after process()  *)
(* (pre) and after cleanup (post).  One line per complete history.         *)
(*                                                                         *)
(* Canonical form (the steps of one gap commute unless they touch the same *)
(* point): at most one step per point and gap, points in increasing order; *)
(* "time passes" may come anywhere.  With PlainFirst the first run is a    *)
(* plain update run (it only fills the cache).  The export uses            *)
(* Ticks = {FALSE}: a replayed run takes some 50 ms; the replayer accepts   *)
(* surviving LastAttempt records when a run did cross a second boundary.    *)
EXTENDS Cleanup, Sequences, Json

CONSTANTS PlainFirst,   \* BOOLEAN
          StakeOnly     \* BOOLEAN: export only histories in which some cleanup had something to decide

VARIABLES h, acts

Max(S) == IF S = {} THEN 0 ELSE CHOOSE x \in S : \A y \in S : y <= x
LastP == Max({acts[i].p : i \in DOMAIN acts})
Act(a, p, s, hm) == [a |-> a, p |-> p, s |-> s, mod |-> hm.mod, notify |-> hm.notify]

StoredSet(st) ==
  {[p |-> k[1], mod |-> k[2].mod, notify |-> k[2].notify, st |-> st[k].st, v |-> st[k].v, fresh |-> st[k].fresh] :
      k \in {x \in Keys : st[x].st # "none"}}

(* Did this run's cleanup have anything to decide?  Something removable, or *)
(* something that is kept although this run did not use it.                 *)
Stake ==
  LET visited(k) == cfg.kind = "update" /\ ~cfg.corrupt /\ k[1] \in listed /\ home[k[1]] = k[2]
  IN \/ \E k \in Keys : pre.st[k].st = "ok" /\ (Expired(k[1], pre.st[k].v) \/ ~visited(k))
     \/ \E k \in Keys : pre.st[k].st = "att" /\ ~pre.st[k].fresh
     \/ pre.cp \ (touched \cup {"m0"}) # {}
     \/ pre.ar \ touchedN # {}

Rec ==
  [env |-> acts,
   cfg |-> cfg,
   world |-> [listed |-> listed, home |-> home, pver |-> pver, short |-> short, dead |-> dead],
   outcome |-> outcome, cleaned |-> cleaned, stake |-> Stake,
   touched |-> touched, touchedN |-> touchedN,
   start |-> [stored |-> StoredSet(start.st), copies |-> start.cp, archives |-> start.ar],
   pre |-> [stored |-> StoredSet(pre.st), copies |-> pre.cp, archives |-> pre.ar],
   post |-> [stored |-> StoredSet(stored), copies |-> copies, archives |-> archives],
   taView |-> taView]

GInit == Init /\ h = <<>> /\ acts = <<>>

GEnv ==
  \/ \E p \in Points : p > LastP /\ Appear(p) /\ acts' = Append(acts, Act("appear", p, FALSE, NoHome))
  \/ \E p \in Points : p > LastP /\ Disappear(p) /\ acts' = Append(acts, Act("disappear", p, FALSE, NoHome))
  \/ \E p \in Points, s \in BOOLEAN : p > LastP /\ Renew(p, s) /\ acts' = Append(acts, Act("renew", p, s, NoHome))
  \/ \E p \in Points, hm \in Homes : p > LastP /\ Move(p, hm) /\ acts' = Append(acts, Act("move", p, FALSE, hm))
  \/ Expire /\ acts' = Append(acts, Act("expire", 0, FALSE, NoHome))

GStart == \E c \in RunConfigs :
            /\ (PlainFirst /\ runs = 0) => (c.kind = "update" /\ ~c.dirty /\ c.down = {} /\ c.rdown = {} /\ ~c.corrupt)
            /\ StartRun(c.kind, c.dirty, c.down, c.rdown, c.corrupt, c.tick)

GNext ==
  \/ GEnv /\ UNCHANGED h
  \/ GStart /\ UNCHANGED <<h, acts>>
  \/ (ValidateCorrupt \/ ValidateUpdate \/ ValidateInitial \/ CleanupStore \/ CleanupCollector) /\ UNCHANGED <<h, acts>>
  \/ EndRun /\ h' = Append(h, Rec) /\ acts' = <<>>

GSpec == GInit /\ [][GNext]_<<vars, h, acts>>

Emit == (runs = MaxRuns /\ phase = "env" /\ (~StakeOnly \/ \E i \in DOMAIN h : h[i].stake)) =>
          PrintT(<<"REPLAY", ToJson([n |-> NPoints, rrdp |-> Rrdp, runs |-> h])>>)
=============================================================================
