\* as shipped (expected to FAIL on C27_Alloc / C27_Outcome): binio.rs allocates `len` bytes before reading.
SPECIFICATION Spec
CONSTANTS
  Variant = "as_shipped"
  ValueMode = "star"
  CorrMode = "basic"
INVARIANTS C27_Alloc C27_Outcome C27_Terminates C28_RoundTrip PosInRange
CHECK_DEADLOCK TRUE
