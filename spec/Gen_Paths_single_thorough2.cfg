\* thorough export (4/4), singles: all kinds, <= 2 segments over the whole alphabet, scheme case and ports on,
\* authorities ".", "..", "" as well.
SPECIFICATION Spec
CONSTANTS
  Variant = "as_shipped"
  Kinds = {"mft", "mftn", "ta", "tah", "notify", "notify1"}
  Mode = "single"
  HostsR = {"h.test", "h.test.", "..", ""}
  HostsH = {"h.test", "h.test.", "..", ".", ""}
  HCases = {"lower", "mixed"}
  SCases = {"lower", "upper"}
  Ports = {"", "873"}
  Mods = {"m", "..", ""}
  Segs = {"a"}
  SegsAll = {"a", "A", ".", "..", "%2e%2e", "%2F", "a b", "", "x200", "x300"}
  NearSpread = 5
  MaxSegs = 2
INVARIANT Emit
CHECK_DEADLOCK FALSE
