\* export AND exhaustive check: both streams; per payload type EVERY action sequence (interleaving of
\* announcements and withdrawals) of length <= 3 (15 shapes, 3375 change sets; resets 0..3 items per type),
\* EVERY threshold; sizes: header 2, separator 2, footer 1, origin 1, router key 2, ASPA 3, comma 1.
SPECIFICATION Spec
CONSTANTS
  Shapes <- ShapesAll3
  Modes = {"delta", "reset"}
  SzHdr = 2
  SzSep = 2
  SzFoot = 1
  SzO = 1
  SzK = 2
  SzA = 3
  Variant = "as_code"
INVARIANTS TypeOK Counter C18_Prefix C18_Exact C18_Progress Chunking Emit
CHECK_DEADLOCK TRUE
