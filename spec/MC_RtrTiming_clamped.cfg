\* with the interval clamped to 1 s the range holds
SPECIFICATION Spec
CONSTANTS
  Refresh = 8
  MaxDur = 3
  Horizon = 20
  Variant = "clamped"
INVARIANTS RefreshHintInRange
CHECK_DEADLOCK FALSE
