\* Part B (C36), exhaustive: threads {1, 2, 3}, addresses {1, 2} in every assignment, pre-registered address sets {{}, {0}, {3}, {0, 3}},
\* every interleaving of load / lock / reload / store / inc / dec; registry variant "as_coded"
SPECIFICATION SpecB
CONSTANTS
  MaxConn = 1
  MaxAcceptErr = 0
  Variant = "intended"
  Threads = {1, 2, 3}
  Addrs = {1, 2}
  PreLists = {{}, {0}, {3}, {0, 3}}
  RegVariant = "as_coded"
INVARIANTS TypeB C36_OneEntryPerAddress C36_Sorted C36_NoneLost C36_SameObjectPerAddress C36_CountsOpenConnections C36_ZeroWhenAllClosed
PROPERTIES C36_EntriesStable
CHECK_DEADLOCK FALSE
