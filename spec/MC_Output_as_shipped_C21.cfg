\* as shipped (expected to FAIL): trust-anchor names verbatim in json/slurm/slurm2, json_str without
\* control characters in jsonext; strings <= 3 classes.  (The formatter part is the same in both variants.)
SPECIFICATION Spec
CONSTANTS
  MaxItems = 1
  MaxSel = 0
  MaxStr = 3
  Variant = "as_shipped"
INVARIANTS
  C21_ListedExactlyOnce
  C21_NeverTooMuch
  C21_SelectionAsDocumented
  C21_WellFormed
  C21_LabelsStayInsideStrings
CHECK_DEADLOCK TRUE
