\* a wrong decision procedure (expected to FAIL): the policy "new" falls back from an expired copy as well
SPECIFICATION Spec
CONSTANTS MaxRuns = 2
  Variant = "mutant"
INVARIANTS C29_FollowsTable C29_RrdpOnlyIfAnnouncedAndEnabled
CHECK_DEADLOCK FALSE
