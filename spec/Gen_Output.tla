----------------------------- MODULE Gen_Output -----------------------------
(* Behaviour export for the spec -> implementation replay of Output.        *)
(* One line per case:                                                       *)
(*   kind "universe": the items, ASNs and query prefixes of the model and   *)
(*                    the 13 formats with family and listed payload types;  *)
(*   kind "case":     data set, selection, exclusions and the item set the  *)
(*                    documented selection admits (per type; the format     *)
(*                    table says which types a format can list);            *)
(*   kind "string":   a label string as a sequence of character classes,    *)
(*                    with the text the intended escaping writes for a JSON *)
(*                    string and for a Prometheus label value.              *)
(* Every case line also re-checks that the code-shaped inclusion test and   *)
(* the documented selection agree (TLC stops if they do not).               *)
EXTENDS Output, Json

VARIABLE g
gvars == <<g>>

Ids(S, t) == {x.id : x \in {y \in S : y.t = t}}
ByType(S) == [o |-> Ids(S, "o"), k |-> Ids(S, "k"), a |-> Ids(S, "a")]

CaseLine(d, s, e) ==
  [kind |-> "case",
   d    |-> ByType(d),
   asns |-> {r.asn : r \in {x \in s.res : x.kind = "asn"}},
   pfxs |-> {r.pfx : r \in {x \in s.res : x.kind = "pfx"}},
   more |-> s.more,
   excl |-> e,
   exp  |-> ByType(DocExpected(d, s, e))]

StringLine(s) ==
  [kind |-> "string", s |-> s, json |-> Escape("json_full", s), prom |-> Escape("prom", s)]

FormatNames == {"csv", "csvcompat", "csvext", "json", "jsonext", "slurm", "slurm2",
                "openbgpd", "bird1", "bird2", "rpsl", "summary", "none"}

UniverseLine ==
  [kind |-> "universe", items |-> Universe, asns |-> Asns, query_prefixes |-> QueryPrefixes,
   formats |-> {[name |-> n, family |-> Formats[n], lists |-> Lists(Formats[n])] : n \in FormatNames}]

GInit ==
  \* the variables of the state machine are not used by the export
  /\ mode = "gen" /\ fam = "none" /\ data = {} /\ sel = NoSelection /\ excl = {}
  /\ pc = "Done" /\ out = <<>> /\ str = <<>>
  /\ \/ g = [kind |-> "universe"]
     \/ \E d \in DataSets, s \in Selections, e \in Exclusions :
           g = [kind |-> "case", d |-> d, s |-> s, e |-> e]
     \/ \E s \in Strings : g = [kind |-> "string", s |-> s]
GNext == UNCHANGED <<gvars, vars>>
GSpec == GInit /\ [][GNext]_<<gvars, vars>>

Agree(d, s) == \A x \in d : CodeIncludes(s, x) = DocSelected(s, x)

Emit ==
  CASE g.kind = "universe" -> PrintT(<<"REPLAY", ToJson(UniverseLine)>>)
    [] g.kind = "case" ->
         /\ Assert(Agree(g.d, g.s), <<"inclusion test and documented selection differ", g>>)
         /\ PrintT(<<"REPLAY", ToJson(CaseLine(g.d, g.s, g.e))>>)
    [] OTHER -> PrintT(<<"REPLAY", ToJson(StringLine(g.s))>>)
=============================================================================
