\* exhaustive: every command x every outcome sequence of length <= 4; full refresh/min-refresh/expiry table over 1..4
SPECIFICATION Spec
CONSTANTS
  MaxLen = 6
  Variant = "intended"
  Times = {1, 2, 3, 4}
INVARIANTS C32_OneShotRuns C32_OneShotTerminates C32_OneShotErrorStatus C32_ServerRetriesOnce C32_FatalStops C34_Table C34_LatestRunCounts
PROPERTIES C33_FailedRunChangesNothing
CHECK_DEADLOCK FALSE
