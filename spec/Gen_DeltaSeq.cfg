\* ASPA-only universe (absent, {}, {1}, {2}, {1,2} for one customer) plus one origin: 10 data sets, all 100 000 sequences of five
SPECIFICATION QSpec
CONSTANTS
  NO = 1
  NK = 0
  NC = 1
  NP = 2
INVARIANTS Emit MergeEqualsDirect
CHECK_DEADLOCK FALSE
