\* thorough export (~67 k worlds): the rich-layout classes of quick plus pairs of prefix filters, two assertions
\* x filter, pairs of BGPsec filters; one-VRP worlds over all 22 VRPs per family x 4 rejected choices x all 24
\* filter shapes x assertion x limit x policy; all pairs of occurrences of the 22 VRPs; <= 2 router
\* certificates x filter x assertion x toggle; ASPA pairs and triples at real size, pairs with single-ASN providers
SPECIFICATION GSpec
CONSTANTS
  Tier = "gen_thorough"
  LimitLen = 1
  MaxProviders = 3
  BlockSize = 5460
  FixedOrder = TRUE
  Variant = "documented"
INVARIANT Emit
CHECK_DEADLOCK FALSE
