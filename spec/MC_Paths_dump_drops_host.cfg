\* seeded fault "dump_drops_host" (Paths.tla, DumpRrdpFilePath): objects of an RRDP repository are dumped without their rsync host; TLC must reject it (C30_Distinct)
SPECIFICATION Spec
CONSTANTS
  Variant = "dump_drops_host"
  Kinds = {"mftr"}
  Mode = "near"
  HostsR = {"h.test", "h.test."}
  HostsH = {"h.test", "h.test.", "..", ""}
  HCases = {"lower", "mixed"}
  SCases = {"lower"}
  Ports = {"", "873"}
  Mods = {"m", "n"}
  Segs = {"a", "A", "%2e%2e", ""}
  SegsAll = {"a"}
  NearSpread = 5
  MaxSegs = 2
INVARIANTS TypeOK C30_Confined C30_Distinct Storable
CHECK_DEADLOCK FALSE
