\* export of every complete history
SPECIFICATION MCSpec
CONSTANTS
  MaxEdits = 2
  Variant = "code"
INVARIANT Emit
CHECK_DEADLOCK FALSE
