------------------------------- MODULE Fetch -------------------------------
(***************************************************************************)
(* Fetching repositories during a validation run.                          *)
(*                                                                         *)
(* Part (a), C37: the once-per-run bookkeeping of                          *)
(*   src/collector/rsync.rs      Run::load_module      (lines 265-331)     *)
(*   src/collector/rrdp/base.rs  Run::load_repository  (lines 414-490)     *)
(* Both keep `updated` (keys already tried in this run) and `running`      *)
(* (key -> Arc<Mutex<()>>) behind two independent RwLocks.  One action per *)
(* lock region; the pc value of a thread is the name of the action it      *)
(* takes next, and (except "idle") the preemption point it is parked at:   *)
(*                                                                         *)
(*   pc          parked at                   next action                   *)
(*   idle        (not inside the function)   Check1   updated.read()       *)
(*   getmtx      *-after-first-check         GetMutex running.write().entry*)
(*   lock        *-after-mutex-clone         Lock     mutex.lock()         *)
(*   check2      *-after-lock                Check2   updated.read()       *)
(*   fetch       x-fetch-begin (harness)     FetchStart  request goes out  *)
(*   fetching    x-fetch-mid   (harness)     FetchEnd    data is complete  *)
(*   book1       x-fetch-end   (harness)     Book1    first bookkeeping wr.*)
(*   book2       *-between-bookkeeping       Book2    second bookkeeping wr*)
(*   unlock      *-after-bookkeeping         Unlock   guard dropped, return*)
(*                                                                         *)
(* Order = "remove_then_insert": rsync.rs as shipped (323: running.remove, *)
(*   328: updated.insert).  Order = "insert_then_remove": rrdp/base.rs     *)
(*   (480: updated.insert, 485: running.remove) and the intended rsync.    *)
(* Check2Removes: rrdp/base.rs:440 also removes the running entry when the *)
(*   second check finds the key updated; rsync.rs:294 does not.            *)
(*                                                                         *)
(* Part (b), C31: the dubious-host predicate (src/utils/uri.rs:26-47,      *)
(* call sites rsync.rs:305 and rrdp/base.rs:452) as a table over host      *)
(* classes, see HostRows below.                                            *)
(***************************************************************************)
EXTENDS Naturals, Sequences, FiniteSets, TLC

CONSTANTS Threads,        \* e.g. {"T1", "T2", "T3"}
          Keys,           \* rsync modules / rpkiNotify URIs, e.g. {"k1", "k2"}
          MaxCalls,       \* calls of load_module/load_repository per thread
          Order,          \* "remove_then_insert" | "insert_then_remove"
          Check2Removes,  \* BOOLEAN
          HostVariant     \* "intended" | "as_shipped" | "unknown_only"  (part b)

NoOne == "none"
NoKey == "nokey"
MaxMtx == Cardinality(Threads) * MaxCalls   \* every call creates at most one mutex

VARIABLES updated,     \* set of keys                     (Run::updated)
          running,     \* key -> mutex id, 0 = no entry   (Run::running)
          nextMtx,     \* next fresh mutex id
          owner,       \* mutex id -> thread holding it or NoOne
          pc,          \* thread -> label
          key,         \* thread -> key of the call in progress
          my,          \* thread -> mutex id it cloned (0 = none)
          calls,       \* thread -> number of calls started
          fetchCount,  \* key -> number of fetches started in this run   (ghost)
          finished,    \* key -> a fetch of the key has completed        (ghost)
          returned     \* thread -> keys for which a call of the thread has returned (ghost)

vars == <<updated, running, nextMtx, owner, pc, key, my, calls, fetchCount, finished, returned>>

Labels == {"idle", "getmtx", "lock", "check2", "fetch", "fetching", "book1", "book2", "unlock"}

TypeOK ==
  /\ updated \subseteq Keys
  /\ running \in [Keys -> 0..MaxMtx]
  /\ nextMtx \in 1..(MaxMtx + 1)
  /\ owner \in [1..MaxMtx -> Threads \cup {NoOne}]
  /\ pc \in [Threads -> Labels]
  /\ key \in [Threads -> Keys \cup {NoKey}]
  /\ my \in [Threads -> 0..MaxMtx]
  /\ calls \in [Threads -> 0..MaxCalls]
  /\ fetchCount \in [Keys -> Nat]
  /\ finished \in [Keys -> BOOLEAN]
  /\ returned \in [Threads -> SUBSET Keys]

Init ==
  /\ updated = {}
  /\ running = [k \in Keys |-> 0]
  /\ nextMtx = 1
  /\ owner = [m \in 1..MaxMtx |-> NoOne]
  /\ pc = [t \in Threads |-> "idle"]
  /\ key = [t \in Threads |-> NoKey]
  /\ my = [t \in Threads |-> 0]
  /\ calls = [t \in Threads |-> 0]
  /\ fetchCount = [k \in Keys |-> 0]
  /\ finished = [k \in Keys |-> FALSE]
  /\ returned = [t \in Threads |-> {}]

Return(t, k) == returned' = [returned EXCEPT ![t] = @ \cup {k}]

\* rsync.rs:273 / rrdp/base.rs:418 -- a call starts; already updated: return at once
Check1(t, k) ==
  /\ pc[t] = "idle" /\ calls[t] < MaxCalls
  /\ calls' = [calls EXCEPT ![t] = @ + 1]
  /\ key' = [key EXCEPT ![t] = k]
  /\ IF k \in updated
       THEN /\ Return(t, k) /\ UNCHANGED pc
       ELSE /\ pc' = [pc EXCEPT ![t] = "getmtx"] /\ UNCHANGED returned
  /\ UNCHANGED <<updated, running, nextMtx, owner, my, fetchCount, finished>>

\* rsync.rs:281-285 / rrdp/base.rs:426-430 -- one write lock on `running`
GetMutex(t) ==
  /\ pc[t] = "getmtx"
  /\ IF running[key[t]] = 0
       THEN /\ running' = [running EXCEPT ![key[t]] = nextMtx]
            /\ my' = [my EXCEPT ![t] = nextMtx]
            /\ nextMtx' = nextMtx + 1
       ELSE /\ my' = [my EXCEPT ![t] = running[key[t]]]
            /\ UNCHANGED <<running, nextMtx>>
  /\ pc' = [pc EXCEPT ![t] = "lock"]
  /\ UNCHANGED <<updated, owner, key, calls, fetchCount, finished, returned>>

\* rsync.rs:291 / rrdp/base.rs:436 -- blocks while another thread owns the mutex
Lock(t) ==
  /\ pc[t] = "lock" /\ owner[my[t]] = NoOne
  /\ owner' = [owner EXCEPT ![my[t]] = t]
  /\ pc' = [pc EXCEPT ![t] = "check2"]
  /\ UNCHANGED <<updated, running, nextMtx, key, my, calls, fetchCount, finished, returned>>

\* rsync.rs:294-296 / rrdp/base.rs:439-442 -- second check under the mutex
Check2(t) ==
  /\ pc[t] = "check2"
  /\ IF key[t] \in updated
       THEN /\ owner' = [owner EXCEPT ![my[t]] = NoOne]
            /\ my' = [my EXCEPT ![t] = 0]
            /\ running' = IF Check2Removes THEN [running EXCEPT ![key[t]] = 0] ELSE running
            /\ pc' = [pc EXCEPT ![t] = "idle"]
            /\ Return(t, key[t])
       ELSE /\ pc' = [pc EXCEPT ![t] = "fetch"]
            /\ UNCHANGED <<owner, my, running, returned>>
  /\ UNCHANGED <<updated, nextMtx, key, calls, fetchCount, finished>>

\* rsync.rs:312 command.update / rrdp/base.rs:464 try_update: the request goes out ...
FetchStart(t) ==
  /\ pc[t] = "fetch"
  /\ fetchCount' = [fetchCount EXCEPT ![key[t]] = @ + 1]
  /\ pc' = [pc EXCEPT ![t] = "fetching"]
  /\ UNCHANGED <<updated, running, nextMtx, owner, key, my, calls, finished, returned>>

\* ... and the data has arrived completely
FetchEnd(t) ==
  /\ pc[t] = "fetching"
  /\ finished' = [finished EXCEPT ![key[t]] = TRUE]
  /\ pc' = [pc EXCEPT ![t] = "book1"]
  /\ UNCHANGED <<updated, running, nextMtx, owner, key, my, calls, fetchCount, returned>>

Remove(t) == running' = [running EXCEPT ![key[t]] = 0] /\ UNCHANGED updated
Insert(t) == updated' = updated \cup {key[t]} /\ UNCHANGED running

\* rsync.rs:323 (remove) / rrdp/base.rs:480 (insert)
Book1(t) ==
  /\ pc[t] = "book1"
  /\ IF Order = "remove_then_insert" THEN Remove(t) ELSE Insert(t)
  /\ pc' = [pc EXCEPT ![t] = "book2"]
  /\ UNCHANGED <<nextMtx, owner, key, my, calls, fetchCount, finished, returned>>

\* rsync.rs:328 (insert) / rrdp/base.rs:485 (remove)
Book2(t) ==
  /\ pc[t] = "book2"
  /\ IF Order = "remove_then_insert" THEN Insert(t) ELSE Remove(t)
  /\ pc' = [pc EXCEPT ![t] = "unlock"]
  /\ UNCHANGED <<nextMtx, owner, key, my, calls, fetchCount, finished, returned>>

\* end of the function: the mutex guard is dropped, the caller gets its answer
Unlock(t) ==
  /\ pc[t] = "unlock"
  /\ owner' = [owner EXCEPT ![my[t]] = NoOne]
  /\ my' = [my EXCEPT ![t] = 0]
  /\ pc' = [pc EXCEPT ![t] = "idle"]
  /\ Return(t, key[t])
  /\ UNCHANGED <<updated, running, nextMtx, key, calls, fetchCount, finished>>

AllDone == \A t \in Threads : pc[t] = "idle" /\ calls[t] = MaxCalls

Step(t) ==
  \/ \E k \in Keys : Check1(t, k)
  \/ GetMutex(t) \/ Lock(t) \/ Check2(t) \/ FetchStart(t) \/ FetchEnd(t)
  \/ Book1(t) \/ Book2(t) \/ Unlock(t)

Next == (\E t \in Threads : Step(t)) \/ (AllDone /\ UNCHANGED vars)

Spec == Init /\ [][Next]_vars

(***************************************************************************)
(* C37                                                                     *)
(***************************************************************************)
\* every key is fetched at most once per run
C37_AtMostOnce == \A k \in Keys : fetchCount[k] <= 1

\* a user gets its answer for k only after the fetch of k has finished
\* (finished is monotonic, so the state predicate says "at return time")
C37_WaitsForFetch == \A t \in Threads : \A k \in returned[t] : finished[k]

\* the mutex is a mutex, and only its owner is inside the critical section
MutexOwned == \A t \in Threads :
  pc[t] \in {"check2", "fetch", "fetching", "book1", "book2", "unlock"} => (my[t] # 0 /\ owner[my[t]] = t)

\* no thread waits for ever: with CHECK_DEADLOCK on, every state but AllDone has a successor

(***************************************************************************)
(* Part (b): dubious hosts (C31).                                          *)
(* A row = one class of authority as it can appear in a caRepository       *)
(* (rsync) or rpkiNotify (https) URI.  Attributes of the class:            *)
(*   localhost  the host is "localhost" in any letter case                 *)
(*   ip         the host is an IPv4 / IPv6 address literal                 *)
(*   port       the authority carries an explicit port                     *)
(*   exact      the raw authority is byte-equal to "localhost"             *)
(*   colon      the raw authority contains ':'                             *)
(*   ipparse    std::net::IpAddr::from_str accepts the raw authority       *)
(*   parses     rpki::uri::{Rsync,Https} accepts the URI at all ('[', ']'  *)
(*              and '@' are not in its alphabet): if not, the class cannot *)
(*              reach Routinator's fetch code                              *)
(*   stated     FALSE for forms the statement of C31 does not speak about  *)
(*              (inet_aton short forms, trailing dots, percent-encoding):  *)
(*              observed and reported, never judged                        *)
(***************************************************************************)
Row(c, a, lh, ip, po, ex, co, pa, ps, st) ==
  [class |-> c, auth |-> a, localhost |-> lh, ip |-> ip, port |-> po,
   exact |-> ex, colon |-> co, ipparse |-> pa, parses |-> ps, stated |-> st]

HostRows == {
  Row("name",            "repo.verif.test",      FALSE, FALSE, FALSE, FALSE, FALSE, FALSE, TRUE,  TRUE),
  Row("name_upper",      "REPO.Verif.TEST",      FALSE, FALSE, FALSE, FALSE, FALSE, FALSE, TRUE,  TRUE),
  Row("name_dot",        "repo.verif.test.",     FALSE, FALSE, FALSE, FALSE, FALSE, FALSE, TRUE,  TRUE),
  Row("name_digits",     "1234.verif.test",      FALSE, FALSE, FALSE, FALSE, FALSE, FALSE, TRUE,  TRUE),
  Row("localhost",       "localhost",            TRUE,  FALSE, FALSE, TRUE,  FALSE, FALSE, TRUE,  TRUE),
  Row("localhost_upper", "LOCALHOST",            TRUE,  FALSE, FALSE, FALSE, FALSE, FALSE, TRUE,  TRUE),
  Row("localhost_mixed", "LocalHost",            TRUE,  FALSE, FALSE, FALSE, FALSE, FALSE, TRUE,  TRUE),
  Row("localhost_port",  "localhost:8873",       TRUE,  FALSE, TRUE,  FALSE, TRUE,  FALSE, TRUE,  TRUE),
  Row("localhost_upper_port", "LOCALHOST:8873",  TRUE,  FALSE, TRUE,  FALSE, TRUE,  FALSE, TRUE,  TRUE),
  Row("ipv4",            "192.0.2.7",            FALSE, TRUE,  FALSE, FALSE, FALSE, TRUE,  TRUE,  TRUE),
  Row("ipv4_loopback",   "127.0.0.1",            FALSE, TRUE,  FALSE, FALSE, FALSE, TRUE,  TRUE,  TRUE),
  Row("ipv4_port",       "192.0.2.7:8873",       FALSE, TRUE,  TRUE,  FALSE, TRUE,  FALSE, TRUE,  TRUE),
  Row("ipv6_bare",       "2001:db8::7",          FALSE, TRUE,  FALSE, FALSE, TRUE,  TRUE,  TRUE,  TRUE),
  Row("ipv6_bare_loopback", "::1",               FALSE, TRUE,  FALSE, FALSE, TRUE,  TRUE,  TRUE,  TRUE),
  Row("ipv6_bare_upper", "2001:DB8::A",          FALSE, TRUE,  FALSE, FALSE, TRUE,  TRUE,  TRUE,  TRUE),
  Row("ipv6_bracket",    "[2001:db8::7]",        FALSE, TRUE,  FALSE, FALSE, TRUE,  FALSE, FALSE, TRUE),
  Row("ipv6_bracket_port", "[2001:db8::7]:8873", FALSE, TRUE,  TRUE,  FALSE, TRUE,  FALSE, FALSE, TRUE),
  Row("name_port",       "repo.verif.test:8873", FALSE, FALSE, TRUE,  FALSE, TRUE,  FALSE, TRUE,  TRUE),
  Row("name_port_default", "repo.verif.test:873", FALSE, FALSE, TRUE, FALSE, TRUE,  FALSE, TRUE,  TRUE),
  Row("name_port_empty", "repo.verif.test:",     FALSE, FALSE, TRUE,  FALSE, TRUE,  FALSE, TRUE,  TRUE),
  Row("userinfo_localhost", "u@localhost",       TRUE,  FALSE, FALSE, FALSE, FALSE, FALSE, FALSE, TRUE),
  \* outside the statement: observed only
  Row("obs_localhost_dot", "localhost.",         FALSE, FALSE, FALSE, FALSE, FALSE, FALSE, TRUE,  FALSE),
  Row("obs_ipv4_dot",    "127.0.0.1.",           FALSE, FALSE, FALSE, FALSE, FALSE, FALSE, TRUE,  FALSE),
  Row("obs_ipv4_short",  "127.1",                FALSE, FALSE, FALSE, FALSE, FALSE, FALSE, TRUE,  FALSE),
  Row("obs_ipv4_int",    "2130706433",           FALSE, FALSE, FALSE, FALSE, FALSE, FALSE, TRUE,  FALSE),
  Row("obs_ipv4_hex",    "0x7f.0.0.1",           FALSE, FALSE, FALSE, FALSE, FALSE, FALSE, TRUE,  FALSE),
  Row("obs_pct_localhost", "%6cocalhost",        FALSE, FALSE, FALSE, FALSE, FALSE, FALSE, TRUE,  FALSE)
}

UriKinds == {"caRepository", "rpkiNotify"}

\* The statement of C31: with the filter on, no request for these.
MustNotFetch(r, allow) == ~allow /\ r.stated /\ (r.localhost \/ r.ip \/ r.port)

\* has_dubious_authority, utils/uri.rs:26-47.  as_shipped compares the raw
\* authority with "localhost" (F12); intended compares case-insensitively.
CodeDubious(r) ==
  \/ IF HostVariant = "as_shipped" THEN r.exact ELSE r.localhost /\ ~r.colon
  \/ r.colon
  \/ r.ipparse

\* rsync.rs:305, rrdp/base.rs:452: a request is started unless filtered
\* (the same predicate at both call sites, so the kind does not matter in the model).
\* known: the cache holds a copy of this repository from an earlier run (one with the option on): the filter is
\* applied before the copy is looked at, so it plays no role - except in the variant "unknown_only", where only
\* repositories seen for the first time are filtered.
Requests(r, kind, allow, known) ==
  r.parses /\ ~(~allow /\ CodeDubious(r) /\ (HostVariant = "unknown_only" /\ kind = "rpkiNotify" => ~known))

C31_Row(r, kind, allow, known) == MustNotFetch(r, allow) => ~Requests(r, kind, allow, known)
=============================================================================
