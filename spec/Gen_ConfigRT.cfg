\* quick export: the default configuration, every option x every class x source (one setting),
\* every pair of settings at typical non-default values (file or command line).
\* Variant = as_shipped: the command line domain and the predictions are those of the pinned code.
SPECIFICATION GSpec
CONSTANTS
  Opts <- AllOpts
  MaxSet = 2
  Variant = "as_shipped"
  Targets = {0, 1, 2}
  Combine = "typical"
INVARIANT Emit
CHECK_DEADLOCK FALSE
