\* quick export: the default configuration, every option x every class x source (one setting),
\* every pair of settings at typical non-default values (file or command line).
\* Variant = as_shipped: the command line domain and the predictions are those of the pinned code.
\* Fixed names the deviations (D1..D5, see ConfigRT.tla) already repaired in /repo; after a `fix:` commit add its
\* id here (in all Gen_ConfigRT*.cfg and MC_ConfigRT_as_shipped.cfg) and drop the matching known: lines.
SPECIFICATION GSpec
CONSTANTS
  Opts <- AllOpts
  MaxSet = 2
  Variant = "as_shipped"
  Fixed = {"D1", "D4"}
  Targets = {0, 1, 2}
  Combine = "typical"
INVARIANT Emit
CHECK_DEADLOCK FALSE
