\* exhaustive: as MC_Refresh with up to two short elements (all pairs, all value combinations)
SPECIFICATION Spec
CONSTANTS
  Short <- ShortTimes
  Long = 30
  MaxShort = 2
  FaultSites = "all"
  MaxFaults = 2
  Variant = "code"
INVARIANTS
  C39_RefreshWithinBound C39_PerPoint C39_DefinedIffPayload OrderWindow HiIsBound SortedInWindow SnapshotOrderIndependent
PROPERTIES Terminates
