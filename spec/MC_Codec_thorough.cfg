\* thorough: C28 over the full product of the value classes of every record type (with and without trailing
\* bytes); C27 over all single corruptions with all 8 bits of every byte flipped, with trailing bytes present,
\* plus double corruptions (every overwrite followed by a truncation at every later field boundary).
SPECIFICATION Spec
CONSTANTS
  Variant = "intended"
  ValueMode = "full"
  CorrMode = "all"
INVARIANTS C27_Alloc C27_Outcome C27_Terminates C28_RoundTrip PosInRange
CHECK_DEADLOCK TRUE
