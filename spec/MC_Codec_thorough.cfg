\* thorough: C28 over the full product of the value classes of every record type (trailing bytes in TLC only
\* behind vectors with at most one field off base; the replay appends its own trailing bytes to every vector);
\* C27 over all single corruptions of every class vector with at most one field off base, with and without
\* trailing bytes, bits 0 and 7 of every byte flipped (all 8 bits for the base vector), plus double corruptions of the
\* base vector (every overwrite followed by a truncation at every later field boundary).
SPECIFICATION Spec
CONSTANTS
  Variant = "intended"
  ValueMode = "full"
  CorrMode = "all"
INVARIANTS C27_Alloc C27_Outcome C27_Terminates C28_RoundTrip PosInRange
CHECK_DEADLOCK TRUE
