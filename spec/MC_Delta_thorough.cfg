\* thorough: 200 data sets (2 origins, 1 key, 2 customers), histories of length <= 2
SPECIFICATION Spec
CONSTANTS
  NO = 2
  NK = 1
  NC = 2
  NP = 2
  MaxLen = 3
CONSTRAINT LenBound
INVARIANTS
  C11_EmptyIffEqual
  C11_Apply
  C11_Exact
  C11_Counts
  C12_MergeEqualsDirect
  C12_MergeInternal
  C12_CatchUp
  MergeOfEmptyIsIdentity
CHECK_DEADLOCK FALSE
