------------------------------ MODULE Gen_Rov ------------------------------
(* Behaviour export for the spec -> implementation replay of Rov.          *)
(* One behaviour = one data set (the VRPs in snapshot order) together with *)
(* every route query and, per query, what the specification expects:       *)
(*   - the RFC 6811 state (property level, unique),                        *)
(*   - the covering and the matching VRPs (property level, unique),        *)
(*   - the answer of the transcribed code: reason, description and the     *)
(*     three lists (the model's choice within the freedom of the property; *)
(*     the replayer treats a difference there as a model divergence, not   *)
(*     as a violation).                                                    *)
(* Data sets: every set of <= 2 VRPs with all routes; with MaxVrps = 3     *)
(* also every 3-element set within one address family, with the routes of  *)
(* that family (a VRP of the other family never covers; that is what the   *)
(* mixed pairs show).                                                      *)
(* Compact encoding (TLC prints up to 5*10^4 lines):                       *)
(*   VRP    <<fam, len, val, max, asn>>      val = the bits as a number    *)
(*   query  <<fam, len, val, asn, state, reason, description,              *)
(*            covering, matching, matched, bad_asn, bad_len>>              *)
(*          with VRPs given as 1-based indexes into the VRP list.          *)
EXTENDS RovOps, Json, TLC

VARIABLE gs
gvars == <<gs>>

Enc(v) == <<v.p.fam, PLen(v.p), Val(v.p.bits, PLen(v.p)), v.max, v.asn>>

Idx(seq, v) == CHOOSE i \in DOMAIN seq : seq[i] = v
IdxSeq(seq, s) == [i \in DOMAIN s |-> Idx(seq, s[i])]

(* `seq` = Origins(S), computed once per data set; Classify(r, S) is by     *)
(* definition the loop over it.                                            *)
Query(seq, S, r) ==
  LET l   == Loop(seq, r, 1, Empty3)
      cov == {i \in DOMAIN seq : Covers(seq[i].p, r.p)}
      mat == {i \in DOMAIN seq : Matches(r, seq[i])}
  IN
  <<r.p.fam, PLen(r.p), Val(r.p.bits, PLen(r.p)), r.asn,
    Rfc6811State(r, S), ReasonOf(l), DescriptionOf(l),
    cov, mat, IdxSeq(seq, l.matched), IdxSeq(seq, l.bad_asn), IdxSeq(seq, l.bad_len)>>

RoutesFor(S) ==
  IF Cardinality(S) = 3 THEN {r \in Routes : \E v \in S : v.p.fam = r.p.fam} ELSE Routes

Line(S) ==
  LET seq == Origins(S) IN
  [mb |-> MaxBits,
   v |-> [i \in DOMAIN seq |-> Enc(seq[i])],
   q |-> {Query(seq, S, r) : r \in RoutesFor(S)}]

GInit == gs = {}
GNext ==
  /\ Cardinality(gs) < MaxVrps
  /\ \E v \in Vrps :
       /\ \A w \in gs : VrpLess(w, v)           \* each set once
       /\ Cardinality(gs) = 2 => \A w \in gs : w.p.fam = v.p.fam
       /\ gs' = gs \cup {v}
GSpec == GInit /\ [][GNext]_gvars

Emit == PrintT(<<"REPLAY", ToJson(Line(gs))>>)
=============================================================================
