\* vacuity run (-coverage 1, every action must be taken): data sets of <= 1 item out of the 7-item universe (3 origins, 2 router keys, 2 ASPAs),
\* no selection, all 8 type
\* exclusions, all 6 format families, every state of the stream state machine; every string of <= 1
\* character classes at every escaping site.
SPECIFICATION Spec
CONSTANTS
  MaxItems = 1
  MaxSel = 0
  MaxStr = 1
  Variant = "intended"
INVARIANTS
  C21_ListedExactlyOnce
  C21_NeverTooMuch
  C21_SelectionAsDocumented
  C21_WellFormed
  C21_LabelsStayInsideStrings
  C22_StatusStringsRoundTrip
  C22_MetricsLabelsRoundTrip
  C22_NoRawSpecials
CHECK_DEADLOCK TRUE
