---- MODULE Paths_TTrace_1790096149 ----
EXTENDS Sequences, TLCExt, Toolbox, Naturals, TLC, Paths

_expression ==
    LET Paths_TEExpression == INSTANCE Paths_TEExpression
    IN Paths_TEExpression!expression
----

_trace ==
    LET Paths_TETrace == INSTANCE Paths_TETrace
    IN Paths_TETrace!trace
----

_inv ==
    ~(
        TLCGet("level") = Len(_TETrace)
        /\
        phase = ("done")
        /\
        kind = ("mftr")
        /\
        ents = (<<{[n |-> <<"dump", "rrdp", "r.test", "rsync", "m", "a">>, p |-> <<"dump", "rrdp", "r.test", "rsync", "m", "a">>, t |-> "file", esc |-> FALSE, w |-> "dump"], [n |-> <<"dump", "store", "r.test", "h.test", "#(rsync://h.test/m/a)", "manifest">>, p |-> <<"dump", "store", "r.test", "h.test", "#(rsync://h.test/m/a)", "manifest">>, t |-> "file", esc |-> FALSE, w |-> "dump"], [n |-> <<"cache", "stored", "rrdp", "r.test", "#(https://r.test//n/notification.xml)", "rsync", "h.test", "#(rsync://h.test/m/a)">>, p |-> <<"cache", "stored", "rrdp", "r.test", "#(https://r.test//n/notification.xml)", "rsync", "h.test", "#(rsync://h.test/m/a)">>, t |-> "file", esc |-> FALSE, w |-> "run"]}, {[n |-> <<"dump", "rrdp", "r.test", "rsync", "m", "a">>, p |-> <<"dump", "rrdp", "r.test", "rsync", "m", "a">>, t |-> "file", esc |-> FALSE, w |-> "dump"], [n |-> <<"dump", "store", "r.test", "h.test:873", "#(rsync://h.test:873/m/a)", "manifest">>, p |-> <<"dump", "store", "r.test", "h.test:873", "#(rsync://h.test:873/m/a)", "manifest">>, t |-> "file", esc |-> FALSE, w |-> "dump"], [n |-> <<"cache", "stored", "rrdp", "r.test", "#(https://r.test//n/notification.xml)", "rsync", "h.test:873", "#(rsync://h.test:873/m/a)">>, p |-> <<"cache", "stored", "rrdp", "r.test", "#(https://r.test//n/notification.xml)", "rsync", "h.test:873", "#(rsync://h.test:873/m/a)">>, t |-> "file", esc |-> FALSE, w |-> "run"]}>>)
        /\
        u1 = ([sch |-> "rsync", sc |-> "lower", host |-> "h.test", hc |-> "lower", port |-> "", mod |-> "m", path |-> <<"a">>])
        /\
        u2 = ([sch |-> "rsync", sc |-> "lower", host |-> "h.test", hc |-> "lower", port |-> "873", mod |-> "m", path |-> <<"a">>])
    )
----

_init ==
    /\ phase = _TETrace[1].phase
    /\ kind = _TETrace[1].kind
    /\ u1 = _TETrace[1].u1
    /\ u2 = _TETrace[1].u2
    /\ ents = _TETrace[1].ents
----

_next ==
    /\ \E i,j \in DOMAIN _TETrace:
        /\ \/ /\ j = i + 1
              /\ i = TLCGet("level")
        /\ phase  = _TETrace[i].phase
        /\ phase' = _TETrace[j].phase
        /\ kind  = _TETrace[i].kind
        /\ kind' = _TETrace[j].kind
        /\ u1  = _TETrace[i].u1
        /\ u1' = _TETrace[j].u1
        /\ u2  = _TETrace[i].u2
        /\ u2' = _TETrace[j].u2
        /\ ents  = _TETrace[i].ents
        /\ ents' = _TETrace[j].ents

\* Uncomment the ASSUME below to write the states of the error trace
\* to the given file in Json format. Note that you can pass any tuple
\* to `JsonSerialize`. For example, a sub-sequence of _TETrace.
    \* ASSUME
    \*     LET J == INSTANCE Json
    \*         IN J!JsonSerialize("Paths_TTrace_1790096149.json", _TETrace)

=============================================================================

 Note that you can extract this module `Paths_TEExpression`
  to a dedicated file to reuse `expression` (the module in the 
  dedicated `Paths_TEExpression.tla` file takes precedence 
  over the module `Paths_TEExpression` below).

---- MODULE Paths_TEExpression ----
EXTENDS Sequences, TLCExt, Toolbox, Naturals, TLC, Paths

expression == 
    [
        \* To hide variables of the `Paths` spec from the error trace,
        \* remove the variables below.  The trace will be written in the order
        \* of the fields of this record.
        phase |-> phase
        ,kind |-> kind
        ,u1 |-> u1
        ,u2 |-> u2
        ,ents |-> ents
        
        \* Put additional constant-, state-, and action-level expressions here:
        \* ,_stateNumber |-> _TEPosition
        \* ,_phaseUnchanged |-> phase = phase'
        
        \* Format the `phase` variable as Json value.
        \* ,_phaseJson |->
        \*     LET J == INSTANCE Json
        \*     IN J!ToJson(phase)
        
        \* Lastly, you may build expressions over arbitrary sets of states by
        \* leveraging the _TETrace operator.  For example, this is how to
        \* count the number of times a spec variable changed up to the current
        \* state in the trace.
        \* ,_phaseModCount |->
        \*     LET F[s \in DOMAIN _TETrace] ==
        \*         IF s = 1 THEN 0
        \*         ELSE IF _TETrace[s].phase # _TETrace[s-1].phase
        \*             THEN 1 + F[s-1] ELSE F[s-1]
        \*     IN F[_TEPosition - 1]
    ]

=============================================================================



Parsing and semantic processing can take forever if the trace below is long.
 In this case, it is advised to uncomment the module below to deserialize the
 trace from a generated binary file.

\*
\*---- MODULE Paths_TETrace ----
\*EXTENDS IOUtils, TLC, Paths
\*
\*trace == IODeserialize("Paths_TTrace_1790096149.bin", TRUE)
\*
\*=============================================================================
\*

---- MODULE Paths_TETrace ----
EXTENDS TLC, Paths

trace == 
    <<
    ([phase |-> "picked",kind |-> "mftr",ents |-> <<{}, {}>>,u1 |-> [sch |-> "rsync", sc |-> "lower", host |-> "h.test", hc |-> "lower", port |-> "", mod |-> "m", path |-> <<"a">>],u2 |-> [sch |-> "rsync", sc |-> "lower", host |-> "h.test", hc |-> "lower", port |-> "873", mod |-> "m", path |-> <<"a">>]]),
    ([phase |-> "done",kind |-> "mftr",ents |-> <<{[n |-> <<"dump", "rrdp", "r.test", "rsync", "m", "a">>, p |-> <<"dump", "rrdp", "r.test", "rsync", "m", "a">>, t |-> "file", esc |-> FALSE, w |-> "dump"], [n |-> <<"dump", "store", "r.test", "h.test", "#(rsync://h.test/m/a)", "manifest">>, p |-> <<"dump", "store", "r.test", "h.test", "#(rsync://h.test/m/a)", "manifest">>, t |-> "file", esc |-> FALSE, w |-> "dump"], [n |-> <<"cache", "stored", "rrdp", "r.test", "#(https://r.test//n/notification.xml)", "rsync", "h.test", "#(rsync://h.test/m/a)">>, p |-> <<"cache", "stored", "rrdp", "r.test", "#(https://r.test//n/notification.xml)", "rsync", "h.test", "#(rsync://h.test/m/a)">>, t |-> "file", esc |-> FALSE, w |-> "run"]}, {[n |-> <<"dump", "rrdp", "r.test", "rsync", "m", "a">>, p |-> <<"dump", "rrdp", "r.test", "rsync", "m", "a">>, t |-> "file", esc |-> FALSE, w |-> "dump"], [n |-> <<"dump", "store", "r.test", "h.test:873", "#(rsync://h.test:873/m/a)", "manifest">>, p |-> <<"dump", "store", "r.test", "h.test:873", "#(rsync://h.test:873/m/a)", "manifest">>, t |-> "file", esc |-> FALSE, w |-> "dump"], [n |-> <<"cache", "stored", "rrdp", "r.test", "#(https://r.test//n/notification.xml)", "rsync", "h.test:873", "#(rsync://h.test:873/m/a)">>, p |-> <<"cache", "stored", "rrdp", "r.test", "#(https://r.test//n/notification.xml)", "rsync", "h.test:873", "#(rsync://h.test:873/m/a)">>, t |-> "file", esc |-> FALSE, w |-> "run"]}>>,u1 |-> [sch |-> "rsync", sc |-> "lower", host |-> "h.test", hc |-> "lower", port |-> "", mod |-> "m", path |-> <<"a">>],u2 |-> [sch |-> "rsync", sc |-> "lower", host |-> "h.test", hc |-> "lower", port |-> "873", mod |-> "m", path |-> <<"a">>]])
    >>
----


=============================================================================

---- CONFIG Paths_TTrace_1790096149 ----
CONSTANTS
    Variant = "dump_drops_host"
    Kinds = { "mftr" }
    Mode = "near"
    HostsR = { "h.test" , "h.test." }
    HostsH = { "h.test" , "h.test." , ".." , "" }
    HCases = { "lower" , "mixed" }
    SCases = { "lower" }
    Ports = { "" , "873" }
    Mods = { "m" , "n" }
    Segs = { "a" , "A" , "%2e%2e" , "" }
    SegsAll = { "a" }
    NearSpread = 5
    MaxSegs = 2

INVARIANT
    _inv

CHECK_DEADLOCK
    \* CHECK_DEADLOCK off because of PROPERTY or INVARIANT above.
    FALSE

INIT
    _init

NEXT
    _next

CONSTANT
    _TETrace <- _trace

ALIAS
    _expression
=============================================================================
\* Generated on Tue Sep 22 16:56:00 UTC 2026