---- MODULE MC_Fallback_TTrace_1790087705 ----
EXTENDS Sequences, TLCExt, Toolbox, Naturals, TLC, MC_Fallback

_expression ==
    LET MC_Fallback_TEExpression == INSTANCE MC_Fallback_TEExpression
    IN MC_Fallback_TEExpression!expression
----

_trace ==
    LET MC_Fallback_TETrace == INSTANCE MC_Fallback_TETrace
    IN MC_Fallback_TETrace!trace
----

_inv ==
    ~(
        TLCGet("level") = Len(_TETrace)
        /\
        result = ("snapshot_fails")
        /\
        decision = ("rsync")
        /\
        rrdpOn = (TRUE)
        /\
        rrdpAsked = (TRUE)
        /\
        copy = ("current")
        /\
        rsyncOn = (TRUE)
        /\
        done = (TRUE)
        /\
        notify = (TRUE)
        /\
        outcome = ("unavailable")
        /\
        policy = ("stale")
    )
----

_init ==
    /\ result = _TETrace[1].result
    /\ notify = _TETrace[1].notify
    /\ done = _TETrace[1].done
    /\ rrdpAsked = _TETrace[1].rrdpAsked
    /\ outcome = _TETrace[1].outcome
    /\ decision = _TETrace[1].decision
    /\ policy = _TETrace[1].policy
    /\ copy = _TETrace[1].copy
    /\ rsyncOn = _TETrace[1].rsyncOn
    /\ rrdpOn = _TETrace[1].rrdpOn
----

_next ==
    /\ \E i,j \in DOMAIN _TETrace:
        /\ \/ /\ j = i + 1
              /\ i = TLCGet("level")
        /\ result  = _TETrace[i].result
        /\ result' = _TETrace[j].result
        /\ notify  = _TETrace[i].notify
        /\ notify' = _TETrace[j].notify
        /\ done  = _TETrace[i].done
        /\ done' = _TETrace[j].done
        /\ rrdpAsked  = _TETrace[i].rrdpAsked
        /\ rrdpAsked' = _TETrace[j].rrdpAsked
        /\ outcome  = _TETrace[i].outcome
        /\ outcome' = _TETrace[j].outcome
        /\ decision  = _TETrace[i].decision
        /\ decision' = _TETrace[j].decision
        /\ policy  = _TETrace[i].policy
        /\ policy' = _TETrace[j].policy
        /\ copy  = _TETrace[i].copy
        /\ copy' = _TETrace[j].copy
        /\ rsyncOn  = _TETrace[i].rsyncOn
        /\ rsyncOn' = _TETrace[j].rsyncOn
        /\ rrdpOn  = _TETrace[i].rrdpOn
        /\ rrdpOn' = _TETrace[j].rrdpOn

\* Uncomment the ASSUME below to write the states of the error trace
\* to the given file in Json format. Note that you can pass any tuple
\* to `JsonSerialize`. For example, a sub-sequence of _TETrace.
    \* ASSUME
    \*     LET J == INSTANCE Json
    \*         IN J!JsonSerialize("MC_Fallback_TTrace_1790087705.json", _TETrace)

=============================================================================

 Note that you can extract this module `MC_Fallback_TEExpression`
  to a dedicated file to reuse `expression` (the module in the 
  dedicated `MC_Fallback_TEExpression.tla` file takes precedence 
  over the module `MC_Fallback_TEExpression` below).

---- MODULE MC_Fallback_TEExpression ----
EXTENDS Sequences, TLCExt, Toolbox, Naturals, TLC, MC_Fallback

expression == 
    [
        \* To hide variables of the `MC_Fallback` spec from the error trace,
        \* remove the variables below.  The trace will be written in the order
        \* of the fields of this record.
        result |-> result
        ,notify |-> notify
        ,done |-> done
        ,rrdpAsked |-> rrdpAsked
        ,outcome |-> outcome
        ,decision |-> decision
        ,policy |-> policy
        ,copy |-> copy
        ,rsyncOn |-> rsyncOn
        ,rrdpOn |-> rrdpOn
        
        \* Put additional constant-, state-, and action-level expressions here:
        \* ,_stateNumber |-> _TEPosition
        \* ,_resultUnchanged |-> result = result'
        
        \* Format the `result` variable as Json value.
        \* ,_resultJson |->
        \*     LET J == INSTANCE Json
        \*     IN J!ToJson(result)
        
        \* Lastly, you may build expressions over arbitrary sets of states by
        \* leveraging the _TETrace operator.  For example, this is how to
        \* count the number of times a spec variable changed up to the current
        \* state in the trace.
        \* ,_resultModCount |->
        \*     LET F[s \in DOMAIN _TETrace] ==
        \*         IF s = 1 THEN 0
        \*         ELSE IF _TETrace[s].result # _TETrace[s-1].result
        \*             THEN 1 + F[s-1] ELSE F[s-1]
        \*     IN F[_TEPosition - 1]
    ]

=============================================================================



Parsing and semantic processing can take forever if the trace below is long.
 In this case, it is advised to uncomment the module below to deserialize the
 trace from a generated binary file.

\*
\*---- MODULE MC_Fallback_TETrace ----
\*EXTENDS IOUtils, TLC, MC_Fallback
\*
\*trace == IODeserialize("MC_Fallback_TTrace_1790087705.bin", TRUE)
\*
\*=============================================================================
\*

---- MODULE MC_Fallback_TETrace ----
EXTENDS TLC, MC_Fallback

trace == 
    <<
    ([result |-> "snapshot_fails",decision |-> "pending",rrdpOn |-> TRUE,rrdpAsked |-> FALSE,copy |-> "current",rsyncOn |-> TRUE,done |-> FALSE,notify |-> TRUE,outcome |-> "pending",policy |-> "stale"]),
    ([result |-> "snapshot_fails",decision |-> "pending",rrdpOn |-> TRUE,rrdpAsked |-> FALSE,copy |-> "current",rsyncOn |-> TRUE,done |-> FALSE,notify |-> TRUE,outcome |-> "unavailable",policy |-> "stale"]),
    ([result |-> "snapshot_fails",decision |-> "rsync",rrdpOn |-> TRUE,rrdpAsked |-> TRUE,copy |-> "current",rsyncOn |-> TRUE,done |-> TRUE,notify |-> TRUE,outcome |-> "unavailable",policy |-> "stale"])
    >>
----


=============================================================================

---- CONFIG MC_Fallback_TTrace_1790087705 ----
CONSTANTS
    Variant = "snapshot_first_removes"

INVARIANT
    _inv

CHECK_DEADLOCK
    \* CHECK_DEADLOCK off because of PROPERTY or INVARIANT above.
    FALSE

INIT
    _init

NEXT
    _next

CONSTANT
    _TETrace <- _trace

ALIAS
    _expression
=============================================================================
\* Generated on Tue Sep 22 14:35:06 UTC 2026