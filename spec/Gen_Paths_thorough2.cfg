\* thorough export (2/4), pairs: all six kinds with everything switched on: scheme case, trailing-dot host,
\* HTTPS authorities "" and "..", segments {a, A, %2e%2e, %2F, x200 (200 characters), ""}, <= 2 segments; the first URI of a pair deviates in at most two of (scheme case, host, host case, port, module) from the plain one.
SPECIFICATION Spec
CONSTANTS
  Variant = "as_shipped"
  Kinds = {"mft", "mftn", "mftr", "ta", "tah", "notify", "notify1"}
  Mode = "near"
  HostsR = {"h.test", "h.test."}
  HostsH = {"h.test", "h.test.", "..", ""}
  HCases = {"lower", "mixed"}
  SCases = {"lower", "upper"}
  Ports = {"", "873"}
  Mods = {"m", "n"}
  Segs = {"a", "A", "%2e%2e", "%2F", "x200", ""}
  SegsAll = {"a"}
  NearSpread = 2
  MaxSegs = 2
INVARIANT Emit
CHECK_DEADLOCK FALSE
