\* intended design, long delta chains: 4 server versions, 2 client runs, 1 fault (publishes only)
SPECIFICATION Spec
CONSTANTS
  Objs = {1, 2}
  MaxVer = 4
  MaxRuns = 2
  MaxFaults = 1
  EtagModes = {TRUE}
  WithExpiry = FALSE
  Variant = "intended"
CONSTRAINT OneSession
INVARIANTS TypeOK VersionsDistinct C25_UpdatedIsSnapshotAtSerial C25_UpdatedIsAnnounced C25_FailureNotUsed C25_NoCopyUnavailable
CHECK_DEADLOCK FALSE
