------------------------------ MODULE RunLoop ------------------------------
(***************************************************************************)
(* The run loops of the commands in src/operation.rs:                      *)
(*   vrps      (Vrps::run, operation.rs:672-696)  retry loop               *)
(*   validate  (Validate::get_snapshot)            single run              *)
(*   update    (Update::run)                       single run              *)
(*   server    (Server::run, operation.rs:268-335) initial / can_retry     *)
(* driven by a sequence of run outcomes chosen by the environment          *)
(* (ok, retry = retryable failure, fatal).                                 *)
(*                                                                         *)
(* Also: the effect of a run on the served data (C33) and the wait until   *)
(* the next run (C34, PayloadHistory::refresh_wait / mark_update_done).    *)
(*                                                                         *)
(* Variant "as_shipped": after the second retryable failure the vrps loop  *)
(* logs "Restarted run failed again. Aborting." and then retries anyway.   *)
(***************************************************************************)
EXTENDS Naturals, Integers, Sequences, TLC

CONSTANTS MaxLen,      \* length of the outcome sequence
          Variant,
          Times        \* time values for the scheduling part (C34), e.g. 1..5

Outcomes == {"ok", "retry", "fatal"}
Commands == {"vrps", "validate", "update", "server"}

VARIABLES cmd, outs,          \* chosen in Init
          i,                  \* outcomes consumed = validation runs started
          once,               \* vrps: already retried
          initial, canRetry,  \* server loop flags
          sanFails,           \* Engine::sanitize (the clean-up before a retried run) fails in this behaviour
          exit,               \* "running" | "ok" | "error" | "waiting" (server idle until next refresh)
          served,             \* C33: version counter of the served data (changes only on ok runs that change data)
          lastFailedChanged   \* C33: did a failed run change anything

vars == <<cmd, outs, i, once, initial, canRetry, sanFails, exit, served, lastFailedChanged>>

Seqs(n) == UNION {[1..k -> Outcomes] : k \in 1..n}

Init ==
  /\ cmd \in Commands
  /\ outs \in Seqs(MaxLen)
  /\ i = 0 /\ once = FALSE /\ initial = TRUE /\ canRetry = TRUE /\ sanFails \in BOOLEAN
  /\ exit = "running" /\ served = 0 /\ lastFailedChanged = FALSE

Next1 == outs[i + 1]

(* One validation run of the command `cmd`. *)
Run ==
  /\ exit = "running" /\ i < Len(outs)
  /\ i' = i + 1
  /\ LET o == Next1 IN
     /\ served' = IF o = "ok" THEN served + 1 ELSE served
     /\ lastFailedChanged' = FALSE      \* a failed run never reaches SharedHistory::update
     /\ CASE cmd \in {"validate", "update"} ->
               /\ exit' = IF o = "ok" THEN "ok" ELSE "error"
               /\ UNCHANGED <<once, initial, canRetry>>
          [] cmd = "vrps" ->
               IF o = "ok" THEN exit' = "ok" /\ UNCHANGED <<once, initial, canRetry>>
               ELSE IF o = "fatal" THEN exit' = "error" /\ UNCHANGED <<once, initial, canRetry>>
               ELSE \* retryable
                 IF once /\ Variant # "as_shipped"
                   THEN exit' = "error" /\ UNCHANGED <<once, initial, canRetry>>
                 \* operation.rs (Vrps::run): `else if engine.sanitize().is_ok() { once = true; continue }`, otherwise the error exit
                 ELSE IF sanFails /\ Variant # "retry_despite_failed_sanitize"
                   THEN exit' = "error" /\ UNCHANGED <<once, initial, canRetry>>
                   ELSE once' = (IF Variant = "retry_despite_failed_sanitize" THEN ~sanFails ELSE TRUE)
                        /\ exit' = "running" /\ UNCHANGED <<initial, canRetry>>
          [] cmd = "server" ->
               /\ initial' = FALSE
               /\ IF o = "ok" THEN exit' = "running" /\ UNCHANGED <<once, canRetry>>
                  ELSE IF o = "fatal" THEN exit' = "error" /\ UNCHANGED <<once, canRetry>>
                  ELSE IF initial THEN exit' = "running" /\ UNCHANGED <<once, canRetry>>
                  \* operation.rs:312-314: `if validation.sanitize().is_err() { break Err(Failed) }`
                  ELSE IF canRetry /\ sanFails THEN exit' = "error" /\ UNCHANGED <<once, canRetry>>
                  ELSE IF canRetry THEN canRetry' = FALSE /\ exit' = "running" /\ UNCHANGED once
                  ELSE exit' = "error" /\ UNCHANGED <<once, canRetry>>
  /\ UNCHANGED <<cmd, outs, sanFails>>

(* The environment has no more outcomes: a server keeps waiting, a        *)
(* one-shot command that is still running here would run again.            *)
Next == Run \/ (exit # "running" /\ UNCHANGED vars) \/ (i = Len(outs) /\ UNCHANGED vars)
Spec == Init /\ [][Next]_vars

-----------------------------------------------------------------------------
(* C32 *)
RetryableFailures(k) == LET S == {j \in 1..k : outs[j] = "retry"} IN S
C32_OneShotRuns ==
  /\ (cmd \in {"validate", "update"} => i <= 1)
  /\ (cmd = "vrps" => i <= 2)
C32_OneShotTerminates ==
  (cmd # "server" /\ i >= 2) => exit # "running"
C32_OneShotErrorStatus ==
  (cmd # "server" /\ exit = "ok") => outs[i] = "ok"
(* server: a run that fails retryably after the initial run is retried at  *)
(* most once; the next such failure shuts the server down.                 *)
C32_ServerRetriesOnce ==
  cmd = "server" =>
    LET later == {j \in 2..i : outs[j] = "retry"} IN
      /\ (exit = "running" => \A a, b \in later : a = b)
C32_FatalStops == (i > 0 /\ outs[i] = "fatal") => exit = "error"

(* C33 *)
C33_FailedRunChangesNothing ==
  [][ (i' = i + 1 /\ outs[i + 1] # "ok") => served' = served ]_vars

-----------------------------------------------------------------------------
(* C34: the wait before the next run after a successful regular run        *)
(* (history.rs:107-123 and 299-310).  All values in abstract time units.   *)
Past == 0 - 1     \* an expiry that has passed when the run completes (stale data accepted, or a long run)
RefreshWait(refresh, minRefresh, expiry) ==
  \* expiry: time until the data set expires, 0 = no expiry known, Past = it already has
  LET nextStart == IF expiry # 0 /\ expiry < refresh THEN expiry ELSE refresh
      \* history.rs:343-345: a start time that has passed counts as "now"; seeded fault "past_start_waits_refresh":
      \* it counts as a full refresh interval (the fallback update_wait uses)
      untilStart == IF nextStart >= 0 THEN nextStart
                    ELSE IF Variant = "past_start_waits_refresh" THEN refresh ELSE 0
      waitTime  == IF minRefresh = 0 THEN refresh ELSE minRefresh
  IN  IF untilStart > waitTime THEN untilStart ELSE waitTime
Max(a, b) == IF a > b THEN a ELSE b
Min(a, b) == IF a < b THEN a ELSE b
C34_Table ==
  \A refresh \in Times, minRefresh \in Times \cup {0}, expiry \in Times \cup {0, Past} :
    LET w == RefreshWait(refresh, minRefresh, expiry)
        lower == IF minRefresh = 0 THEN refresh ELSE minRefresh
        upper == Max(refresh, minRefresh)
    IN  /\ w >= lower /\ w <= upper
        /\ (minRefresh # 0 /\ expiry # 0 /\ expiry < refresh) => w = Max(expiry, minRefresh)

(* The expiry that counts is that of the data set of the run just          *)
(* completed (SharedHistory::update installs the new snapshot, which       *)
(* carries it, whether or not the payload differs; mark_update_done reads  *)
(* it from there).  Seeded fault "keep_unchanged_snapshot": a run whose    *)
(* payload equals the previous one leaves the old snapshot, and with it    *)
(* the old expiry, in place.                                               *)
ExpiryUsed(prev, cur, changed) ==
  IF Variant = "keep_unchanged_snapshot" /\ ~changed THEN prev ELSE cur
C34_LatestRunCounts ==
  \A refresh \in Times, minRefresh \in Times \cup {0}, prev \in Times \cup {0, Past}, cur \in Times \cup {0, Past},
     changed \in BOOLEAN :
    RefreshWait(refresh, minRefresh, ExpiryUsed(prev, cur, changed)) = RefreshWait(refresh, minRefresh, cur)
=============================================================================
