\* thorough (~125 k worlds, ~1.04 M states): the quick classes plus all pairs of prefix filters, two assertions x
\* filter, all sets of <= 2 BGPsec filters, the one-VRP class over the full universes (22 VRPs x 8 rejected
\* choices x 25 filters per family), all pairs of occurrences of the 22 VRPs, three ASPAs of one customer;
\* every thread order.
SPECIFICATION MCSpec
CONSTANTS
  Tier = "thorough"
  LimitLen = 1
  MaxProviders = 3
  BlockSize = 5460
  FixedOrder = FALSE
  Variant = "documented"
INVARIANTS
  C09_Composition C09_EachOnce C09_Count C09_AssertionsAlwaysServed C09_OnlyEnabled
  C09_NothingInvented C09_LimitIsOnPrefixLength WorldWellFormed
PROPERTIES C09_Terminates
