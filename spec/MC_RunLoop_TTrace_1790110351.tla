---- MODULE MC_RunLoop_TTrace_1790110351 ----
EXTENDS Sequences, TLCExt, Toolbox, Naturals, TLC, MC_RunLoop

_expression ==
    LET MC_RunLoop_TEExpression == INSTANCE MC_RunLoop_TEExpression
    IN MC_RunLoop_TEExpression!expression
----

_trace ==
    LET MC_RunLoop_TETrace == INSTANCE MC_RunLoop_TETrace
    IN MC_RunLoop_TETrace!trace
----

_inv ==
    ~(
        TLCGet("level") = Len(_TETrace)
        /\
        exit = ("running")
        /\
        outs = (<<"retry", "retry">>)
        /\
        canRetry = (TRUE)
        /\
        initial = (TRUE)
        /\
        lastFailedChanged = (FALSE)
        /\
        once = (FALSE)
        /\
        sanFails = (TRUE)
        /\
        served = (0)
        /\
        i = (2)
        /\
        cmd = ("vrps")
    )
----

_init ==
    /\ exit = _TETrace[1].exit
    /\ initial = _TETrace[1].initial
    /\ lastFailedChanged = _TETrace[1].lastFailedChanged
    /\ outs = _TETrace[1].outs
    /\ once = _TETrace[1].once
    /\ i = _TETrace[1].i
    /\ sanFails = _TETrace[1].sanFails
    /\ cmd = _TETrace[1].cmd
    /\ served = _TETrace[1].served
    /\ canRetry = _TETrace[1].canRetry
----

_next ==
    /\ \E i,j \in DOMAIN _TETrace:
        /\ \/ /\ j = i + 1
              /\ i = TLCGet("level")
        /\ exit  = _TETrace[i].exit
        /\ exit' = _TETrace[j].exit
        /\ initial  = _TETrace[i].initial
        /\ initial' = _TETrace[j].initial
        /\ lastFailedChanged  = _TETrace[i].lastFailedChanged
        /\ lastFailedChanged' = _TETrace[j].lastFailedChanged
        /\ outs  = _TETrace[i].outs
        /\ outs' = _TETrace[j].outs
        /\ once  = _TETrace[i].once
        /\ once' = _TETrace[j].once
        /\ i  = _TETrace[i].i
        /\ i' = _TETrace[j].i
        /\ sanFails  = _TETrace[i].sanFails
        /\ sanFails' = _TETrace[j].sanFails
        /\ cmd  = _TETrace[i].cmd
        /\ cmd' = _TETrace[j].cmd
        /\ served  = _TETrace[i].served
        /\ served' = _TETrace[j].served
        /\ canRetry  = _TETrace[i].canRetry
        /\ canRetry' = _TETrace[j].canRetry

\* Uncomment the ASSUME below to write the states of the error trace
\* to the given file in Json format. Note that you can pass any tuple
\* to `JsonSerialize`. For example, a sub-sequence of _TETrace.
    \* ASSUME
    \*     LET J == INSTANCE Json
    \*         IN J!JsonSerialize("MC_RunLoop_TTrace_1790110351.json", _TETrace)

=============================================================================

 Note that you can extract this module `MC_RunLoop_TEExpression`
  to a dedicated file to reuse `expression` (the module in the 
  dedicated `MC_RunLoop_TEExpression.tla` file takes precedence 
  over the module `MC_RunLoop_TEExpression` below).

---- MODULE MC_RunLoop_TEExpression ----
EXTENDS Sequences, TLCExt, Toolbox, Naturals, TLC, MC_RunLoop

expression == 
    [
        \* To hide variables of the `MC_RunLoop` spec from the error trace,
        \* remove the variables below.  The trace will be written in the order
        \* of the fields of this record.
        exit |-> exit
        ,initial |-> initial
        ,lastFailedChanged |-> lastFailedChanged
        ,outs |-> outs
        ,once |-> once
        ,i |-> i
        ,sanFails |-> sanFails
        ,cmd |-> cmd
        ,served |-> served
        ,canRetry |-> canRetry
        
        \* Put additional constant-, state-, and action-level expressions here:
        \* ,_stateNumber |-> _TEPosition
        \* ,_exitUnchanged |-> exit = exit'
        
        \* Format the `exit` variable as Json value.
        \* ,_exitJson |->
        \*     LET J == INSTANCE Json
        \*     IN J!ToJson(exit)
        
        \* Lastly, you may build expressions over arbitrary sets of states by
        \* leveraging the _TETrace operator.  For example, this is how to
        \* count the number of times a spec variable changed up to the current
        \* state in the trace.
        \* ,_exitModCount |->
        \*     LET F[s \in DOMAIN _TETrace] ==
        \*         IF s = 1 THEN 0
        \*         ELSE IF _TETrace[s].exit # _TETrace[s-1].exit
        \*             THEN 1 + F[s-1] ELSE F[s-1]
        \*     IN F[_TEPosition - 1]
    ]

=============================================================================



Parsing and semantic processing can take forever if the trace below is long.
 In this case, it is advised to uncomment the module below to deserialize the
 trace from a generated binary file.

\*
\*---- MODULE MC_RunLoop_TETrace ----
\*EXTENDS IOUtils, TLC, MC_RunLoop
\*
\*trace == IODeserialize("MC_RunLoop_TTrace_1790110351.bin", TRUE)
\*
\*=============================================================================
\*

---- MODULE MC_RunLoop_TETrace ----
EXTENDS TLC, MC_RunLoop

trace == 
    <<
    ([exit |-> "running",outs |-> <<"retry", "retry">>,canRetry |-> TRUE,initial |-> TRUE,lastFailedChanged |-> FALSE,once |-> FALSE,sanFails |-> TRUE,served |-> 0,i |-> 0,cmd |-> "vrps"]),
    ([exit |-> "running",outs |-> <<"retry", "retry">>,canRetry |-> TRUE,initial |-> TRUE,lastFailedChanged |-> FALSE,once |-> FALSE,sanFails |-> TRUE,served |-> 0,i |-> 1,cmd |-> "vrps"]),
    ([exit |-> "running",outs |-> <<"retry", "retry">>,canRetry |-> TRUE,initial |-> TRUE,lastFailedChanged |-> FALSE,once |-> FALSE,sanFails |-> TRUE,served |-> 0,i |-> 2,cmd |-> "vrps"])
    >>
----


=============================================================================

---- CONFIG MC_RunLoop_TTrace_1790110351 ----
CONSTANTS
    MaxLen = 4
    Variant = "retry_despite_failed_sanitize"
    Times = { 1 , 2 , 3 , 4 }

INVARIANT
    _inv

CHECK_DEADLOCK
    \* CHECK_DEADLOCK off because of PROPERTY or INVARIANT above.
    FALSE

INIT
    _init

NEXT
    _next

CONSTANT
    _TETrace <- _trace

ALIAS
    _expression
=============================================================================
\* Generated on Tue Sep 22 20:52:41 UTC 2026