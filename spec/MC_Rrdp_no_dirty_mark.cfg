\* only the gap check repaired (expected to FAIL: modified archive reported current after a failed delta + failed snapshot)
SPECIFICATION Spec
CONSTANTS
  Objs = {1, 2}
  MaxVer = 2
  MaxRuns = 3
  MaxFaults = 2
  EtagModes = {TRUE, FALSE}
  WithExpiry = FALSE
  Variant = "no_dirty_mark"
INVARIANTS TypeOK VersionsDistinct C25_UpdatedIsSnapshotAtSerial C25_UpdatedIsAnnounced C25_FailureNotUsed C25_NoCopyUnavailable
CHECK_DEADLOCK FALSE
