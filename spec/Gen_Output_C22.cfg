\* quick, C22: strings <= 3 classes (400); the case part is reduced to the empty data set
SPECIFICATION GSpec
CONSTANTS
  MaxItems = 0
  MaxSel = 0
  MaxStr = 3
  Variant = "intended"
INVARIANT Emit
CHECK_DEADLOCK FALSE
