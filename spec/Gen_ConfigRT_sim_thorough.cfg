\* thorough export (2/2), run with -simulate: random combinations of 2..6 settings, any class, any source.
SPECIFICATION GSpec
CONSTANTS
  Opts <- AllOpts
  MaxSet = 6
  Variant = "as_shipped"
  Targets = {2, 3, 4, 5, 6}
  Combine = "free"
INVARIANT Emit
CHECK_DEADLOCK FALSE
