\* thorough export (2/2), run with -simulate: random combinations of 2..6 settings, any class, any source.
\* Fixed names the deviations (D1..D5, see ConfigRT.tla) already repaired in /repo; after a `fix:` commit add its
\* id here (in all Gen_ConfigRT*.cfg and MC_ConfigRT_as_shipped.cfg) and drop the matching known: lines.
SPECIFICATION GSpec
CONSTANTS
  Opts <- AllOpts
  MaxSet = 6
  Variant = "as_shipped"
  Fixed = {"D1", "D4"}
  Targets = {2, 3, 4, 5, 6}
  Combine = "free"
INVARIANT Emit
CHECK_DEADLOCK FALSE
