------------------------------ MODULE SizeGate ------------------------------
(***************************************************************************)
(* The object size limit (max-object-size) as the RRDP/HTTPS collector     *)
(* applies it.  Property C38: with a limit L, objects larger than L are    *)
(* refused and objects up to L are accepted; with the limit disabled       *)
(* objects of any size are accepted.                                       *)
(*                                                                         *)
(* Code paths:                                                             *)
(*  "ta"       Run::load_ta (collector/rrdp/base.rs:371-397): compares the *)
(*             Content-Length with the limit, then reads the body through  *)
(*             LimitedDataRead;                                            *)
(*  "snapshot" SnapshotUpdate::publish (rrdp/update.rs:255-263),           *)
(*  "delta"    DeltaUpdate::publish (rrdp/update.rs:379-390): the decoded  *)
(*             object is read through LimitedDataRead (rrdp/http.rs:484);  *)
(*  "delta_replace"  the same element with a hash attribute: the object    *)
(*             replaces one the copy already holds (update_object instead  *)
(*             of publish_object; one read for both).                      *)
(*                                                                         *)
(* Both the configured limit and the Content-Length are Option<u64> in the *)
(* code; Rust orders None below every Some(_).  Variant "as_shipped" is    *)
(* the comparison as written (base.rs:376): Some(len) > None holds, so     *)
(* with the limit disabled every trust anchor certificate whose response   *)
(* carries a Content-Length is refused.  "intended" compares only when a   *)
(* limit is set.                                                           *)
(***************************************************************************)
EXTENDS Naturals

CONSTANTS Limits,    \* set of limits; 0 stands for "disabled" (None)
          Sizes,     \* object sizes
          Variant    \* "intended" | "as_shipped"

None == 0            \* Option::None for limit and Content-Length (sizes are >= 1)

VARIABLES limit, size, place, hasLen, accepted, done
vars == <<limit, size, place, hasLen, accepted, done>>

(* Option<u64> ordering of Rust: None < Some(x) *)
OptGreater(a, b) == IF a = None THEN FALSE ELSE IF b = None THEN TRUE ELSE a > b

(* LimitedDataRead (http.rs:484-521): error as soon as more than `left` bytes arrive *)
ReadOk(sz, lim) == lim = None \/ sz <= lim

TaGate(sz, len, lim) ==
  LET refusedByLength == IF Variant = "as_shipped" THEN OptGreater(len, lim)
                         ELSE (lim # None /\ len # None /\ len > lim)
  IN ~refusedByLength /\ ReadOk(sz, lim)

ObjGate(sz, lim) == ReadOk(sz, lim)

Init ==
  /\ limit \in Limits /\ size \in Sizes /\ place \in {"ta", "snapshot", "delta", "delta_replace"}
  /\ hasLen \in BOOLEAN
  /\ (place # "ta") => hasLen          \* the Content-Length only matters for the trust anchor request
  /\ accepted = FALSE /\ done = FALSE

Fetch ==
  /\ ~done /\ done' = TRUE
  /\ accepted' = IF place = "ta" THEN TaGate(size, IF hasLen THEN size ELSE None, limit)
                 ELSE ObjGate(size, limit)
  /\ UNCHANGED <<limit, size, place, hasLen>>

Spec == Init /\ [][Fetch]_vars

(* The rsync transport: the objects are written by the rsync command, so the *)
(* limit is enforced there; Routinator's part is to hand it over exactly     *)
(* (collector/rsync.rs:528): one --max-size=L with a limit, none without.     *)
RsyncArgs(lim) == IF lim = None THEN {} ELSE {<<"--max-size", lim>>}

C38_LimitExact == done => (accepted <=> (limit = None \/ size <= limit))
=============================================================================
