\* 3 points, up to 2 kills, any number of runs
SPECIFICATION Spec
CONSTANTS
  NPoints = 3
  MaxKills = 2
  Variant = "code"
INVARIANTS TypeOK C23_RunAfterKillCatchesUp
CHECK_DEADLOCK FALSE
