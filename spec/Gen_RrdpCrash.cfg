\* every server history of 2..3 versions over 2 objects x 2 contents (new sessions included), every base version
SPECIFICATION GSpec
CONSTANTS
  NObj = 2
  Vals = {1, 2}
  MaxVer = 3
  MaxKills = 0
  MaxRuns = 1
  Caches = TRUE
  Variant = "code"
INVARIANTS Emit C24_ReportedMeansEqual
CHECK_DEADLOCK FALSE
