\* a wrong planner (count_off_by_one, see DeltaPlan.tla): TLC must reject it
SPECIFICATION Spec
CONSTANTS
  MaxSerial = 5
  Counts = {1, 2, 4}
  ListLens = {2, 10}
  Variant = "count_off_by_one"
INVARIANTS DeltasExactlyTheMissingOnes DeltasWheneverUsable NeverMoreThanConfigured NothingOnlyWhenEqual
CHECK_DEADLOCK FALSE
