\* seeded fault forgets_numbered, TLC must reject
SPECIFICATION Spec
CONSTANTS
  Auths = {"h", "h-1"}
  Paths = {"a", "b", "c"}
  MaxRegs = 4
  Variant = "forgets_numbered"
INVARIANTS C30_DumpDirsDistinct 
CHECK_DEADLOCK FALSE
