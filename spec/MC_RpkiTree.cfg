\* exhaustive: 6 shapes x (no fault + every single fault at every site) x 4 configurations,
\* 2 validation threads, every schedule of the task queue
SPECIFICATION Spec
CONSTANTS
  Shapes <- AllShapes
  MaxFaults = 1
  Configs <- ConfigSet
  Threads = 2
INVARIANTS
  C01_OnlyValid C02_NothingLost OperationalMatchesDeclarative C02_Siblings
  C06_StaleReject C06_StaleTolerated C06_Premature C06_Descendants
  C07_DepthAndLoops C08_NoUnsafeUnderReject C08_NothingRemovedOtherwise C41_Isolation
PROPERTIES C07_Terminates
