\* exhaustive: the 4-object / 2-bucket archive, every single damaged header, index or object-header field
\* (magic, truncation, bucket count 0/1/3/huge, every index slot and next pointer -> every object, nil, mid-object,
\* end of file, past end of file; bad is_empty byte; name/data length short/long/huge) x every reader operation
\* (find of 3 present and 1 absent name, verify, objects).
SPECIFICATION Spec
CONSTANTS Variant = "intended"
INVARIANTS C27_ArchiveOutcome C27_ArchiveTerminates PristineReads
CHECK_DEADLOCK TRUE
