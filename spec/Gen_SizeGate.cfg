\* decision table export (rows with the accepted/refused verdict the property demands)
SPECIFICATION Spec
CONSTANTS
  Limits = {0, 10, 20}
  Sizes = {9, 10, 11, 19, 20, 21, 40}
  Variant = "intended"
INVARIANT Emit
CHECK_DEADLOCK FALSE
