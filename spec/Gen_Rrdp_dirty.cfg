\* behaviour export (two faults in one run, then a third run): objects {1, 2}, <= 2 server versions, 3 client runs, <= 2 faults, ETag {TRUE, FALSE}
\* (Variant comes from the environment variable RRDP_VARIANT, default as_shipped)
SPECIFICATION GSpec
CONSTANTS
  Objs = {1, 2}
  MaxVer = 2
  MaxRuns = 3
  MaxFaults = 2
  EtagModes = {TRUE, FALSE}
  WithExpiry = FALSE
  Variant <- GenVariant
CONSTRAINT Stop
INVARIANT Emit
CHECK_DEADLOCK FALSE
