\* as shipped (expected to FAIL): JsonBuilder/json_str without control characters in /api/v1/status,
\* Prometheus label values verbatim in /metrics; strings <= 3 classes.
SPECIFICATION Spec
CONSTANTS
  MaxItems = 0
  MaxSel = 0
  MaxStr = 3
  Variant = "as_shipped"
INVARIANTS
  C22_StatusStringsRoundTrip
  C22_MetricsLabelsRoundTrip
  C22_NoRawSpecials
CHECK_DEADLOCK TRUE
