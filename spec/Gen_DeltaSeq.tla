---------------------------- MODULE Gen_DeltaSeq ----------------------------
(* Longer histories for Delta: every sequence of five data sets, merged    *)
(* oldest first as PayloadHistory::delta_since does.  Merged deltas carry  *)
(* hidden bookkeeping (the ASPA providers a client originally had) that    *)
(* only shows when a merged delta is merged again, so two-delta merges     *)
(* (Gen_Delta) are not enough to bind the implementation.                  *)
EXTENDS DeltaOps, Json

VARIABLES s1, s2, s3, s4, s5
qvars == <<s1, s2, s3, s4, s5>>

RECURSIVE FoldMerge(_)
FoldMerge(ds) == IF Len(ds) = 1 THEN ds[1] ELSE Merge(FoldMerge(SubSeq(ds, 1, Len(ds) - 1)), ds[Len(ds)])

Line ==
  LET sets == <<s1, s2, s3, s4, s5>>
      ds == [i \in 1..4 |-> Construct(sets[i], sets[i + 1])]
  IN [sets |-> sets,
      merged |-> [k \in 2..4 |-> Actions(FoldMerge(SubSeq(ds, 1, k)))],
      direct |-> [k \in 2..4 |-> Actions(Construct(s1, sets[k + 1]))]]

QInit == s1 \in DataSets /\ s2 \in DataSets /\ s3 \in DataSets /\ s4 \in DataSets /\ s5 \in DataSets
QSpec == QInit /\ [][UNCHANGED qvars]_qvars
Emit == PrintT(<<"REPLAY", ToJson(Line)>>)
MergeEqualsDirect == LET l == Line IN \A k \in 2..4 : l.merged[k] = l.direct[k]
=============================================================================
