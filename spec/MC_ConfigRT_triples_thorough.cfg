\* thorough (2/2): 8 options of different kinds, every class, every combination of <= 3 settings.
SPECIFICATION Spec
CONSTANTS
  Opts <- TripleOpts
  MaxSet = 3
  Variant = "intended"
  Fixed = {}
INVARIANTS TypeOK C35_PrintedFileAccepted C35_RoundTrip
CHECK_DEADLOCK FALSE
