------------------------------ MODULE History ------------------------------
(***************************************************************************)
(* The payload history of the Routinator server: src/payload/history.rs.   *)
(*                                                                         *)
(* State: the current data set, the serial number (RFC 1982 arithmetic     *)
(* modulo M; M = 2^32 in the code), and a bounded queue of change sets     *)
(* ("deltas"), newest first.  Actions: a validation run installs a data    *)
(* set (SharedHistory::update -> push_delta), a failed run changes         *)
(* nothing.  Queries: delta_since / PayloadSource::diff, transcribed       *)
(* branch by branch.                                                       *)
(*                                                                         *)
(* Properties: C13 (serial synchronisation exact or refused), C14 (serial  *)
(* +1 per change, history bounded), C33 (failed run changes nothing).      *)
(*                                                                         *)
(* Variant = "as_shipped" keeps the two defects found in the pinned tree   *)
(* (push_delta never evicts when history-size = 0; delta_since falls out   *)
(* of its loop and answers with an empty change set when all comparisons   *)
(* are undefined); "intended" is the repaired design.                      *)
(***************************************************************************)
EXTENDS Naturals, Integers, Sequences, FiniteSets, TLC

CONSTANTS M,         \* modulus of the serial number space
          Keeps,     \* set of history sizes
          Sets,      \* data set identifiers
          MaxRuns,   \* bound on the number of runs
          Bases,     \* serials the history may be seeded at (hook H9); {} = natural start only
          Variant    \* "intended" | "as_shipped" | "truncate_to_keep"

Half == M \div 2
Add(s, n)  == (s + n) % M
Sub(s, n)  == (s + M - (n % M)) % M
Dist(a, b) == (a + (M - b)) % M                 \* a - b  (mod M)

(* RFC 1982 comparison (rpki::rtr::Serial::partial_cmp). *)
Cmp(a, b) == IF a = b THEN "eq"
             ELSE IF Dist(a, b) = Half THEN "undef"
             ELSE IF Dist(a, b) < Half THEN "gt" ELSE "lt"

NoSet == -1

VARIABLES keep,      \* configured history size
          cur,       \* current data set or NoSet before the first run
          serial,    \* serial of the current data set
          deltas,    \* retained change sets, newest first: [to, from, src, dst]
          issued,    \* ghost: every (serial, data set) this session has had, newest first
          runs,      \* number of runs so far
          lastRun    \* ghost: kind of the last step, for action properties

vars == <<keep, cur, serial, deltas, issued, runs, lastRun>>

Cap == IF keep = 0 THEN 1 ELSE keep             \* "at least one"

(* PayloadHistory::push_delta (history.rs:277) *)
Push(q, d) ==
  IF Variant = "as_shipped"
    THEN (IF Len(q) = keep THEN <<d>> \o SubSeq(q, 1, Len(q) - 1) ELSE <<d>> \o q)
  ELSE IF Variant = "truncate_to_keep"          \* push_front + truncate(keep): nothing left with history-size 0
    THEN SubSeq(<<d>> \o q, 1, IF Len(q) + 1 < keep THEN Len(q) + 1 ELSE keep)
    ELSE (IF Len(q) >= Cap THEN <<d>> \o SubSeq(q, 1, Cap - 1) ELSE <<d>> \o q)

Init ==
  /\ keep \in Keeps
  /\ cur = NoSet
  /\ serial = 0
  /\ deltas = <<>>
  /\ issued = <<>>
  /\ runs = 0
  /\ lastRun = "init"

(* The first successful run: installs data, no delta, serial stays 0. *)
FirstRun(d) ==
  /\ cur = NoSet
  /\ cur' = d
  /\ issued' = <<[s |-> serial, d |-> d]>>
  /\ runs' = runs + 1
  /\ lastRun' = "first"
  /\ UNCHANGED <<keep, serial, deltas>>

(* Hook H9: move the session to serial b by pushing an empty change set    *)
(* (b-1 -> b).  Only directly after the first run.                         *)
Seed(b) ==
  /\ cur # NoSet /\ runs = 1 /\ deltas = <<>> /\ lastRun = "first"
  /\ serial' = b
  /\ deltas' = Push(deltas, [to |-> b, from |-> Sub(b, 1), src |-> cur, dst |-> cur])
  /\ issued' = <<[s |-> b, d |-> cur], [s |-> Sub(b, 1), d |-> cur]>>
  /\ lastRun' = "seed"
  /\ UNCHANGED <<keep, cur, runs>>

(* A later successful run (SharedHistory::update). *)
Run(d) ==
  /\ cur # NoSet
  /\ runs' = runs + 1
  /\ cur' = d
  /\ IF d # cur
       THEN /\ serial' = Add(serial, 1)
            /\ deltas' = Push(deltas, [to |-> Add(serial, 1), from |-> serial, src |-> cur, dst |-> d])
            /\ issued' = <<[s |-> Add(serial, 1), d |-> d]>> \o issued
            /\ lastRun' = "changed"
       ELSE /\ UNCHANGED <<serial, deltas, issued>>
            /\ lastRun' = "same"
  /\ UNCHANGED keep

(* A failed run (retryable or fatal): Server::process_once returns before  *)
(* SharedHistory::update is reached.                                       *)
RunFail ==
  /\ runs' = runs + 1
  /\ lastRun' = "failed"
  /\ UNCHANGED <<keep, cur, serial, deltas, issued>>

Next ==
  \/ \E d \in Sets : FirstRun(d) \/ Run(d)
  \/ \E b \in Bases : Seed(b)
  \/ RunFail

Spec == Init /\ [][Next]_vars

-----------------------------------------------------------------------------
(* delta_since (history.rs:335-385), transcribed.                          *)
(* Result: <<"refuse">>, <<"empty">> or <<"delta", i>> meaning the merge   *)
(* of deltas[i], deltas[i-1], ..., deltas[1] (oldest to newest).           *)

RECURSIVE Walk(_, _)
(* Iterates from the oldest delta (index i) towards the newest. *)
Walk(i, s) ==
  IF i = 0 THEN
       (IF Variant = "as_shipped" THEN <<"empty">> ELSE <<"refuse">>)   \* fell out of the loop
  ELSE LET c == Cmp(deltas[i].to, s) IN
       IF c = "gt" THEN <<"refuse">>
       ELSE IF c = "eq" THEN
              (IF i = 1 THEN <<"empty">> ELSE <<"delta", i - 1>>)
       ELSE Walk(i - 1, s)

DeltaSince(s) ==
  IF deltas # <<>> THEN
    LET f == deltas[1].to IN
    IF Cmp(f, s) = "lt" THEN <<"refuse">>
    ELSE IF f = s THEN <<"empty">>
    ELSE IF f = Add(s, 1) THEN <<"delta", 1>>
    ELSE Walk(Len(deltas), s)
  ELSE IF s = 0 THEN <<"empty">> ELSE <<"refuse">>

(* PayloadSource::diff: session check first. *)
Diff(own, s) == IF ~own THEN <<"refuse">> ELSE DeltaSince(s)

(* The data set a result turns into the current one: the source of the     *)
(* oldest merged change set (C12: the merge equals the direct delta).      *)
SrcOf(r) == IF r[1] = "empty" THEN cur ELSE deltas[r[2]].src

IsIssued(s)  == \E i \in 1..Len(issued) : issued[i].s = s
(* newest record wins if a serial value was reused after wrap-around *)
DataAt(s)    == issued[CHOOSE i \in 1..Len(issued) :
                         issued[i].s = s /\ \A j \in 1..(i-1) : issued[j].s # s].d
Window       == {deltas[i].to : i \in 1..Len(deltas)} \cup {serial}

-----------------------------------------------------------------------------
(* C13 for one query. *)
C13_Query(own, s) ==
  LET r == Diff(own, s) IN
  /\ (r[1] # "refuse") => /\ own
                          /\ IsIssued(s)
                          /\ SrcOf(r) = DataAt(s)
  /\ (own /\ s = serial) => r = <<"empty">>
  /\ (own /\ s \in Window) => r[1] # "refuse"
  /\ (~own \/ ~IsIssued(s)) => r = <<"refuse">>

(* Before the first run nothing is served at all (PayloadSource::ready),   *)
(* so queries are only meaningful once cur # NoSet.                        *)
QueryPoints == 0..(M - 1)

C13 == cur # NoSet => \A s \in QueryPoints : C13_Query(TRUE, s) /\ C13_Query(FALSE, s)

(* C14 *)
C14_Bounded == Len(deltas) <= Cap
(* The code has no serial of its own: PayloadHistory::serial() is the target *)
(* of the newest retained change set, or 0 without one.  The abstract serial *)
(* must be what that function returns - the reason why push_delta keeps "at  *)
(* least one delta since it carries the serial" even with history-size 0.    *)
C14_SerialCarried == serial = (IF deltas = <<>> THEN 0 ELSE deltas[1].to)
C14_Consecutive ==
  /\ (deltas # <<>> => deltas[1].to = serial)
  /\ \A i \in 1..Len(deltas) : deltas[i].from = Sub(deltas[i].to, 1)
  /\ \A i \in 1..(Len(deltas) - 1) : deltas[i].from = deltas[i+1].to
C14_Step == [][ /\ (lastRun' = "changed") => serial' = Add(serial, 1)
                /\ (lastRun' \in {"same", "failed", "first"}) => serial' = serial ]_vars
C14_FirstIsZero == (lastRun = "first") => serial = 0

(* C33 *)
C33_FailedRunChangesNothing ==
  [][ lastRun' = "failed" => UNCHANGED <<cur, serial, deltas>> ]_vars

=============================================================================
