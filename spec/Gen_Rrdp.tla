------------------------------ MODULE Gen_Rrdp ------------------------------
(* Behaviour export for Rrdp: one line per complete client/server history.   *)
(* A history = the server versions, and per client run: the server steps     *)
(* before it, the faults injected during it, and what the model expects      *)
(* afterwards (result, how, state record and object map of the local copy).  *)
EXTENDS Rrdp, Json, IOUtils

(* which variant of the model describes the tree under test: set by the driver (checks/rrdp.py) *)
GenVariant == IF "RRDP_VARIANT" \in DOMAIN IOEnv THEN IOEnv.RRDP_VARIANT ELSE "as_shipped"

VARIABLES h, envlog, plan

NoPlan == [notify |-> "ok", list |-> OkList, mut |-> 0, snap |-> "ok", dser |-> 0, dk |-> 0]

ghost == <<h, envlog, plan>>

GInit == Init /\ h = <<>> /\ envlog = <<>> /\ plan = NoPlan

LogEnv(rec) == envlog' = Append(envlog, rec) /\ UNCHANGED <<h, plan>>

GEnv ==
  \/ \E S \in SUBSET Objs : \E W \in SUBSET S :
        Cardinality(S) <= 2 /\ EnvPublish(S, W) /\ LogEnv([op |-> "publish", v |-> Len(vers) + 1])
  \/ \E keep \in BOOLEAN, o \in Objs \cup {0} :
        EnvNewSession(keep, o) /\ LogEnv([op |-> "newsession", v |-> Len(vers) + 1])
  \/ \E v \in 1..MaxVer : EnvAnnounce(v) /\ LogEnv([op |-> "announce", v |-> v])
  \/ EnvExpire /\ LogEnv([op |-> "expire", v |-> 0])

GClient ==
  \/ StartRun /\ UNCHANGED ghost
  \/ \E nf \in {"ok", "err", "xml"}, lf \in ListFaults(DChain(cur)), mut \in {0} \cup Serials :
        /\ GetNotify(nf, lf, mut)
        /\ plan' = [plan EXCEPT !.notify = nf, !.list = lf, !.mut = mut]
        /\ UNCHANGED <<h, envlog>>
  \/ (CheckDeltas \/ CalcDeltas \/ ApplyElem \/ UpdateState \/ Finish) /\ UNCHANGED ghost
  \/ \E f \in {NoFault} \cup 0..Cardinality(Objs) :
        /\ FetchDelta(f)
        \* the server double keeps one delta file fault per run, in force for every request of that file
        /\ f # NoFault => (plan.dser = 0 /\ plan.list.k # "dup")
        /\ plan' = IF f = NoFault THEN plan ELSE [plan EXCEPT !.dser = Head(todo).serial, !.dk = f]
        /\ UNCHANGED <<h, envlog>>
  \/ \E sf \in {"ok", "fail"} :
        /\ Snapshot(sf) /\ plan' = [plan EXCEPT !.snap = sf] /\ UNCHANGED <<h, envlog>>
  \/ /\ Classify
     /\ h' = Append(h, [env |-> envlog, plan |-> plan,
                        exp |-> [result |-> result', via |-> via, present |-> local.present, sess |-> local.sess,
                                 serial |-> local.serial, objs |-> local.objs, etagv |-> local.etag.v]])
     /\ envlog' = <<>> /\ plan' = NoPlan

GNext == GEnv \/ GClient
GSpec == GInit /\ [][GNext]_<<vars, ghost>>

(* nothing after the last run *)
Stop == ~(pc = "idle" /\ runs = MaxRuns)

(* focus for the long-chain export: one session, the newest version announced *)
OneSession == (\A i \in 1..Len(vers) : V(i).sess = 1) /\ ~moved /\ cur = Len(vers)

(* focus for the three-run export: the first run only brings the local copy into being *)
FirstRunClean == (runs = 0) => (faults = 0)

Emit == (pc = "done" /\ runs = MaxRuns) =>
          PrintT(<<"REPLAY", ToJson([vers |-> vers, etag |-> etagOn, variant |-> Variant, runs |-> h])>>)
=============================================================================
