---------------------------- MODULE Trace_History ----------------------------
(* Trace validation for the payload history (C13, C14): executions of the    *)
(* real SharedHistory recorded by the random driver `vh histtrace` must be   *)
(* behaviours of this specification.  Direction implementation -> spec; the  *)
(* other direction (TLC behaviours of History.tla replayed into the code)    *)
(* is Gen_History.  The driver runs far beyond the bounds of the exhaustive  *)
(* model: 20..60 steps per episode, history sizes 0..10, start serials next  *)
(* to both wraps of the 32-bit space, six payload items of two types.        *)
(*                                                                           *)
(* Serials are logged as signed 32-bit integers and used as names: the only  *)
(* operations are equality and Succ (with the wrap written out), so nothing  *)
(* overflows TLC's integers.                                                 *)
(*                                                                           *)
(*   reset{keep}         a new history with history-size keep                *)
(*   seed{serial}        hook H9: the session starts at this serial          *)
(*   run{set,changed,serial,ndeltas}   update() + mark_update_done()         *)
(*   query{serial,own,res,ann,wd,dup,tag,tagown}   PayloadSource::diff       *)
EXTENDS Integers, Sequences, FiniteSets, TLC, Json, IOUtils

Rec == ndJsonDeserialize(IOEnv.TRACE)
(* MODE = "C14": only the run events are judged (queries are accepted as     *)
(* they are); MODE = "C13": only the queries are judged, and the log takes   *)
(* the serials the implementation reported, so that a defect in one half     *)
(* does not leave the other half of the trace unexamined.                    *)
Mode == IOEnv.MODE

VARIABLES l,        \* position in Rec
          keep,     \* history-size of this episode
          start,    \* serial the first data set gets
          log,      \* issued (serial, data set) pairs of this episode, newest first
          npush     \* change sets pushed so far (the seed hook pushes an empty one)
tvars == <<l, keep, start, log, npush>>

MinInt == -2147483647 - 1
Succ(s) == IF s = 2147483647 THEN MinInt ELSE s + 1
SetOf(seq) == {seq[i] : i \in DOMAIN seq}
Cap == IF keep = 0 THEN 1 ELSE keep

TInit == l = 1 /\ keep = 0 /\ start = 0 /\ log = <<>> /\ npush = 0

IsEvent(e) == l <= Len(Rec) /\ Rec[l].ev = e /\ l' = l + 1

TReset ==
  /\ IsEvent("reset")
  /\ keep' = Rec[l].keep /\ start' = 0 /\ log' = <<>> /\ npush' = 0

TSeed ==
  /\ IsEvent("seed")
  /\ log = <<>>
  /\ start' = Rec[l].serial /\ npush' = 1
  /\ UNCHANGED <<keep, log>>

(* C14: the first data set carries the start serial; afterwards the serial   *)
(* advances by exactly one iff the data set differs from the current one,    *)
(* update() says whether it did, and at most max(history-size, 1) change     *)
(* sets are retained.                                                        *)
TRun ==
  /\ IsEvent("run")
  /\ LET e == Rec[l]  set == SetOf(e.set) IN
     IF Mode = "C13"
       THEN IF log # <<>> /\ set = log[1].set /\ e.serial = log[1].serial
              THEN log' = log /\ npush' = npush
              ELSE /\ log' = <<[serial |-> e.serial, set |-> set]>> \o log
                   /\ npush' = IF log # <<>> /\ npush < 100 THEN npush + 1 ELSE npush
       ELSE
     /\ e.ndeltas <= Cap
     /\ IF log = <<>>
          THEN /\ e.serial = start
               /\ e.changed = TRUE
               /\ log' = <<[serial |-> start, set |-> set]>> /\ npush' = npush
          ELSE IF set = log[1].set
            THEN /\ e.serial = log[1].serial
                 /\ e.changed = FALSE
                 /\ log' = log /\ npush' = npush
            ELSE /\ e.serial = Succ(log[1].serial)
                 /\ e.changed = TRUE
                 /\ log' = <<[serial |-> e.serial, set |-> set]>> \o log
                 /\ npush' = IF npush < 100 THEN npush + 1 ELSE npush
  /\ UNCHANGED <<keep, start>>

(* C13: a foreign session and a serial this session never issued are         *)
(* refused; the current serial and the serials the retained change sets lead *)
(* to (History.tla's Window: the newest min(Cap, pushed) entries of the log)  *)
(* are answered; an older issued serial may be answered or refused; every answer is tagged with the        *)
(* current (session, serial) and is exactly the difference between the data  *)
(* set held at the client's serial and the current one.                      *)
Pos(s) == {i \in 1..Len(log) : log[i].serial = s}

TQuery ==
  /\ IsEvent("query")
  /\ log # <<>>
  /\ LET e == Rec[l]  ps == Pos(e.serial) IN
     IF Mode = "C14" THEN TRUE
     ELSE IF e.res = "refuse"
       THEN ~(e.own /\ \E i \in ps : i = 1 \/ (i <= Cap /\ i <= npush))
       ELSE /\ e.own
            /\ ps # {}
            /\ \A i \in ps :
               LET had == log[i].set
                   cur == log[1].set
                   ann == SetOf(e.ann)
                   wd  == SetOf(e.wd) IN
               /\ ~e.dup
               /\ ann = cur \ had
               /\ wd = had \ cur
               /\ e.tag = log[1].serial
               /\ e.tagown
  /\ UNCHANGED <<keep, start, log, npush>>

TNext == TReset \/ TSeed \/ TRun \/ TQuery
TraceSpec == TInit /\ [][TNext]_tvars

(* In the strict mode the log of an episode never holds a serial twice       *)
(* (episodes are far shorter than the number space); in mode C13 it does     *)
(* when the implementation hands out one serial for two data sets, and a     *)
(* client at that serial may hold either: the answer must be exact for both. *)
LogSerialsDistinct == \A i, j \in 1..Len(log) : log[i].serial = log[j].serial => i = j

TraceAccepted ==
  LET d == TLCGet("stats").diameter IN
  IF d - 1 = Len(Rec) THEN TRUE
  ELSE Print(<<"TRACE-REJECTED at event", d, IF d <= Len(Rec) THEN Rec[d] ELSE "end",
               "state before: keep/start/log-head", "see replay file">>, FALSE)
=============================================================================
