\* reachability probes: this "invariant" must be violated (cleanup does remove such things)
SPECIFICATION Spec
CONSTANTS
  NPoints = 1
  Modules = {"m1", "m2"}
  Transports = {FALSE, TRUE}
  Rrdp = TRUE
  MaxVer = 3
  MaxRuns = 2
  MaxEnv = 2
  MaxExpire = 1
  Kinds = {"update"}
  Corruptions = {FALSE}
  Ticks = {TRUE}
  Variant = "as_code"
INVARIANT Probe_NoArchiveRemoved
CHECK_DEADLOCK FALSE
