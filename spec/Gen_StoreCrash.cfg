SPECIFICATION Spec
CONSTANTS Variant = "intended"
INVARIANT Emit
CHECK_DEADLOCK FALSE
