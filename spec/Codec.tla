------------------------------- MODULE Codec -------------------------------
(***************************************************************************)
(* C27 / C28 -- the binary record formats of Routinator's local cache.     *)
(*                                                                         *)
(* The five persisted record types are given as DATA (Grammar): an ordered *)
(* list of typed fields.  Encode turns a value into bytes, Decode is a     *)
(* state machine over (field index, position, requested allocation)        *)
(* transcribed from the Parse impls:                                       *)
(*    src/utils/binio.rs          primitive types (widths, sentinels)      *)
(*    src/store.rs:1151-1486      StoredPointHeader / UpdateStatus /       *)
(*                                StoredManifest / StoredObject /          *)
(*                                StoredStatus  read + write               *)
(*    src/collector/rrdp/archive.rs:458-500  RepositoryState parse/compose *)
(*                                                                         *)
(* The model is concrete at the byte level: a byte is 0..255, an input is  *)
(* a sequence of bytes, and every value class has one small concrete       *)
(* representative, so that a corruption (truncation anywhere, a changed    *)
(* length prefix that re-aligns everything behind it, a flipped bit) is    *)
(* followed by the decoder re-interpreting the very same bytes the real    *)
(* decoder sees.  The replay (harness/src/replay/codec.rs) checks that the *)
(* real `write` produces exactly these bytes and that the real `read`      *)
(* classifies every corrupted input as the model does.                     *)
(*                                                                         *)
(* Integers: TLC has 32-bit integers.  A length prefix is "small" if all   *)
(* but its two low-order bytes are zero (value < 65536, exact), otherwise  *)
(* it is Huge (larger than any input of the model); for 8-byte prefixes    *)
(* the classes >= 2^63 (Top) and >= 2^40 (Tera) are kept apart because the *)
(* shipped code behaves differently on them.                               *)
(*                                                                         *)
(* Variant:                                                                *)
(*   "intended"     a decoder that never asks for more memory than there   *)
(*                  are bytes left (+ the constant C)                      *)
(*   "as_shipped"   binio.rs as pinned: `vec![0u8; len]` before reading    *)
(*                  (lines 149, 177, 214, 242, 274) and                    *)
(*                  `HashMap::with_capacity(max(len, 65536))` (line 412)   *)
(*                  (the replay round-trips maps of 65535, 65536, 65537    *)
(*                  and 200000 entries: the cap bounds the reservation,    *)
(*                  never the number of entries read)                      *)
(*                  -- violates C27_Alloc / C27_Outcome, finding F11       *)
(*   "none_as_len0" mutant for the sensitivity of C28: Option<Bytes>::None *)
(*                  written as length 0 (collides with Some(empty))        *)
(***************************************************************************)
EXTENDS Integers, Sequences, FiniteSets, TLC

CONSTANTS Variant,      \* "intended" | "as_shipped" | "none_as_len0"
          ValueMode,    \* class vectors checked without corruption: "star" | "pairs" | "full"
          CorrMode      \* corruptions: "none" | "basic" | "all"

-----------------------------------------------------------------------------
(* bytes and numbers *)

Rep(b, n) == [i \in 1..n |-> b]
Zero(n) == Rep(0, n)
FF(n)   == Rep(255, n)
BE(n, w) == Zero(w - 2) \o <<n \div 256, n % 256>>       \* n < 65536, w >= 2, big endian
Min(a, b) == IF a <= b THEN a ELSE b
Max(a, b) == IF a >= b THEN a ELSE b

Huge == 1000000000                  \* stands for every number >= 65536
IsSmall(bs) == \A i \in 1..(Len(bs) - 2) : bs[i] = 0
NumVal(bs)  == IF IsSmall(bs) THEN bs[Len(bs) - 1] * 256 + bs[Len(bs)] ELSE Huge
Top(bs)     == Len(bs) = 8 /\ bs[1] >= 128                         \* >= 2^63: > isize::MAX
Tera(bs)    == Len(bs) = 8 /\ \E i \in 1..3 : bs[i] # 0            \* >= 2^40: no such allocation succeeds

RECURSIVE LeqB(_, _)                \* lexicographic = numeric order of equally long big-endian strings
LeqB(a, b) == IF a = <<>> THEN TRUE
              ELSE IF a[1] < b[1] THEN TRUE
              ELSE IF a[1] > b[1] THEN FALSE
              ELSE LeqB(Tail(a), Tail(b))

(* chrono 0.4.45: Utc.timestamp_opt accepts exactly TMIN .. TMAX (`vh codec --opt child=probe-time`) *)
TMAX == <<0, 0, 7, 119, 154, 10, 107, 127>>                \*  8210266876799
TMIN == <<255, 255, 248, 107, 115, 13, 238, 0>>            \* -8334601228800
TimeOk(b) == IF b[1] < 128 THEN LeqB(b, TMAX) ELSE LeqB(TMIN, b)     \* binio.rs:344 timestamp_opt(..).single()

XorBit(x, bit) == LET p == 2 ^ bit IN IF (x \div p) % 2 = 1 THEN x - p ELSE x + p

RECURSIVE Flat(_)
Flat(ss) == IF ss = <<>> THEN <<>> ELSE Head(ss) \o Flat(Tail(ss))

RECURSIVE SumLen(_, _)
SumLen(ss, k) == IF k = 0 THEN 0 ELSE Len(ss[k]) + SumLen(ss, k - 1)

-----------------------------------------------------------------------------
(* URIs: rpki 0.19.3 src/uri.rs, Rsync::from_bytes (l. 78) and Https::from_bytes (l. 545) *)

UriChar(ch) == \/ ch = 33 \/ (ch >= 36 /\ ch <= 59) \/ ch = 61
               \/ (ch >= 65 /\ ch <= 90) \/ ch = 95 \/ (ch >= 97 /\ ch <= 122) \/ ch = 126
Lower(ch) == IF ch >= 65 /\ ch <= 90 THEN ch + 32 ELSE ch
StartsIC(bs, pre) == Len(bs) >= Len(pre) /\ \A i \in 1..Len(pre) : Lower(bs[i]) = pre[i]
RSYNC == <<114, 115, 121, 110, 99, 58, 47, 47>>           \* "rsync://"
HTTPS == <<104, 116, 116, 112, 115, 58, 47, 47>>          \* "https://"

(* the segments of p split at '/' *)
RECURSIVE Split(_, _)
Split(p, cur) == IF p = <<>> THEN <<cur>>
                 ELSE IF Head(p) = 47 THEN <<cur>> \o Split(Tail(p), <<>>)
                 ELSE Split(Tail(p), Append(cur, Head(p)))
DOT == <<46>>
DOTDOT == <<46, 46>>

RsyncOk(bs) ==
  /\ \A i \in 1..Len(bs) : UriChar(bs[i])
  /\ StartsIC(bs, RSYNC)
  /\ LET S == Split(SubSeq(bs, 9, Len(bs)), <<>>)
         empties == {k \in 1..Len(S) : S[k] = <<>>}
         firstEmpty == IF empties = {} THEN Len(S) + 1 ELSE CHOOSE k \in empties : \A j \in empties : k <= j
     IN /\ \A k \in 1..Len(S) : k < firstEmpty => (S[k] # DOT /\ S[k] # DOTDOT)     \* check_path: dot segments
        /\ firstEmpty >= Len(S)                                                      \* check_path: empty segment only at the end
        /\ Len(S) >= 3 /\ S[1] # <<>> /\ S[2] # <<>>                                 \* authority, module, path present

HttpsOk(bs) == (\A i \in 1..Len(bs) : UriChar(bs[i])) /\ StartsIC(bs, HTTPS)

-----------------------------------------------------------------------------
(* the record grammars *)

F(n, t, x) == [n |-> n, t |-> t, x |-> x]

Records == {"StoredStatus", "StoredPointHeader", "StoredManifest", "StoredObject", "RepositoryState"}

Grammar(r) ==
  CASE r = "StoredStatus" ->             \* store.rs:1465 / 1479, VERSION 0
         << F("version", "ver", 0), F("last_update", "time", 0) >>
    [] r = "StoredPointHeader" ->        \* store.rs:1172 / 1188, VERSION 2
         << F("version", "ver", 2), F("manifest_uri", "rsync", 0), F("rpki_notify", "opt_https", 0),
            F("update_status", "status", 0) >>
    [] r = "StoredManifest" ->           \* store.rs:1327 / 1340
         << F("not_after", "time", 0), F("manifest_number", "serial", 0), F("this_update", "time", 0),
            F("ca_repository", "rsync", 0), F("manifest", "bytes", 0), F("crl_uri", "rsync", 0),
            F("crl", "bytes", 0) >>
    [] r = "StoredObject" ->             \* store.rs:1389 / 1417
         << F("uri", "rsync", 0), F("hash", "opt_hash", 0), F("content", "bytes", 0) >>
    [] r = "RepositoryState" ->          \* rrdp/archive.rs:464 / 487, VERSION 1
         << F("version", "ver", 1), F("rpki_notify", "https", 0), F("session", "uuid", 0),
            F("serial", "u64", 0), F("updated_ts", "i64", 0), F("best_before_ts", "i64", 0),
            F("last_modified_ts", "opt_i64", 0), F("etag", "opt_bytes", 0), F("delta_state", "map", 0) >>

(* width of the length / count prefix of a type, 0 if none *)
PrefixW(t) == CASE t \in {"rsync", "https", "opt_https"} -> 4        \* binio.rs:137, 165, 194: u32
                [] t \in {"bytes", "opt_bytes", "map"} -> 8          \* binio.rs:230, 260, 387: u64
                [] OTHER -> 0

-----------------------------------------------------------------------------
(* value classes: one small concrete representative each *)

RS_MIN  == <<114,115,121,110,99,58,47,47,97,47,98,47>>       \* "rsync://a/b/"
RS_ODD  == <<82,115,89,110,67,58,47,47,72,46,120,58,56,55,51,47,109,95,126,33,36,47,37,52,49,38,39,40,41,42,43,
             44,45,46,59,61,48,47,122>>                       \* "RsYnC://H.x:873/m_~!$/%41&'()*+,-.;=0/z"
RS_LONG == <<114,115,121,110,99,58,47,47,108,111,110,103,46,101,120,97,109,112,108,101,46,110,101,116,47,109,111,
             100,117,108,101,47,100,105,114,47,102,105,108,101,46,114,111,97>>
                                                              \* "rsync://long.example.net/module/dir/file.roa"
HS_BARE == <<104,116,116,112,115,58,47,47>>                  \* "https://"
HS_MIN  == <<104,116,116,112,115,58,47,47,97,47,110,46,120,109,108>>          \* "https://a/n.xml"
HS_ODD  == <<72,84,84,80,83,58,47,47,104,46,120,58,56,52,52,51,47,126,117,47,37,55,101,59,112,61,49,47,33,36,38,
             39,40,41,42,43,44>>                              \* "HTTPS://h.x:8443/~u/%7e;p=1/!$&'()*+,"
HS_LONG == <<104,116,116,112,115,58,47,47,114,114,100,112,46,108,111,110,103,46,101,120,97,109,112,108,101,46,110,
             101,116,47,114,114,100,112,47,110,111,116,105,102,105,99,97,116,105,111,110,46,120,109,108>>
                                                              \* "https://rrdp.long.example.net/rrdp/notification.xml"
T_SUB == <<0, 0, 0, 0, 106, 177, 59, 128>>                   \* 1790000000 (the harness adds 0.5 s)
I64MIN == <<128>> \o Zero(7)
I64MAX == <<127>> \o FF(7)
HASH_A == [i \in 1..32 |-> (i * 7) % 256]
HASH_B == FF(32)
B_SHORT == <<255, 0, 1, 128, 10>>
B_LONG  == [i \in 1..40 |-> (i * 13) % 256]
ETAG    == <<87,47,34,101,45,116,97,103,34>>                 \* W/"e-tag"
K1 == <<0, 0, 0, 0, 0, 0, 0, 1>>

Classes(t) ==
  CASE t = "ver"       -> {"v"}
    [] t = "time"      -> {"t_sub", "epoch", "one", "neg1", "max", "min"}
    [] t = "serial"    -> {"one", "zero", "u64max", "max"}
    [] t = "u64"       -> {"one", "zero", "max"}
    [] t = "i64"       -> {"zero", "neg1", "min", "max"}
    [] t = "opt_i64"   -> {"s_zero", "none", "s_neg1", "s_min", "s_max"}
    [] t = "uuid"      -> {"mixed", "nil", "max"}
    [] t = "rsync"     -> {"min", "odd", "long"}
    [] t = "https"     -> {"min", "bare", "odd", "long"}
    [] t = "opt_https" -> {"s_min", "none", "s_bare", "s_odd", "s_long"}
    [] t = "bytes"     -> {"short", "empty", "zero1", "long"}
    [] t = "opt_bytes" -> {"s_etag", "none", "s_empty", "s_bin"}
    [] t = "opt_hash"  -> {"some", "none"}
    [] t = "status"    -> {"ok_sub", "ok_epoch", "ok_max", "try_sub", "try_epoch", "try_min"}
    [] t = "map"       -> {"m1", "m0", "m2", "m2r"}

Base(t) ==
  CASE t = "ver" -> "v" [] t = "time" -> "t_sub" [] t = "serial" -> "one" [] t = "u64" -> "one"
    [] t = "i64" -> "zero" [] t = "opt_i64" -> "s_zero" [] t = "uuid" -> "mixed" [] t = "rsync" -> "min"
    [] t = "https" -> "min" [] t = "opt_https" -> "s_min" [] t = "bytes" -> "short" [] t = "opt_bytes" -> "s_etag"
    [] t = "opt_hash" -> "some" [] t = "status" -> "ok_sub" [] t = "map" -> "m1"

TimeVal(c) == CASE c = "t_sub" -> T_SUB [] c = "epoch" -> Zero(8) [] c = "one" -> BE(1, 8) [] c = "neg1" -> FF(8)
                [] c = "max" -> TMAX [] c = "min" -> TMIN
HttpsVal(c) == CASE c = "min" -> HS_MIN [] c = "bare" -> HS_BARE [] c = "odd" -> HS_ODD [] c = "long" -> HS_LONG

(* The abstract value of a field.  Optional: <<>> = None, <<x>> = Some(x).  *)
(* status: <<tag, time>>.  map: the sequence of (key, hash) pairs in the    *)
(* order the writer iterates its HashMap (any order is legal).              *)
Val(t, c) ==
  CASE t = "ver"    -> <<>>
    [] t = "time"   -> TimeVal(c)
    [] t = "serial" -> (CASE c = "one" -> Zero(19) \o <<1>> [] c = "zero" -> Zero(20)
                         [] c = "u64max" -> Zero(12) \o FF(8) [] c = "max" -> <<127>> \o FF(19))
    [] t = "u64"    -> (CASE c = "one" -> BE(1, 8) [] c = "zero" -> Zero(8) [] c = "max" -> FF(8))
    [] t = "i64"    -> (CASE c = "zero" -> Zero(8) [] c = "neg1" -> FF(8) [] c = "min" -> I64MIN [] c = "max" -> I64MAX)
    [] t = "opt_i64" -> (CASE c = "none" -> <<>> [] c = "s_zero" -> <<Zero(8)>> [] c = "s_neg1" -> <<FF(8)>>
                          [] c = "s_min" -> <<I64MIN>> [] c = "s_max" -> <<I64MAX>>)
    [] t = "uuid"   -> (CASE c = "mixed" -> [i \in 1..16 |-> i * 15] [] c = "nil" -> Zero(16) [] c = "max" -> FF(16))
    [] t = "rsync"  -> (CASE c = "min" -> RS_MIN [] c = "odd" -> RS_ODD [] c = "long" -> RS_LONG)
    [] t = "https"  -> HttpsVal(c)
    [] t = "opt_https" -> (CASE c = "none" -> <<>> [] c = "s_min" -> <<HS_MIN>> [] c = "s_bare" -> <<HS_BARE>>
                            [] c = "s_odd" -> <<HS_ODD>> [] c = "s_long" -> <<HS_LONG>>)
    [] t = "bytes"  -> (CASE c = "short" -> B_SHORT [] c = "empty" -> <<>> [] c = "zero1" -> <<0>> [] c = "long" -> B_LONG)
    [] t = "opt_bytes" -> (CASE c = "none" -> <<>> [] c = "s_etag" -> <<ETAG>> [] c = "s_empty" -> << <<>> >>
                            [] c = "s_bin" -> <<B_SHORT>>)
    [] t = "opt_hash" -> (CASE c = "none" -> <<>> [] c = "some" -> <<HASH_A>>)
    [] t = "status" -> (CASE c = "ok_sub" -> <<0, T_SUB>> [] c = "ok_epoch" -> <<0, Zero(8)>> [] c = "ok_max" -> <<0, TMAX>>
                         [] c = "try_sub" -> <<1, T_SUB>> [] c = "try_epoch" -> <<1, Zero(8)>> [] c = "try_min" -> <<1, TMIN>>)
    [] t = "map"    -> (CASE c = "m0" -> <<>> [] c = "m1" -> << <<Zero(8), HASH_A>> >>
                         [] c = "m2" -> << <<K1, HASH_A>>, <<FF(8), HASH_B>> >>
                         [] c = "m2r" -> << <<FF(8), HASH_B>>, <<K1, HASH_A>> >>)

(* what a reader must give back: maps are unordered *)
Canon(t, v) == IF t = "map" THEN {v[i] : i \in 1..Len(v)} ELSE v

-----------------------------------------------------------------------------
(* Encode: the `write` / `compose` side *)

NoneBytes == IF Variant = "none_as_len0" THEN Zero(8) ELSE FF(8)       \* binio.rs:260 u64::MAX marks None

EncField(f, v) ==
  LET t == f.t IN
  CASE t = "ver" -> <<f.x>>
    [] t \in {"time", "serial", "u64", "i64", "uuid"} -> v
    [] t = "opt_i64"   -> IF v = <<>> THEN <<0>> ELSE <<1>> \o v[1]                 \* binio.rs:102
    [] t \in {"rsync", "https"} -> BE(Len(v), 4) \o v                               \* binio.rs:135, 163
    [] t = "opt_https" -> IF v = <<>> THEN Zero(4) ELSE BE(Len(v[1]), 4) \o v[1]    \* binio.rs:191: None = length 0
    [] t = "bytes"     -> BE(Len(v), 8) \o v                                        \* binio.rs:228
    [] t = "opt_bytes" -> IF v = <<>> THEN NoneBytes ELSE BE(Len(v[1]), 8) \o v[1]  \* binio.rs:256
    [] t = "opt_hash"  -> IF v = <<>> THEN <<0>> ELSE <<1>> \o v[1]                 \* store.rs:1429
    [] t = "status"    -> <<v[1]>> \o v[2]                                          \* store.rs:1235
    [] t = "map"       -> BE(Len(v), 8) \o Flat([i \in 1..Len(v) |-> v[i][1] \o v[i][2]])   \* binio.rs:385

Vals(r, cv)      == LET G == Grammar(r) IN [i \in 1..Len(cv) |-> Val(G[i].t, cv[i])]
EncFields(r, cv) == LET G == Grammar(r) IN [i \in 1..Len(cv) |-> EncField(G[i], Val(G[i].t, cv[i]))]
Encode(r, cv)    == Flat(EncFields(r, cv))

-----------------------------------------------------------------------------
(* Decode: one step per field (one step per entry inside a map) *)

C == 4194304        \* the constant of "requested allocation <= remaining + c" (covers the map's base capacity)
EntrySize == 64     \* bytes a HashMap<u64, Hash> needs per slot, generously

Has(bs, pos, n) == pos + n <= Len(bs)
Rd(bs, pos, n)  == SubSeq(bs, pos + 1, pos + n)

Res(st, pos, val, alloc, avail) == [st |-> st, pos |-> pos, val |-> val, alloc |-> alloc, avail |-> avail]
Eof(pos)      == Res("eof", pos, <<>>, 0, 0)
Fmt(pos)      == Res("format", pos, <<>>, 0, 0)
Ok(pos, val)  == Res("ok", pos, val, 0, 0)

(* `let mut bits = vec![0u8; len]; source.read_exact(&mut bits)?` with the *)
(* length prefix lb already read and pos behind it.                         *)
ReadVec(lb, bs, pos) ==
  LET L == NumVal(lb)
      rem == Len(bs) - pos
  IN IF Variant = "as_shipped"
     THEN IF Top(lb) THEN Res("panic", pos, <<>>, Huge, rem)                 \* capacity overflow
          ELSE IF Tera(lb) THEN Res("abort", pos, <<>>, Huge, rem)           \* handle_alloc_error
          ELSE IF L <= rem THEN Res("ok", pos + L, Rd(bs, pos, L), L, rem)
          ELSE Res("eof", pos, <<>>, L, rem)                                 \* L bytes were requested first
     ELSE IF L <= rem THEN Res("ok", pos + L, Rd(bs, pos, L), L, rem)
          ELSE Res("eof", pos, <<>>, Min(L, rem), rem)                       \* bounded: read what is there, then fail

Fixed(bs, pos, n) == IF Has(bs, pos, n) THEN Ok(pos + n, Rd(bs, pos, n)) ELSE Eof(pos)

ParseTime(bs, pos) ==                                                         \* binio.rs:342
  IF ~Has(bs, pos, 8) THEN Eof(pos)
  ELSE IF TimeOk(Rd(bs, pos, 8)) THEN Ok(pos + 8, Rd(bs, pos, 8)) ELSE Fmt(pos + 8)

ParseUri(bs, pos, ok(_), optional) ==                                         \* binio.rs:144, 172, 205
  IF ~Has(bs, pos, 4) THEN Eof(pos)
  ELSE LET lb == Rd(bs, pos, 4) IN
       IF optional /\ lb = Zero(4) THEN Ok(pos + 4, <<>>)
       ELSE LET v == ReadVec(lb, bs, pos + 4) IN
            IF v.st # "ok" THEN v
            ELSE IF ok(v.val) THEN [v EXCEPT !.val = IF optional THEN <<v.val>> ELSE v.val]
            ELSE [v EXCEPT !.st = "format", !.val = <<>>]

ParseBytes(bs, pos, optional) ==                                              \* binio.rs:237, 265
  IF ~Has(bs, pos, 8) THEN Eof(pos)
  ELSE LET lb == Rd(bs, pos, 8) IN
       IF optional /\ lb = NoneBytes THEN Ok(pos + 8, <<>>)
       ELSE LET v == ReadVec(lb, bs, pos + 8) IN
            IF v.st # "ok" THEN v
            ELSE [v EXCEPT !.val = IF optional THEN <<v.val>> ELSE v.val]

ParseField(f, bs, pos) ==
  LET t == f.t IN
  CASE t = "ver" ->                                                           \* store.rs:1174, 1467; archive.rs:466
         IF ~Has(bs, pos, 1) THEN Eof(pos)
         ELSE IF bs[pos + 1] # f.x THEN Fmt(pos + 1) ELSE Ok(pos + 1, <<>>)
    [] t \in {"u64", "i64"} -> Fixed(bs, pos, 8)
    [] t = "uuid" -> Fixed(bs, pos, 16)
    [] t = "time" -> ParseTime(bs, pos)
    [] t = "serial" ->                                                        \* binio.rs:323, x509.rs:334
         IF ~Has(bs, pos, 20) THEN Eof(pos)
         ELSE IF bs[pos + 1] >= 128 THEN Fmt(pos + 20) ELSE Ok(pos + 20, Rd(bs, pos, 20))
    [] t = "opt_i64" ->                                                       \* binio.rs:116
         IF ~Has(bs, pos, 1) THEN Eof(pos)
         ELSE IF bs[pos + 1] = 0 THEN Ok(pos + 1, <<>>)
         ELSE IF bs[pos + 1] # 1 THEN Fmt(pos + 1)
         ELSE IF Has(bs, pos + 1, 8) THEN Ok(pos + 9, <<Rd(bs, pos + 1, 8)>>) ELSE Eof(pos + 1)
    [] t = "rsync" -> ParseUri(bs, pos, RsyncOk, FALSE)
    [] t = "https" -> ParseUri(bs, pos, HttpsOk, FALSE)
    [] t = "opt_https" -> ParseUri(bs, pos, HttpsOk, TRUE)
    [] t = "bytes" -> ParseBytes(bs, pos, FALSE)
    [] t = "opt_bytes" -> ParseBytes(bs, pos, TRUE)
    [] t = "opt_hash" ->                                                      \* store.rs:1397
         IF ~Has(bs, pos, 1) THEN Eof(pos)
         ELSE IF bs[pos + 1] = 0 THEN Ok(pos + 1, <<>>)
         ELSE IF bs[pos + 1] # 1 THEN Fmt(pos + 1)
         ELSE IF Has(bs, pos + 1, 32) THEN Res("ok", pos + 33, <<Rd(bs, pos + 1, 32)>>, 32, Len(bs) - pos - 1)
         ELSE Res("eof", pos + 1, <<>>, 32, Len(bs) - pos - 1)                \* vec![0u8; 32] first
    [] t = "status" ->                                                        \* store.rs:1222
         IF ~Has(bs, pos, 1) THEN Eof(pos)
         ELSE IF bs[pos + 1] > 1 THEN Fmt(pos + 1)
         ELSE LET tm == ParseTime(bs, pos + 1) IN
              IF tm.st = "ok" THEN Ok(tm.pos, <<bs[pos + 1], tm.val>>) ELSE tm

(* the decoder state *)
NoLoop == [n |-> -1, i |-> 0, acc |-> {}]
Start  == [fi |-> 1, pos |-> 0, out |-> <<>>, alloc |-> 0, avail |-> 0, outcome |-> "run", loop |-> NoLoop, steps |-> 0]

Finish(s, r) == IF s.fi > Len(Grammar(r)) /\ s.outcome = "run" THEN [s EXCEPT !.outcome = "value"] ELSE s

(* binio.rs:404: count, with_capacity, then `for _ in 0..len` *)
MapHead(s, bs, r) ==
  IF ~Has(bs, s.pos, 8) THEN [s EXCEPT !.outcome = "eof"]
  ELSE LET lb == Rd(bs, s.pos, 8)
           n == NumVal(lb)
           rem == Len(bs) - s.pos - 8
       IN IF Variant = "as_shipped"
          THEN IF Top(lb) \/ (lb[1] >= 4)          \* len * size_of::<(u64, Hash)>() overflows: "capacity overflow"
                 THEN [s EXCEPT !.outcome = "panic", !.alloc = Huge, !.avail = rem]
               ELSE IF n = Huge                    \* >= 65536 slots demanded by the input alone
                 THEN [s EXCEPT !.outcome = IF Tera(lb) THEN "abort" ELSE "run", !.pos = s.pos + 8,
                                !.alloc = Huge, !.avail = rem, !.loop = [n |-> n, i |-> 0, acc |-> {}]]
               ELSE [s EXCEPT !.pos = s.pos + 8, !.alloc = Max(n, 65536) * EntrySize, !.avail = rem,
                              !.loop = [n |-> n, i |-> 0, acc |-> {}]]
          ELSE [s EXCEPT !.pos = s.pos + 8, !.alloc = Min(n, rem \div 40) * EntrySize, !.avail = rem,
                         !.loop = [n |-> n, i |-> 0, acc |-> {}]]

MapEntry(s, bs, r) ==
  IF s.loop.i = s.loop.n
    THEN Finish([s EXCEPT !.out = Append(s.out, s.loop.acc), !.fi = s.fi + 1, !.loop = NoLoop], r)
  ELSE IF ~Has(bs, s.pos, 40) THEN [s EXCEPT !.outcome = "eof"]
  ELSE LET k == Rd(bs, s.pos, 8)
           h == Rd(bs, s.pos + 8, 32)
       IN IF \E e \in s.loop.acc : e[1] = k THEN [s EXCEPT !.outcome = "format", !.pos = s.pos + 40]   \* duplicate keys
          ELSE [s EXCEPT !.pos = s.pos + 40, !.loop = [s.loop EXCEPT !.i = s.loop.i + 1, !.acc = s.loop.acc \cup {<<k, h>>}]]

Step(s, bs, r) ==
  LET s1 == [s EXCEPT !.steps = s.steps + 1] IN
  IF s.loop.n >= 0 THEN MapEntry(s1, bs, r)
  ELSE LET f == Grammar(r)[s.fi] IN
       IF f.t = "map" THEN MapHead(s1, bs, r)
       ELSE LET p == ParseField(f, bs, s.pos)
                s2 == [s1 EXCEPT !.pos = p.pos, !.alloc = p.alloc, !.avail = p.avail]
            IN IF p.st = "ok" THEN Finish([s2 EXCEPT !.out = Append(s.out, p.val), !.fi = s.fi + 1], r)
               \* store.rs:1392: end of file while reading the URI of a StoredObject is the end of the list
               ELSE IF p.st = "eof" /\ r = "StoredObject" /\ s.fi = 1 THEN [s2 EXCEPT !.outcome = "end"]
               ELSE [s2 EXCEPT !.outcome = p.st]

RECURSIVE Final(_, _, _)
Final(s, bs, r) == IF s.outcome # "run" THEN s ELSE Final(Step(s, bs, r), bs, r)

-----------------------------------------------------------------------------
(* corruption operators *)
(* G = grammar, vals = field values, ef = encoded fields, offs = field     *)
(* offsets, enc = the whole input (encoding plus trailing bytes)           *)

Cor(k, f, how, at, by, cut) == [k |-> k, f |-> f, how |-> how, at |-> at, by |-> by, cut |-> cut]
NoCor == Cor("none", 0, "", 0, <<>>, -1)

Apply(enc, c) ==
  IF c.k = "raw" THEN c.by
  ELSE IF c.k = "none" THEN enc
  ELSE IF c.k = "trunc" THEN SubSeq(enc, 1, c.cut)
  ELSE LET o == [i \in 1..Len(enc) |-> IF i > c.at /\ i <= c.at + Len(c.by) THEN c.by[i - c.at] ELSE enc[i]]
       IN IF c.cut >= 0 THEN SubSeq(o, 1, c.cut) ELSE o

Offsets(ef) == [i \in 1..Len(ef) |-> SumLen(ef, i - 1)]       \* start of field i (0-based byte offset)

(* every length / count prefix set to the classes of DESIGN 4/C27 *)
LenCorrs(G, vals, offs, total) ==
  UNION {
    LET f == G[i]
        w == PrefixW(f.t)
        off == offs[i]
        v == vals[i]
        len == IF f.t = "map" THEN Len(v)
               ELSE IF f.t \in {"opt_https", "opt_bytes"} THEN (IF v = <<>> THEN 0 ELSE Len(v[1]))
               ELSE Len(v)
        rem == total - off - w
        mk(how, by) == Cor("setlen", i, how, off, by, -1)
    IN IF w = 0 THEN {}
       ELSE {mk("len+1", BE(len + 1, w)), mk("rem+1", BE(rem + 1, w)),
             mk("2^31", Zero(w - 4) \o <<128, 0, 0, 0>>), mk("2^32-1", Zero(w - 4) \o FF(4))}
            \cup (IF len > 0 THEN {mk("0", Zero(w)), mk("len-1", BE(len - 1, w))} ELSE {})
            \cup (IF w = 8 THEN {mk("2^40", <<0, 0, 1, 0, 0, 0, 0, 0>>), mk("2^58", <<4, 0, 0, 0, 0, 0, 0, 0>>),
                                 mk("2^63", <<128>> \o Zero(7)), mk("2^64-1", FF(8))} ELSE {})
    : i \in 1..Len(G) }

(* version, tag and marker bytes set to every interesting other value *)
TagCorrs(G, ef, offs) ==
  UNION {
    IF G[i].t \in {"ver", "opt_i64", "opt_hash", "status"}
    THEN {Cor("settag", i, "", offs[i], <<b>>, -1) : b \in {0, 1, 2, 3, 255} \ {ef[i][1]}}
    ELSE {}
    : i \in 1..Len(G) }

(* contents that must be refused: invalid URI text, timestamps outside chrono's range, negative serial *)
TextCorrs(G, ef, offs) ==
  UNION {
    LET f == G[i]
        off == offs[i]
        el == Len(ef[i])
        mk(how, at, by) == Cor("content", i, how, at, by, -1)
        toff == IF f.t = "status" THEN off + 1 ELSE off
    IN CASE f.t \in {"rsync", "https", "opt_https"} /\ el > 4 ->
              {mk("uri-space", off + el - 1, <<32>>), mk("uri-8bit", off + el - 1, <<200>>),
               mk("uri-scheme", off + 4, <<120>>)}
              \cup (IF f.t = "rsync" THEN {mk("uri-dotdot", off + el - 3, <<47, 46, 46>>),
                                           mk("uri-noauthority", off + 12, <<47>>),
                                           mk("uri-lastchar", off + el - 1, <<65>>)} ELSE {})
         [] f.t \in {"time", "status"} ->
              {mk("time-i64min", toff, I64MIN), mk("time-i64max", toff, I64MAX),
               mk("time-max+1", toff, <<0, 0, 7, 119, 154, 10, 107, 128>>),
               mk("time-min-1", toff, <<255, 255, 248, 107, 115, 13, 237, 255>>)}
         [] f.t = "serial" -> {mk("serial-negative", off, <<128>>), mk("serial-ff", off, <<255>>)}
         [] OTHER -> {}
    : i \in 1..Len(G) }

Truncs(encLen) == {Cor("trunc", 0, "", 0, <<>>, n) : n \in 0..(encLen - 1)}

Flips(enc, encLen, bits) == {Cor("flip", 0, "", at, <<XorBit(enc[at + 1], b)>>, -1) : at \in 0..(encLen - 1), b \in bits}

Raws == {Cor("raw", 0, "", 0, by, -1) :
           by \in {<<>>, <<0>>, <<1>>, <<2>>, <<255>>, FF(16), Zero(64), FF(64), <<2>> \o FF(20),
                   <<1>> \o Zero(4) \o FF(40), <<0, 0, 0, 1, 47>>, [i \in 1..48 |-> (i * 37) % 251]}}

(* an overwrite followed by a truncation at a field boundary behind it *)
Doubles(offs, singles, encLen) ==
  UNION {{[c EXCEPT !.k = c.k \o "+trunc", !.cut = offs[j]] :
            j \in {jj \in 2..Len(offs) : offs[jj] > c.at /\ offs[jj] < encLen}} : c \in singles}

Corruptions(G, vals, ef, offs, enc, encLen, isBase) ==
  IF CorrMode = "none" THEN {}
  ELSE LET single == LenCorrs(G, vals, offs, Len(enc)) \cup TagCorrs(G, ef, offs) \cup TextCorrs(G, ef, offs)
       IN Truncs(encLen) \cup single \cup Raws
          \* basic: bits 0 and 7 of every byte of the base vector;
          \* all: every bit of every byte of the base vector, bits 0 and 7 for the other vectors
          \cup (IF isBase THEN Flips(enc, encLen, IF CorrMode = "all" THEN 0..7 ELSE {0, 7})
                ELSE IF CorrMode = "all" THEN Flips(enc, encLen, {0, 7}) ELSE {})
          \cup (IF CorrMode = "all" /\ isBase THEN Doubles(offs, single, encLen) ELSE {})

-----------------------------------------------------------------------------
(* the cases *)

BaseVec(r) == [i \in 1..Len(Grammar(r)) |-> Base(Grammar(r)[i].t)]

RECURSIVE Prod(_, _)
Prod(G, i) == IF i = 0 THEN {<<>>} ELSE {Append(p, c) : p \in Prod(G, i - 1), c \in Classes(G[i].t)}

StarOf(r) == UNION {{[BaseVec(r) EXCEPT ![i] = c] : c \in Classes(Grammar(r)[i].t)} : i \in 1..Len(Grammar(r))}
PairsOf(r) == UNION {UNION {{[BaseVec(r) EXCEPT ![i] = c, ![j] = d] :
                               c \in Classes(Grammar(r)[i].t), d \in Classes(Grammar(r)[j].t)}
                             : j \in (i + 1)..Len(Grammar(r))} : i \in 1..Len(Grammar(r))} \cup StarOf(r)

Vectors(r) == CASE ValueMode = "star" -> StarOf(r)
                [] ValueMode = "pairs" -> PairsOf(r)
                [] ValueMode = "full" -> Prod(Grammar(r), Len(Grammar(r)))

(* trailing bytes that must be left untouched *)
Rests == {<<>>, <<1, 0, 0, 0, 0, 0, 0, 0, 5, 255, 47, 2>>}

(* enc: the pristine input, inp: the input the decoder gets *)
MkCase(r, cv, restLen, enc, c) == [rec |-> r, cv |-> cv, rest |-> restLen, enc |-> enc, c |-> c, inp |-> Apply(enc, c)]

(* Seeds: the first (up to) three classes of a vector.  The environment     *)
(* first completes the vector (Expand), so that the cases are built by all  *)
(* TLC workers and not by the single thread that computes the initial       *)
(* states.  A seed has rest = -1.                                           *)
PreLen(r) == Min(3, Len(Grammar(r)))
SeedPrefixes(r) == IF ValueMode = "full" THEN Prod(Grammar(r), PreLen(r))
                   ELSE {SubSeq(cv, 1, PreLen(r)) : cv \in Vectors(r)}
Seeds == UNION {{[rec |-> r, cv |-> p, rest |-> -1, enc |-> <<>>, c |-> NoCor, inp |-> <<>>] : p \in SeedPrefixes(r)}
                : r \in Records}

RECURSIVE Ext(_, _)
Ext(G, p) == IF Len(p) = Len(G) THEN {p} ELSE UNION {Ext(G, Append(p, c)) : c \in Classes(G[Len(p) + 1].t)}

VectorsFrom(r, p) == IF ValueMode = "full" THEN Ext(Grammar(r), p)
                     ELSE {cv \in Vectors(r) : SubSeq(cv, 1, Len(p)) = p}

(* the uncorrupted cases: a class vector, encoded, followed by trailing bytes *)
BaseCasesFrom(r, p) ==
  UNION { LET enc0 == Encode(r, cv)
             \* full product: trailing bytes only behind the vectors with at most one field off base
          IN {MkCase(r, cv, Len(rest), enc0 \o rest, NoCor) :
                rest \in (IF ValueMode = "full" /\ cv \notin StarOf(r) THEN {<<>>} ELSE Rests)}
        : cv \in VectorsFrom(r, p) }

(* the corruptions applicable to an uncorrupted case k (the environment's move) *)
Corruptible(k) == /\ k.rest >= 0 /\ k.c.k = "none" /\ CorrMode # "none"
                  /\ k.cv \in StarOf(k.rec)
                  /\ (k.rest = 0 \/ CorrMode = "all")
CorruptionsOf(k) ==
  LET G == Grammar(k.rec)
      vals == Vals(k.rec, k.cv)
      ef == [i \in 1..Len(k.cv) |-> EncField(G[i], vals[i])]
  IN Corruptions(G, vals, ef, Offsets(ef), k.enc, Len(k.enc) - k.rest, k.cv = BaseVec(k.rec))

-----------------------------------------------------------------------------
(* the specification *)

VARIABLES case, st
vars == <<case, st>>

Input == case.inp

Init == case \in Seeds /\ st = Start
(* environment: pick the value that was written and what follows it in the file *)
Expand == /\ case.rest = -1
          /\ case' \in BaseCasesFrom(case.rec, case.cv)
          /\ UNCHANGED st
(* environment: damage the file before it is read *)
Corrupt == /\ st.steps = 0 /\ Corruptible(case)
           /\ \E c \in CorruptionsOf(case) : case' = [case EXCEPT !.c = c, !.inp = Apply(case.enc, c)]
           /\ UNCHANGED st
(* the decoder: one field (or one map entry) per step *)
Decode == /\ case.rest >= 0 /\ st.outcome = "run"
          /\ st' = Step(st, Input, case.rec)
          /\ UNCHANGED case
Done == st.outcome # "run" /\ UNCHANGED vars          \* terminal: stutter (so that a deadlock means "stuck")
Next == Expand \/ Corrupt \/ Decode
Spec == Init /\ [][Next \/ Done]_vars

-----------------------------------------------------------------------------
(* C27 *)

(* every allocation request is covered by the bytes that are actually there *)
C27_Alloc == st.alloc <= st.avail + C

(* a decoder run ends as a value or a reported (non-fatal) error; it never panics or aborts *)
C27_Outcome == st.outcome \in {"run", "value", "end", "eof", "format"}

(* ... and it ends: at most one step per field plus one per 40 bytes of map entries *)
C27_Terminates == st.steps <= Len(Grammar(case.rec)) + (Len(Input) \div 40) + 2

(* C28: an uncorrupted encoding followed by arbitrary bytes reads back as   *)
(* the value written and leaves exactly the trailing bytes                  *)
C28_RoundTrip ==
  (case.rest >= 0 /\ case.c.k = "none" /\ st.outcome # "run") =>
     /\ st.outcome = "value"
     /\ st.out = [i \in 1..Len(case.cv) |-> Canon(Grammar(case.rec)[i].t, Vals(case.rec, case.cv)[i])]
     /\ st.pos = Len(case.enc) - case.rest

(* sanity of the model itself: the decoder never reads behind the input *)
PosInRange == st.pos <= Len(Input)
=============================================================================
