\* all complete schedules of 2 threads, one call each, on the same key (intended rsync order)
SPECIFICATION GSpec
CONSTANTS
  Threads = {"T1", "T2"}
  Keys = {"k1"}
  MaxCalls = 1
  Order = "insert_then_remove"
  Check2Removes = FALSE
  OnlyBad = FALSE
  HostVariant = "intended"
INVARIANT Emit
CHECK_DEADLOCK FALSE
