\* quick: every data set of <= 3 items out of the 7-item universe (3 origins, 2 router keys, 2 ASPAs),
\* every selection of <= 1 selector (3 ASNs, 7 query prefixes, with/without more-specifics), all 8 type
\* exclusions, all 6 format families, every state of the stream state machine; every string of <= 3
\* character classes at every escaping site.
SPECIFICATION Spec
CONSTANTS
  MaxItems = 3
  MaxSel = 1
  MaxStr = 3
  Variant = "intended"
INVARIANTS
  C21_ListedExactlyOnce
  C21_NeverTooMuch
  C21_SelectionAsDocumented
  C21_WellFormed
  C21_LabelsStayInsideStrings
  C22_StatusStringsRoundTrip
  C22_MetricsLabelsRoundTrip
  C22_NoRawSpecials
CHECK_DEADLOCK TRUE
