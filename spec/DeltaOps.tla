------------------------------- MODULE DeltaOps -----------------------------
(***************************************************************************)
(* Payload change sets ("deltas") of Routinator: src/payload/delta.rs.     *)
(* Operator part (no variables); the state machine is in Delta.tla.        *)
(*                                                                         *)
(* A data set consists of route origins, router keys and ASPAs.  Origins   *)
(* and keys are plain sets ("the value is the key"); ASPAs are a map from  *)
(* customer to provider set.  The module contains                          *)
(*   - the operational transcription of StandardDelta::{construct,merge}   *)
(*     and AspaDelta::{construct,merge} (merge walks over sorted lists,    *)
(*     including the 3x3 ASPA merge table),                                *)
(*   - the declarative meaning of a change set (Apply), and                *)
(*   - the properties C11 (a delta describes exactly the change) and C12   *)
(*     (merging consecutive deltas equals the direct delta).               *)
(*                                                                         *)
(* Items are small integers whose order is the order of the real items     *)
(* (the harness sorts its concrete dictionary with the real Ord and maps   *)
(* rank -> integer), so "sorted" means the same thing on both sides.       *)
(***************************************************************************)
EXTENDS Naturals, Sequences, FiniteSets, SequencesExt, TLC

CONSTANTS NO,      \* number of distinct route origins
          NK,      \* number of distinct router keys
          NC,      \* number of ASPA customers
          NP       \* number of provider ASNs

Origins   == 1..NO
Keys      == 1..NK
Customers == 1..NC
Providers == 1..NP

Absent    == {0}                         \* "no ASPA for this customer"
ProvSets  == SUBSET Providers
AspaMaps  == [Customers -> ProvSets \cup {Absent}]

DataSets  == [o : SUBSET Origins, k : SUBSET Keys, a : AspaMaps]

EmptySet  == [o |-> {}, k |-> {}, a |-> [c \in Customers |-> Absent]]

Sorted(S) == SetToSortSeq(S, <)

-----------------------------------------------------------------------------
(* StandardDelta::construct  (delta.rs:204-260)                            *)
(* A delta is a sequence of <<item, action>>, action in {"A","W"},         *)
(* ordered by item.                                                        *)

RECURSIVE StdWalk(_, _)
StdWalk(os, ns) ==
  IF os = <<>> THEN [i \in 1..Len(ns) |-> <<ns[i], "A">>]
  ELSE IF ns = <<>> THEN [i \in 1..Len(os) |-> <<os[i], "W">>]
  ELSE IF Head(os) < Head(ns)
         THEN <<<<Head(os), "W">>>> \o StdWalk(Tail(os), ns)
  ELSE IF Head(os) = Head(ns)
         THEN StdWalk(Tail(os), Tail(ns))
  ELSE <<<<Head(ns), "A">>>> \o StdWalk(os, Tail(ns))

StdConstruct(old, new) == StdWalk(Sorted(old), Sorted(new))

(* StandardDelta::merge  (delta.rs:263-326)                                *)
RECURSIVE StdMerge(_, _)
StdMerge(d1, d2) ==
  IF d1 = <<>> THEN d2
  ELSE IF d2 = <<>> THEN d1
  ELSE IF Head(d1)[1] < Head(d2)[1] THEN <<Head(d1)>> \o StdMerge(Tail(d1), d2)
  ELSE IF Head(d1)[1] > Head(d2)[1] THEN <<Head(d2)>> \o StdMerge(d1, Tail(d2))
  ELSE LET a1 == Head(d1)[2]
           a2 == Head(d2)[2]
           rest == StdMerge(Tail(d1), Tail(d2))
       IN  IF a1 = a2 THEN <<<<Head(d2)[1], a1>>>> \o rest
           ELSE rest        \* announce+withdraw or withdraw+announce cancel

-----------------------------------------------------------------------------
(* AspaDelta::construct  (delta.rs:403-467)                                *)
(* Items are <<customer, providers, act>> with act one of                  *)
(*   <<"A">>, <<"U", previous providers>>, <<"W", previous providers>>.    *)
(* A withdraw item carries the empty provider set (Aspa::withdraw()).      *)

AspaKeys(m) == {c \in Customers : m[c] # Absent}

RECURSIVE AspaWalk(_, _, _, _)
AspaWalk(om, nm, os, ns) ==
  IF os = <<>> THEN [i \in 1..Len(ns) |-> <<ns[i], nm[ns[i]], <<"A">> >>]
  ELSE IF ns = <<>> THEN [i \in 1..Len(os) |-> <<os[i], {}, <<"W", om[os[i]]>> >>]
  ELSE IF Head(os) < Head(ns)
         THEN << <<Head(os), {}, <<"W", om[Head(os)]>> >> >>
              \o AspaWalk(om, nm, Tail(os), ns)
  ELSE IF Head(os) = Head(ns)
         THEN (IF om[Head(os)] # nm[Head(ns)]
                 THEN << <<Head(ns), nm[Head(ns)], <<"U", om[Head(os)]>> >> >>
                 ELSE <<>>)
              \o AspaWalk(om, nm, Tail(os), Tail(ns))
  ELSE << <<Head(ns), nm[Head(ns)], <<"A">> >> >> \o AspaWalk(om, nm, os, Tail(ns))

AspaConstruct(om, nm) == AspaWalk(om, nm, Sorted(AspaKeys(om)), Sorted(AspaKeys(nm)))

(* The 3x3 table of AspaDelta::merge (delta.rs:520-579).  Result is either *)
(* <<>> (no item) or a one-element sequence with the merged action.        *)
AspaTable(a1, a2, newProv) ==
  LET k1 == a1[1]  k2 == a2[1] IN
  CASE k1 = "A" /\ k2 = "A" -> << <<"A">> >>
    [] k1 = "A" /\ k2 = "U" -> << <<"A">> >>
    [] k1 = "A" /\ k2 = "W" -> <<>>
    [] k1 = "U" /\ k2 = "A" -> << <<"U", a1[2]>> >>
    [] k1 = "U" /\ k2 = "U" -> IF a1[2] = newProv THEN <<>> ELSE << <<"U", a1[2]>> >>
    [] k1 = "U" /\ k2 = "W" -> << <<"W", a1[2]>> >>
    [] k1 = "W" /\ k2 = "A" -> IF a1[2] = newProv THEN <<>> ELSE << <<"U", a1[2]>> >>
    [] k1 = "W" /\ k2 = "U" -> IF a1[2] = newProv THEN <<>> ELSE << <<"U", a1[2]>> >>
    [] k1 = "W" /\ k2 = "W" -> << <<"W", a1[2]>> >>

RECURSIVE AspaMerge(_, _)
AspaMerge(d1, d2) ==
  IF d1 = <<>> THEN d2
  ELSE IF d2 = <<>> THEN d1
  ELSE IF Head(d1)[1] < Head(d2)[1] THEN <<Head(d1)>> \o AspaMerge(Tail(d1), d2)
  ELSE IF Head(d1)[1] > Head(d2)[1] THEN <<Head(d2)>> \o AspaMerge(d1, Tail(d2))
  ELSE LET t == AspaTable(Head(d1)[3], Head(d2)[3], Head(d2)[2])
           rest == AspaMerge(Tail(d1), Tail(d2))
       IN  IF t = <<>> THEN rest
           ELSE << <<Head(d2)[1], Head(d2)[2], t[1]>> >> \o rest

-----------------------------------------------------------------------------
(* PayloadDelta                                                            *)

Construct(old, new) ==
  [o |-> StdConstruct(old.o, new.o),
   k |-> StdConstruct(old.k, new.k),
   a |-> AspaConstruct(old.a, new.a)]

Merge(d1, d2) ==
  [o |-> StdMerge(d1.o, d2.o),
   k |-> StdMerge(d1.k, d2.k),
   a |-> AspaMerge(d1.a, d2.a)]

EmptyDelta == [o |-> <<>>, k |-> <<>>, a |-> <<>>]

IsEmpty(d) == d.o = <<>> /\ d.k = <<>> /\ d.a = <<>>

(* What a router sees: the externally visible action list                  *)
(* (PayloadDelta::actions / DeltaArcIter): origins, then keys, then ASPAs; *)
(* Update is sent as Announce.                                             *)
ExtAct(x) == IF x = "W" THEN "W" ELSE "A"
Actions(d) ==
     [i \in 1..Len(d.o) |-> <<"origin", d.o[i][1], {}, d.o[i][2]>>]
  \o [i \in 1..Len(d.k) |-> <<"key", d.k[i][1], {}, d.k[i][2]>>]
  \o [i \in 1..Len(d.a) |-> <<"aspa", d.a[i][1], d.a[i][2], ExtAct(d.a[i][3][1])>>]

AnnounceLen(d) ==
  Cardinality({i \in 1..Len(Actions(d)) : Actions(d)[i][4] = "A"})
WithdrawLen(d) ==
  Cardinality({i \in 1..Len(Actions(d)) : Actions(d)[i][4] = "W"})

-----------------------------------------------------------------------------
(* Declarative meaning: what a client does with the visible action list.   *)

ApplyStd(S, acts, type) ==
  (S \ {acts[i][2] : i \in {j \in 1..Len(acts) : acts[j][1] = type /\ acts[j][4] = "W"}})
  \cup {acts[i][2] : i \in {j \in 1..Len(acts) : acts[j][1] = type /\ acts[j][4] = "A"}}

ApplyAspa(m, acts) ==
  [c \in Customers |->
     IF \E i \in 1..Len(acts) : acts[i][1] = "aspa" /\ acts[i][2] = c
       THEN LET i == CHOOSE i \in 1..Len(acts) : acts[i][1] = "aspa" /\ acts[i][2] = c
            IN  IF acts[i][4] = "W" THEN Absent ELSE acts[i][3]
       ELSE m[c]]

Apply(s, d) ==
  LET acts == Actions(d) IN
  [o |-> ApplyStd(s.o, acts, "origin"),
   k |-> ApplyStd(s.k, acts, "key"),
   a |-> ApplyAspa(s.a, acts)]

(* A delta is well-formed relative to the data set it is applied to.       *)
Exact(old, new, d) ==
  LET acts == Actions(d)
      Ann(t) == {acts[i][2] : i \in {j \in 1..Len(acts) : acts[j][1] = t /\ acts[j][4] = "A"}}
      Wd(t)  == {acts[i][2] : i \in {j \in 1..Len(acts) : acts[j][1] = t /\ acts[j][4] = "W"}}
  IN
  /\ Ann("origin") = new.o \ old.o
  /\ Wd("origin")  = old.o \ new.o
  /\ Ann("key")    = new.k \ old.k
  /\ Wd("key")     = old.k \ new.k
  /\ Wd("aspa")    = AspaKeys(old.a) \ AspaKeys(new.a)
  /\ Ann("aspa")   = {c \in AspaKeys(new.a) : old.a[c] # new.a[c]}
  \* every key appears at most once
  /\ \A i, j \in 1..Len(acts) :
        (i # j /\ acts[i][1] = acts[j][1]) => acts[i][2] # acts[j][2]
  \* ordered by type, then by item
  /\ \A i \in 1..(Len(acts) - 1) :
        \/ acts[i][1] = acts[i+1][1] /\ acts[i][2] < acts[i+1][2]
        \/ <<acts[i][1], acts[i+1][1]>> \in
              {<<"origin","key">>, <<"origin","aspa">>, <<"key","aspa">>}

=============================================================================
