\* every row: subsets of {an RIR TAL, a test bed TAL, an unknown name} named with --tal x no-rir-tals x 7 states of the extra directory
SPECIFICATION Spec
CONSTANTS
  Production = {"afrinic", "apnic", "arin", "lacnic", "ripe"}
  OtherBundled = {"nlnetlabs-testbed"}
  Unknown = "no-such-tal"
  Variant = "code"
INVARIANTS FailsInsteadOfShrinking ExactlyTheConfiguredSet RirTalsUnlessSwitchedOff NoTestbedUnasked
CHECK_DEADLOCK FALSE
