\* the tree before the dirty mark: also safe against kills with an honest server
SPECIFICATION Spec
CONSTANTS
  NObj = 2
  Vals = {1, 2}
  MaxVer = 4
  MaxKills = 2
  MaxRuns = 4
  Caches = FALSE
  Variant = "pre_fix"
INVARIANTS TypeOK C24_ReportedMeansEqual NoTornReported MarkedWhileDirty
CHECK_DEADLOCK FALSE
