\* 2 URIs, all histories of 2 runs, every download result per URI, dirty or not per run
SPECIFICATION GSpec
CONSTANTS
  NUris = 2
  MaxRuns = 2
  Depth = 2
  Downloads <- AllDl
  DirtyChoices <- Bools
  Variant = "code"
INVARIANT Emit
CHECK_DEADLOCK FALSE
