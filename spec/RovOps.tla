------------------------------ MODULE RovOps ------------------------------
(***************************************************************************)
(* Route origin validation (RFC 6811) as done by routinator:               *)
(*   src/validity.rs        RouteValidity::new / state / reason /          *)
(*                          description (lines 101-179)                    *)
(*   src/http/validity.rs   GET /api/v1/validity/AS/prefix, GET/POST       *)
(*                          /validity  (all end in RouteValidity::new or   *)
(*                          RequestList::validity)                         *)
(*   src/operation.rs       Validate::run = read_requests ; get_snapshot ; *)
(*                          RequestList::validity ; write_plain/write_json *)
(*                                                                         *)
(* Abstraction: an address prefix is a bit string of length <= MaxBits in  *)
(* one of two address families; the replay appends the bit string to a     *)
(* concrete base prefix (10.0.0.0/8, 0.0.0.0/0, x.x.x.x/29, 2001:db8::/32, *)
(* ::/0, .../125), so prefix length l stands for base + l and the top of   *)
(* the model's length range stands for the family maximum where the base   *)
(* is chosen that way.  AS numbers are abstract names.                     *)
(*                                                                         *)
(* Two definitions are given and TLC checks that they agree:               *)
(*  - `Classify`: the loop of RouteValidity::new transcribed statement by  *)
(*    statement, over the data set in the order PayloadSnapshot keeps it;  *)
(*  - the declarative meaning of property C20 (RFC 6811 section 2), with   *)
(*    the freedom the statement leaves made explicit: a covering VRP that  *)
(*    mismatches in AS *and* in length may sit in either unmatched list,   *)
(*    and the reason must be backed by a non-empty list.                   *)
(***************************************************************************)
EXTENDS Naturals, Sequences, FiniteSets

CONSTANTS MaxBits,   \* longest modelled bit string
          Asns,      \* abstract AS numbers (naturals; order = numeric order)
          MaxVrps,   \* largest modelled data set
          Variant    \* "code": the pinned code.  Anything else is a seeded
                     \* mutant used to show that the invariants have teeth.

Fams == {"v4", "v6"}

BitStrings == UNION {[1..n -> {0, 1}] : n \in 0..MaxBits}
Prefixes   == {[fam |-> f, bits |-> b] : f \in Fams, b \in BitStrings}
PLen(p)    == Len(p.bits)

(* A VRP: prefix, max length (MaxLenPrefix::new refuses max < prefix       *)
(* length, so such values do not exist), AS number.                        *)
Vrps   == {v \in [p : Prefixes, max : 0..MaxBits, asn : Asns] : v.max >= PLen(v.p)}
Routes == [p : Prefixes, asn : Asns]

-----------------------------------------------------------------------------
(* rpki::resources::addr::Prefix                                           *)

(* The first n bits as a number. *)
RECURSIVE Val(_, _)
Val(bits, n) == IF n = 0 THEN 0 ELSE 2 * Val(bits, n - 1) + bits[n]

Min2(a, b) == IF a < b THEN a ELSE b

(* Prefix::covers (addr.rs:396): same family, self not longer, other       *)
(* starts with the bits of self.  (The code has a separate branch for two  *)
(* host prefixes because its shift does not work for length 128; the       *)
(* replay reaches that branch with the /29 and /125 bases.)                *)
Covers(a, b) ==
  /\ a.fam = b.fam
  /\ PLen(a) <= PLen(b)
  /\ Val(a.bits, PLen(a)) = Val(b.bits, PLen(a))

(* Ord for Prefix (addr.rs:436): v4 before v6; equal length: by bits;      *)
(* otherwise, if one covers the other the more specific comes first, else  *)
(* by bits (which then differ within the common length).                   *)
PrefixLess(a, b) ==
  IF a.fam # b.fam THEN a.fam = "v4"
  ELSE LET n == Min2(PLen(a), PLen(b)) IN
       IF Val(a.bits, n) # Val(b.bits, n) THEN Val(a.bits, n) < Val(b.bits, n)
       ELSE PLen(a) > PLen(b)

(* Ord for RouteOrigin (rtr/payload.rs:71): prefix, resolved max length,   *)
(* AS number.                                                              *)
VrpLess(v, w) ==
  IF v.p # w.p THEN PrefixLess(v.p, w.p)
  ELSE IF v.max # w.max THEN v.max < w.max
  ELSE v.asn < w.asn

(* PayloadSnapshot::origins(): the data set as a sorted, duplicate-free    *)
(* vector (payload/snapshot.rs:189).                                       *)
RECURSIVE Origins(_)
Origins(S) ==
  IF S = {} THEN <<>>
  ELSE LET first == CHOOSE v \in S : \A w \in S \ {v} : VrpLess(v, w)
       IN <<first>> \o Origins(S \ {first})

-----------------------------------------------------------------------------
(* src/validity.rs                                                         *)

TooLong(r, v) ==
  IF Variant = "mut_maxlen_ge" THEN PLen(r.p) >= v.max   \* mutant: `>=` for `>`
  ELSE PLen(r.p) > v.max                                 \* validity.rs:111

Empty3 == [matched |-> <<>>, bad_asn |-> <<>>, bad_len |-> <<>>]

(* RouteValidity::new, validity.rs:109-121: one pass over the origins; the *)
(* length test comes first, so a VRP wrong in both respects lands in       *)
(* bad_len.                                                                *)
RECURSIVE Loop(_, _, _, _)
Loop(items, r, i, acc) ==
  IF i > Len(items) THEN acc
  ELSE LET v == items[i] IN
       Loop(items, r, i + 1,
            IF Covers(v.p, r.p)                                   \* :110
            THEN IF TooLong(r, v)                                 \* :111
                 THEN [acc EXCEPT !.bad_len = Append(@, v)]       \* :112
                 ELSE IF v.asn # r.asn                            \* :114
                 THEN [acc EXCEPT !.bad_asn = Append(@, v)]       \* :115
                 ELSE [acc EXCEPT !.matched = Append(@, v)]       \* :118
            ELSE acc)

Lists(r, S) == Loop(Origins(S), r, 1, Empty3)

(* RouteValidity::state, validity.rs:133 *)
StateOf(l) ==
  IF l.matched = <<>>
  THEN IF l.bad_asn = <<>> /\ l.bad_len = <<>> THEN "not-found" ELSE "invalid"
  ELSE "valid"

(* RouteValidity::reason, validity.rs:147 ("none" = the JSON member is     *)
(* left out) *)
ReasonOf(l) ==
  IF l.matched = <<>>
  THEN IF Variant = "mut_reason_swapped"
       THEN IF l.bad_asn # <<>> THEN "length" ELSE IF l.bad_len # <<>> THEN "as" ELSE "none"
       ELSE IF l.bad_asn # <<>> THEN "as" ELSE IF l.bad_len # <<>> THEN "length" ELSE "none"
  ELSE "none"

(* RouteValidity::description, validity.rs:164 *)
DescriptionOf(l) ==
  IF l.matched = <<>>
  THEN IF l.bad_asn # <<>> THEN "bad-asn" ELSE IF l.bad_len # <<>> THEN "bad-len" ELSE "not-found"
  ELSE "valid"

Classify(r, S) ==
  LET l == Lists(r, S) IN
  [state |-> StateOf(l), reason |-> ReasonOf(l), description |-> DescriptionOf(l),
   matched |-> l.matched, bad_asn |-> l.bad_asn, bad_len |-> l.bad_len]

-----------------------------------------------------------------------------
(* The property: RFC 6811 section 2, and what C20 says about the lists.    *)

Covering(r, S) == {v \in S : Covers(v.p, r.p)}
Matches(r, v)  == Covers(v.p, r.p) /\ v.asn = r.asn /\ PLen(r.p) <= v.max
Matching(r, S) == {v \in S : Matches(r, v)}

Rfc6811State(r, S) ==
  IF Matching(r, S) # {} THEN "valid"
  ELSE IF Covering(r, S) # {} THEN "invalid"
  ELSE "not-found"

(* All ways the statement allows to split the covering VRPs. *)
AllowedPartitions(r, S) ==
  LET rest == Covering(r, S) \ Matching(r, S) IN
  {[m |-> Matching(r, S), a |-> A, l |-> rest \ A] :
     A \in {A \in SUBSET rest :
              /\ \A v \in A : v.asn # r.asn
              /\ \A v \in rest \ A : PLen(r.p) > v.max}}

(* "The reason follows the lists": none unless invalid; when invalid it    *)
(* names a non-empty unmatched list.                                       *)
AllowedReasons(state, A, L) ==
  IF state # "invalid" THEN {"none"}
  ELSE (IF A # {} THEN {"as"} ELSE {}) \cup (IF L # {} THEN {"length"} ELSE {})

RangeOf(s) == {s[i] : i \in DOMAIN s}
NoDup(s) == Cardinality(RangeOf(s)) = Len(s)

Holds(r, S, c) ==
  /\ c.state = Rfc6811State(r, S)
  /\ NoDup(c.matched) /\ NoDup(c.bad_asn) /\ NoDup(c.bad_len)
  /\ [m |-> RangeOf(c.matched), a |-> RangeOf(c.bad_asn), l |-> RangeOf(c.bad_len)]
       \in AllowedPartitions(r, S)
  /\ c.reason \in AllowedReasons(c.state, RangeOf(c.bad_asn), RangeOf(c.bad_len))
=============================================================================
