\* quick export, pairs: every pair of accepted URIs one edit apart (host case, port, host, module, one segment
\* substituted, one or two segments appended, trailing slash) for all six kinds;
\* segments {a, A, %2e%2e, ""}, <= 2 segments.  Variant = as_shipped: the entries are those of the pinned code.
SPECIFICATION Spec
CONSTANTS
  Variant = "as_shipped"
  Kinds = {"mft", "mftn", "mftr", "ta", "tah", "notify", "notify1"}
  Mode = "near"
  HostsR = {"h.test", "g.test"}
  HostsH = {"h.test", "g.test", "..", ""}
  HCases = {"lower", "mixed"}
  SCases = {"lower"}
  Ports = {"", "873"}
  Mods = {"m", "n"}
  Segs = {"a", "A", "%2e%2e", ""}
  SegsAll = {"a"}
  NearSpread = 1
  MaxSegs = 2
INVARIANT Emit
CHECK_DEADLOCK FALSE
