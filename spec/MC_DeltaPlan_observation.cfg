\* the observation of DeltaPlan.tla (expected to FAIL on the code as it is): with more deltas listed than
\* rrdp-max-delta-list-len allows, a copy that is up to date is replaced by the snapshot all the same
SPECIFICATION Spec
CONSTANTS
  MaxSerial = 5
  Counts = {1, 2, 4}
  ListLens = {2, 10}
  Variant = "code"
INVARIANT UpToDateCopyNeedsNoSnapshot
CHECK_DEADLOCK FALSE
