---------------------------- MODULE MC_RpkiTree ----------------------------
EXTENDS RpkiTree
ConfigSet == {[stale |-> "reject", unsafe |-> "accept", maxdepth |-> 32],
              [stale |-> "warn",   unsafe |-> "reject", maxdepth |-> 32],
              [stale |-> "accept", unsafe |-> "warn",   maxdepth |-> 2],
              [stale |-> "reject", unsafe |-> "reject", maxdepth |-> 3]}
AllShapes == {"chain", "siblings", "overlap", "twotals", "deep", "loop", "halves"}
=============================================================================
