\* behaviour export (publishes only, long delta chains): objects {1, 2}, <= 4 server versions, 2 client runs, <= 1 faults, ETag {TRUE}
\* (Variant comes from the environment variable RRDP_VARIANT, default as_shipped)
SPECIFICATION GSpec
CONSTANTS
  Objs = {1, 2}
  MaxVer = 4
  MaxRuns = 2
  MaxFaults = 1
  EtagModes = {TRUE}
  WithExpiry = FALSE
  Variant <- GenVariant
CONSTRAINT Stop
CONSTRAINT OneSession
INVARIANT Emit
CHECK_DEADLOCK FALSE
