----------------------------- MODULE Gen_Fetch -----------------------------
(* Behaviour export for Fetch part (a): complete thread schedules.  A       *)
(* behaviour is the sequence of steps (thread, action, key, label reached,  *)
(* did the call return) of a run in which every thread finished all its     *)
(* calls, plus the fetch count per key the model arrives at.  The replayer   *)
(* releases the real threads from their preemption points in this order.     *)
(* OnlyBad = TRUE exports only the behaviours that violate C37 in the model  *)
(* (the counterexample schedules of the as_shipped order).                   *)
EXTENDS Fetch, Json

CONSTANTS OnlyBad     \* BOOLEAN

\* symmetry cut: the n-th new key used by a behaviour is the n-th key of this sequence
KeySeq == SelectSeq(<<"k1", "k2", "k3">>, LAMBDA k : k \in Keys)

VARIABLES h, used

Rec(t, a) == [t |-> t, a |-> a, k |-> key'[t], pc |-> pc'[t], ret |-> returned'[t] # returned[t]]

FirstUnused == LET idx == {i \in 1..Len(KeySeq) : KeySeq[i] \notin used}
               IN IF idx = {} THEN {} ELSE {KeySeq[CHOOSE i \in idx : \A j \in idx : i <= j]}

GInit == Init /\ h = <<>> /\ used = {}
GNext ==
  \E t \in Threads :
    \/ \E k \in used \cup FirstUnused : Check1(t, k) /\ h' = Append(h, Rec(t, "check1")) /\ used' = used \cup {k}
    \/ /\ \/ GetMutex(t) /\ h' = Append(h, Rec(t, "getmtx"))
          \/ Lock(t) /\ h' = Append(h, Rec(t, "lock"))
          \/ Check2(t) /\ h' = Append(h, Rec(t, "check2"))
          \/ FetchStart(t) /\ h' = Append(h, Rec(t, "fetch"))
          \/ FetchEnd(t) /\ h' = Append(h, Rec(t, "fetching"))
          \/ Book1(t) /\ h' = Append(h, Rec(t, "book1"))
          \/ Book2(t) /\ h' = Append(h, Rec(t, "book2"))
          \/ Unlock(t) /\ h' = Append(h, Rec(t, "unlock"))
       /\ UNCHANGED used
GSpec == GInit /\ [][GNext]_<<vars, h, used>>

Good == C37_AtMostOnce /\ C37_WaitsForFetch
Line == [order |-> Order, c2r |-> Check2Removes, threads |-> Cardinality(Threads), steps |-> h,
         fetches |-> fetchCount, good |-> Good]
Emit == (AllDone /\ (OnlyBad => ~Good)) => PrintT(<<"REPLAY", ToJson(Line)>>)
=============================================================================
