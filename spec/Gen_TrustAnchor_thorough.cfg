\* 2 URIs, all histories of 3 runs with cleanup after every run
SPECIFICATION GSpec
CONSTANTS
  NUris = 2
  MaxRuns = 3
  Depth = 3
  Downloads <- AllDl
  DirtyChoices <- Clean
  Variant = "code"
INVARIANT Emit
CHECK_DEADLOCK FALSE
