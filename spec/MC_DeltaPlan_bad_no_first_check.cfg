\* a wrong planner (no_first_check, see DeltaPlan.tla): TLC must reject it
SPECIFICATION Spec
CONSTANTS
  MaxSerial = 5
  Counts = {1, 2, 4}
  ListLens = {2, 10}
  Variant = "no_first_check"
INVARIANTS DeltasExactlyTheMissingOnes DeltasWheneverUsable NeverMoreThanConfigured NothingOnlyWhenEqual
CHECK_DEADLOCK FALSE
