\* thorough (1/2): all 61 options, every class, every combination of <= 2 settings (~470 k states).
SPECIFICATION Spec
CONSTANTS
  Opts <- AllOpts
  MaxSet = 2
  Variant = "intended"
  Fixed = {}
INVARIANTS TypeOK C35_PrintedFileAccepted C35_RoundTrip
CHECK_DEADLOCK FALSE
