\* seeded fault: a Not Modified answer makes the run validate from the store alone; TLC must reject it
SPECIFICATION Spec
CONSTANTS
  NPoints = 3
  MaxKills = 2
  Variant = "not_modified_skips_copy"
INVARIANTS TypeOK C23_RunAfterKillCatchesUp
CHECK_DEADLOCK FALSE
