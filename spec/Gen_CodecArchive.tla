-------------------------- MODULE Gen_CodecArchive --------------------------
(* Export: every (damaged field, reader operation) with the outcome class  *)
(* of the decoder variant given in the cfg.                                *)
EXTENDS CodecArchive, Json
GSpec == Init /\ [][Corrupt]_vars
Emit == PrintT(<<"REPLAY", ToJson([archive |-> TRUE, cor |-> cor, op |-> op,
                                    exp |-> Final(Start(op), ApplyCor(cor), op).outcome])>>)
=============================================================================
