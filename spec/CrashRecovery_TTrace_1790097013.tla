---- MODULE CrashRecovery_TTrace_1790097013 ----
EXTENDS Sequences, TLCExt, Toolbox, Naturals, TLC, CrashRecovery

_expression ==
    LET CrashRecovery_TEExpression == INSTANCE CrashRecovery_TEExpression
    IN CrashRecovery_TEExpression!expression
----

_trace ==
    LET CrashRecovery_TETrace == INSTANCE CrashRecovery_TETrace
    IN CrashRecovery_TETrace!trace
----

_inv ==
    ~(
        TLCGet("level") = Len(_TETrace)
        /\
        todo = ({})
        /\
        kills = (1)
        /\
        pc = ("idle")
        /\
        stored = (<<"old", "old", "old">>)
        /\
        copy = ("new")
        /\
        complete = (TRUE)
    )
----

_init ==
    /\ todo = _TETrace[1].todo
    /\ complete = _TETrace[1].complete
    /\ stored = _TETrace[1].stored
    /\ pc = _TETrace[1].pc
    /\ copy = _TETrace[1].copy
    /\ kills = _TETrace[1].kills
----

_next ==
    /\ \E i,j \in DOMAIN _TETrace:
        /\ \/ /\ j = i + 1
              /\ i = TLCGet("level")
        /\ todo  = _TETrace[i].todo
        /\ todo' = _TETrace[j].todo
        /\ complete  = _TETrace[i].complete
        /\ complete' = _TETrace[j].complete
        /\ stored  = _TETrace[i].stored
        /\ stored' = _TETrace[j].stored
        /\ pc  = _TETrace[i].pc
        /\ pc' = _TETrace[j].pc
        /\ copy  = _TETrace[i].copy
        /\ copy' = _TETrace[j].copy
        /\ kills  = _TETrace[i].kills
        /\ kills' = _TETrace[j].kills

\* Uncomment the ASSUME below to write the states of the error trace
\* to the given file in Json format. Note that you can pass any tuple
\* to `JsonSerialize`. For example, a sub-sequence of _TETrace.
    \* ASSUME
    \*     LET J == INSTANCE Json
    \*         IN J!JsonSerialize("CrashRecovery_TTrace_1790097013.json", _TETrace)

=============================================================================

 Note that you can extract this module `CrashRecovery_TEExpression`
  to a dedicated file to reuse `expression` (the module in the 
  dedicated `CrashRecovery_TEExpression.tla` file takes precedence 
  over the module `CrashRecovery_TEExpression` below).

---- MODULE CrashRecovery_TEExpression ----
EXTENDS Sequences, TLCExt, Toolbox, Naturals, TLC, CrashRecovery

expression == 
    [
        \* To hide variables of the `CrashRecovery` spec from the error trace,
        \* remove the variables below.  The trace will be written in the order
        \* of the fields of this record.
        todo |-> todo
        ,complete |-> complete
        ,stored |-> stored
        ,pc |-> pc
        ,copy |-> copy
        ,kills |-> kills
        
        \* Put additional constant-, state-, and action-level expressions here:
        \* ,_stateNumber |-> _TEPosition
        \* ,_todoUnchanged |-> todo = todo'
        
        \* Format the `todo` variable as Json value.
        \* ,_todoJson |->
        \*     LET J == INSTANCE Json
        \*     IN J!ToJson(todo)
        
        \* Lastly, you may build expressions over arbitrary sets of states by
        \* leveraging the _TETrace operator.  For example, this is how to
        \* count the number of times a spec variable changed up to the current
        \* state in the trace.
        \* ,_todoModCount |->
        \*     LET F[s \in DOMAIN _TETrace] ==
        \*         IF s = 1 THEN 0
        \*         ELSE IF _TETrace[s].todo # _TETrace[s-1].todo
        \*             THEN 1 + F[s-1] ELSE F[s-1]
        \*     IN F[_TEPosition - 1]
    ]

=============================================================================



Parsing and semantic processing can take forever if the trace below is long.
 In this case, it is advised to uncomment the module below to deserialize the
 trace from a generated binary file.

\*
\*---- MODULE CrashRecovery_TETrace ----
\*EXTENDS IOUtils, TLC, CrashRecovery
\*
\*trace == IODeserialize("CrashRecovery_TTrace_1790097013.bin", TRUE)
\*
\*=============================================================================
\*

---- MODULE CrashRecovery_TETrace ----
EXTENDS TLC, CrashRecovery

trace == 
    <<
    ([todo |-> {},kills |-> 0,pc |-> "idle",stored |-> <<"old", "old", "old">>,copy |-> "old",complete |-> FALSE]),
    ([todo |-> 1..3,kills |-> 0,pc |-> "fetched",stored |-> <<"old", "old", "old">>,copy |-> "new",complete |-> FALSE]),
    ([todo |-> {},kills |-> 1,pc |-> "idle",stored |-> <<"old", "old", "old">>,copy |-> "new",complete |-> FALSE]),
    ([todo |-> 1..3,kills |-> 1,pc |-> "store_only",stored |-> <<"old", "old", "old">>,copy |-> "new",complete |-> FALSE]),
    ([todo |-> {2, 3},kills |-> 1,pc |-> "store_only",stored |-> <<"old", "old", "old">>,copy |-> "new",complete |-> FALSE]),
    ([todo |-> {3},kills |-> 1,pc |-> "store_only",stored |-> <<"old", "old", "old">>,copy |-> "new",complete |-> FALSE]),
    ([todo |-> {},kills |-> 1,pc |-> "store_only",stored |-> <<"old", "old", "old">>,copy |-> "new",complete |-> FALSE]),
    ([todo |-> {},kills |-> 1,pc |-> "idle",stored |-> <<"old", "old", "old">>,copy |-> "new",complete |-> TRUE])
    >>
----


=============================================================================

---- CONFIG CrashRecovery_TTrace_1790097013 ----
CONSTANTS
    NPoints = 3
    MaxKills = 2
    Variant = "not_modified_skips_copy"

INVARIANT
    _inv

CHECK_DEADLOCK
    \* CHECK_DEADLOCK off because of PROPERTY or INVARIANT above.
    FALSE

INIT
    _init

NEXT
    _next

CONSTANT
    _TETrace <- _trace

ALIAS
    _expression
=============================================================================
\* Generated on Tue Sep 22 17:10:14 UTC 2026