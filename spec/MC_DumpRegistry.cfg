\* authorities h and h-1, three notification paths, every order of four registrations
SPECIFICATION Spec
CONSTANTS
  Auths = {"h", "h-1"}
  Paths = {"a", "b", "c"}
  MaxRegs = 4
  Variant = "code"
INVARIANTS C30_DumpDirsDistinct Emit
CHECK_DEADLOCK FALSE
