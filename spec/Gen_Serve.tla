----------------------------- MODULE Gen_Serve -----------------------------
(* Behaviour export for Serve: complete schedules with the expected        *)
(* observation of every request.                                           *)
EXTENDS Serve, Json

VARIABLE h

Rec(step, arg) ==
  [s |-> step, a |-> arg,
   serial |-> serial', ver |-> ver', pcU |-> pcU', pcN |-> pcN',
   h |-> hresp', r |-> rresp', msg |-> msg']

GInit == Init /\ h = <<>>
GNext ==
  \/ \E d \in DataSets : Install(d) /\ h' = Append(h, Rec("install", d))
  \/ MarkDone /\ h' = Append(h, Rec("markdone", clock' - clock))
  \/ Notify /\ h' = Append(h, Rec("notify", 0))
  \/ \E m \in {"none", "etag", "date", "both"} : HttpGet(m) /\ h' = Append(h, Rec("http", m))
  \/ RtrReset /\ h' = Append(h, Rec("rtr_reset", 0))
  \/ RtrSerial /\ h' = Append(h, Rec("rtr_serial", 0))
  \/ NStart /\ h' = Append(h, Rec("n_start", 0))
  \/ NSubscribe /\ h' = Append(h, Rec("n_subscribe", 0))
  \/ NCheck /\ h' = Append(h, Rec("n_check", 0))
  \/ NWake /\ h' = Append(h, Rec("n_wake", 0))
GSpec == GInit /\ [][GNext]_<<vars, h>>

Complete == nUpd = MaxUpdates /\ pcN \in {"idle", "done"} /\ ~ENABLED NWake
Emit == Complete /\ (nReq = MaxReq) /\ (nRtr = MaxRtr) => PrintT(<<"REPLAY", ToJson([steps |-> h])>>)
=============================================================================
