\* quick: bit strings of length <= 3 in 2 families (30 prefixes), 2 AS numbers:
\* 104 VRPs, 60 routes; every route x every data set of <= 2 VRPs (327 660 states)
SPECIFICATION Spec
CONSTANTS
  MaxBits = 3
  Asns = {1, 2}
  MaxVrps = 2
  Variant = "code"
INVARIANTS
  C20_State
  C20_Partition
  C20_Reason
  Code_BothWrongIsLength
  Code_AsBeforeLength
  Code_Description
  Code_ListsSorted
  Rfc_Monotone
CHECK_DEADLOCK FALSE
