\* thorough: data sets <= 5 items (120), selections <= 3 selectors (344), 8 exclusions = 330 240 cases; strings <= 4 classes (2801)
SPECIFICATION GSpec
CONSTANTS
  MaxItems = 5
  MaxSel = 3
  MaxStr = 4
  Variant = "intended"
INVARIANT Emit
CHECK_DEADLOCK FALSE
