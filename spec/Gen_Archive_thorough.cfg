\* thorough, part 1: every sequence of 5 successful mutating operations (reopens are added by the replayer) with
\* data lengths {0, 1, 2} (one page with padding, exactly one page, 2 pages).  About 45 k behaviours.
SPECIFICATION GSpec
CONSTANTS
  Names = {"a", "b", "c"}
  NBuckets = 2
  BucketOf <- GBucketOf
  Lens = {0, 1, 2}
  Metas = {1, 2}
  Page = 4
  Header = 2
  NameMeta = 1
  LongNames = {"b"}
  IndexEnd = 3
  MaxOps = 5
  MaxFile = 1000
  Variant = "code"
  Mode = "exhaustive"
  MaxReopen = 0
  NWalks = 1
  Seed = 1
INVARIANTS Emit C26_NoError C26_Results C26_Refinement C26_Tiling C26_Accounted C26_VerifyOk
CHECK_DEADLOCK FALSE
