--------------------------- MODULE MC_GenRpkiTree ---------------------------
EXTENDS Gen_RpkiTree
ConfigSet == {[stale |-> "reject", unsafe |-> "accept", maxdepth |-> 32],
              [stale |-> "warn",   unsafe |-> "reject", maxdepth |-> 32],
              [stale |-> "accept", unsafe |-> "warn",   maxdepth |-> 2],
              [stale |-> "reject", unsafe |-> "reject", maxdepth |-> 3]}
(* the two policies differ in two of the configurations, once in each direction: a mix-up of the two options shows *)
QuickConfigSet == {[stale |-> "reject", unsafe |-> "reject", maxdepth |-> 3],
                   [stale |-> "warn",   unsafe |-> "accept", maxdepth |-> 32],
                   [stale |-> "reject", unsafe |-> "accept", maxdepth |-> 32],
                   [stale |-> "accept", unsafe |-> "reject", maxdepth |-> 32]}
OneConfig == {[stale |-> "reject", unsafe |-> "reject", maxdepth |-> 32]}
TwoShapes == {"siblings", "overlap"}
AllShapes == {"chain", "siblings", "overlap", "twotals", "deep", "loop", "halves"}
(* every pair of rejected publication points in the shape "halves", each unsafe-vrps policy *)
UnsafeShapes  == {"halves", "families"}
UnsafeConfigs == {[stale |-> "reject", unsafe |-> u, maxdepth |-> 32] : u \in {"reject", "warn", "accept"}}
(* the chain of five CAs under every maximum depth around its length, 0 included (only the trust anchor itself counts) *)
DeepOnly     == {"deep"}
DepthConfigs == {[stale |-> "reject", unsafe |-> "accept", maxdepth |-> d] : d \in {0, 1, 2, 3, 4, 5, 32}}
PointFaultsOnly(site, k) == site[1] = "mft" /\ k \in {"Missing", "Expired", "HashMismatch", "Stale"}
=============================================================================
