----------------------------- MODULE RpkiTree -----------------------------
(***************************************************************************)
(* Validation of an RPKI repository tree by Routinator:                    *)
(* src/engine.rs (Run::process, PubPoint::process / process_collected /    *)
(* process_stored / process_object), src/payload/validation.rs             *)
(* (PubPointProcessor, SnapshotBuilder).                                   *)
(*                                                                         *)
(* The world (TALs, CA tree, objects, one fault per site, configuration)   *)
(* is chosen in Init; it never changes.  Two descriptions are given:       *)
(*   - declarative: which CA certificates are valid, which publication     *)
(*     points are accepted / rejected, which payload is expected;          *)
(*   - operational: the engine's task queue worked off by several          *)
(*     validation threads (TalTask, CaTask with deferral, accept /         *)
(*     reject), accumulating `produced` and `rejected`.                    *)
(* TLC checks that every schedule of the operational model terminates and  *)
(* ends with exactly the declarative result.                               *)
(*                                                                         *)
(* Resources are prefixes = bit strings below one base block; a prefix p   *)
(* covers q iff p is an initial segment of q.  Cryptographic validity of a *)
(* single object is abstract: each site carries at most one named fault,   *)
(* which the harness turns into one concrete mutation.                     *)
(***************************************************************************)
EXTENDS Naturals, Sequences, FiniteSets, TLC

CONSTANTS Shapes,      \* set of shape names to explore
          MaxFaults,   \* number of fault sites that may carry a fault
          Configs,     \* set of configuration records
          Threads      \* number of validation threads in the operational model

-----------------------------------------------------------------------------
(* Prefix lattice *)
Covers(p, q)  == Len(p) <= Len(q) /\ SubSeq(q, 1, Len(p)) = p
Overlap(p, q) == Covers(p, q) \/ Covers(q, p)
CoveredBy(ps, q) == \E p \in ps : Covers(p, q)            \* q inside the block set ps
Within(qs, ps)   == \A q \in qs : CoveredBy(ps, q)
(* A block set that adds up to the whole address family (the certificate   *)
(* encoding merges adjacent blocks, so {0/1, 128/1} is 0/0).               *)
Leaves     == {<<a, b, c>> : a \in {0, 1}, b \in {0, 1}, c \in {0, 1}}
HoldsAll(ps) == \A q \in Leaves : CoveredBy(ps, q)

-----------------------------------------------------------------------------
(* Shapes: fault-free worlds.  A CA: parent (0 = trust anchor), key, repo  *)
(* (rsync module number), res (set of prefixes), asn range is implicit     *)
(* (all CAs hold all ASNs used).  Objects: [ca, kind, name, ...].          *)

Roa(ca, n, p, a)     == [ca |-> ca, kind |-> "roa", n |-> n, p |-> p, asn |-> a]
Asp(ca, n, c, prov)  == [ca |-> ca, kind |-> "aspa", n |-> n, cust |-> c, prov |-> prov]
Rtr(ca, n, a, k)     == [ca |-> ca, kind |-> "rtr", n |-> n, asn |-> a, rk |-> k]
Ca(par, key, repo, res) == [parent |-> par, key |-> key, repo |-> repo, res |-> res]

Shape(name) ==
  CASE name = "chain" ->
         \* TA -> CA2 -> CA3, one repository
         [cas  |-> <<Ca(0, 1, 1, {<<>>}), Ca(1, 2, 1, {<<0>>}), Ca(2, 3, 1, {<<0,0>>})>>,
          objs |-> {Roa(2, 1, <<0,1>>, 1), Roa(3, 1, <<0,0>>, 2), Roa(3, 2, <<0,0,1>>, 1)},
          tals |-> <<1>>]
    [] name = "siblings" ->
         \* TA -> CA2, CA3 with disjoint resources in different repositories
         [cas  |-> <<Ca(0, 1, 1, {<<>>}), Ca(1, 2, 2, {<<0>>}), Ca(1, 3, 3, {<<1>>})>>,
          objs |-> {Roa(2, 1, <<0>>, 1), Roa(2, 2, <<0,1>>, 2), Roa(3, 1, <<1>>, 1), Asp(3, 2, 1, {2})},
          tals |-> <<1>>]
    [] name = "overlap" ->
         \* TA -> CA2, CA3 holding overlapping resources; CA3 -> CA4
         [cas  |-> <<Ca(0, 1, 1, {<<>>}), Ca(1, 2, 1, {<<0>>}), Ca(1, 3, 2, {<<0,0>>, <<1>>}),
                     Ca(3, 4, 2, {<<1,0>>})>>,
          objs |-> {Roa(2, 1, <<0>>, 1), Roa(2, 2, <<0,0,1>>, 1), Roa(2, 3, <<0,1>>, 2),
                    Roa(3, 1, <<1>>, 2), Roa(4, 1, <<1,0>>, 1)},
          tals |-> <<1>>]
    [] name = "twotals" ->
         \* two trust anchors publishing the same VRP and different ones
         [cas  |-> <<Ca(0, 1, 1, {<<>>}), Ca(0, 2, 2, {<<>>}), Ca(1, 3, 1, {<<0>>}), Ca(2, 4, 2, {<<0>>, <<1>>})>>,
          objs |-> {Roa(3, 1, <<0>>, 1), Roa(4, 1, <<0>>, 1), Roa(4, 2, <<1>>, 2), Rtr(3, 2, 1, 1), Rtr(4, 3, 1, 1)},
          tals |-> <<1, 2>>]
    [] name = "deep" ->
         \* chain of five CAs for the depth limit
         [cas  |-> <<Ca(0, 1, 1, {<<>>}), Ca(1, 2, 1, {<<>>}), Ca(2, 3, 1, {<<>>}), Ca(3, 4, 1, {<<>>}),
                     Ca(4, 5, 1, {<<>>})>>,
          objs |-> {Roa(1, 1, <<0>>, 1), Roa(2, 1, <<0,0>>, 1), Roa(3, 1, <<0,1>>, 1), Roa(4, 1, <<1>>, 1),
                    Roa(5, 1, <<1,1>>, 2)},
          tals |-> <<1>>]
    [] name = "halves" ->
         \* TA with ROAs of its own; CA2 and CA3 hold the two halves of the space, CA4 all of it:
         \* for the unsafe-VRP filter when several publication points are rejected in one run
         \* (the resources of CA2 and CA3 add up to the whole space; CA4's whole-space block is skipped)
         [cas  |-> <<Ca(0, 1, 1, {<<>>}), Ca(1, 2, 2, {<<0>>}), Ca(1, 3, 3, {<<1>>}), Ca(1, 4, 2, {<<>>})>>,
          objs |-> {Roa(1, 1, <<0,1>>, 1), Roa(1, 2, <<1,0>>, 2), Roa(2, 1, <<0,0>>, 1), Roa(3, 1, <<1,1>>, 2),
                    Roa(4, 1, <<1>>, 1)},
          tals |-> <<1>>]
    [] name = "families" ->
         \* prefixes tagged with their address family (first element 4 or 6: never a prefix of one another):
         \* CA2 holds IPv6 ::/1, CA3 holds IPv4 0.0.0.0/1, the TA has a ROA in either family next to them.
         \* A rejected CA2 makes <<6,0,...>> unsafe and says nothing about <<4,0,...>>, although the two look
         \* alike once both are written as left-aligned bit strings (the representation the filter works on).
         [cas  |-> <<Ca(0, 1, 1, {<<4>>, <<6>>}), Ca(1, 2, 2, {<<6, 0>>}), Ca(1, 3, 3, {<<4, 0>>})>>,
          objs |-> {Roa(1, 1, <<4, 0, 1>>, 1), Roa(1, 2, <<6, 0, 1>>, 2), Roa(2, 1, <<6, 0, 0>>, 1), Roa(3, 1, <<4, 0, 0>>, 2)},
          tals |-> <<1>>]
    [] name = "loop" ->
         \* CA3 issues a certificate for the TA's key (CA4) and one for its own parent's key (CA5)
         [cas  |-> <<Ca(0, 1, 1, {<<>>}), Ca(1, 2, 1, {<<0>>, <<1>>}), Ca(2, 3, 1, {<<0>>}), Ca(3, 1, 1, {<<0>>}),
                     Ca(3, 2, 1, {<<0,0>>}), Ca(3, 6, 1, {<<0,1>>})>>,
          objs |-> {Roa(2, 1, <<1>>, 1), Roa(3, 1, <<0>>, 1), Roa(4, 1, <<0>>, 2), Roa(5, 1, <<0,0>>, 2),
                    Roa(6, 1, <<0,1>>, 1)},
          tals |-> <<1>>]

-----------------------------------------------------------------------------
(* Fault kinds per site type (see harness/src/gen/world.rs, enum Fault).   *)
ObjFaults  == {"BadSig", "Revoked", "Expired", "NotYet", "WrongCrl", "Garbage", "Missing",
               "HashMismatch", "Unlisted", "Overclaim"}
CertFaults == ObjFaults
MftFaults  == {"BadSig", "Revoked", "Expired", "Missing", "Garbage", "HashMismatch", "WrongCrl",
               "Stale", "Premature"}
CrlFaults  == {"BadSig", "Missing", "Garbage", "HashMismatch", "Unlisted", "Stale"}
TaFaults   == {"WrongKey", "Garbage", "Expired", "Absent"}
PointLevel == {"Missing", "HashMismatch"}        \* make the whole fetch of the point fail

VARIABLES shape,     \* name of the chosen shape
          w,         \* the world of that shape (constant after Init; a variable so TLC does not rebuild it)
          faults,    \* function: fault site -> fault kind (partial, as a set of <<site, kind>>)
          config,    \* [stale, unsafe, maxdepth]
          queue,     \* operational: set of pending tasks
          busy,      \* operational: tasks currently being worked on (one per thread at most)
          produced,  \* operational: payload committed so far (set of objects)
          rejected,  \* operational: CAs whose publication point was rejected
          seenCa     \* operational: CAs whose certificate was found valid

vars == <<shape, w, faults, config, queue, busy, produced, rejected, seenCa>>

W      == w
NCA    == Len(W.cas)
CAs    == 1..NCA
Objs   == W.objs
IsTa(c)   == W.cas[c].parent = 0
Children(c) == {d \in CAs : W.cas[d].parent = c}
ObjsOf(c)   == {o \in Objs : o.ca = c}

(* Fault sites *)
Sites == {<<"cert", c>> : c \in {c \in CAs : ~IsTa(c)}} \cup {<<"ta", c>> : c \in {c \in CAs : IsTa(c)}}
         \cup {<<"mft", c>> : c \in CAs} \cup {<<"crl", c>> : c \in CAs}
         \cup {<<"obj", o.ca, o.n>> : o \in Objs}
(* An overclaim needs something the issuer does not hold. *)
KindsFor(site) == CASE site[1] = "cert" ->
                         IF HoldsAll(W.cas[W.cas[site[2]].parent].res) THEN CertFaults \ {"Overclaim"} ELSE CertFaults
                    [] site[1] = "ta"   -> TaFaults
                    [] site[1] = "mft"  -> MftFaults
                    [] site[1] = "crl"  -> CrlFaults
                    [] site[1] = "obj"  ->
                         IF HoldsAll(W.cas[site[2]].res) THEN ObjFaults \ {"Overclaim"} ELSE ObjFaults

(* Instances may restrict the faults considered (definition override).     *)
KindOk(site, k) == TRUE
AllFaults == UNION {{<<s, k>> : k \in {x \in KindsFor(s) : KindOk(s, x)}} : s \in Sites}
FaultSets == {{}} \cup {{f} : f \in AllFaults}
             \cup (IF MaxFaults >= 2
                     THEN {{f, g} : f \in AllFaults, g \in AllFaults} \ {fs \in {{f, g} : f \in AllFaults, g \in AllFaults} :
                             \E f, g \in fs : f # g /\ f[1] = g[1]}
                     ELSE {})

FaultAt(site) == IF \E f \in faults : f[1] = site
                   THEN (CHOOSE f \in faults : f[1] = site)[2] ELSE "None"

-----------------------------------------------------------------------------
(* Declarative validity *)

RECURSIVE Depth(_)
Depth(c) == IF IsTa(c) THEN 0 ELSE 1 + Depth(W.cas[c].parent)

RECURSIVE AncestorKeys(_)
AncestorKeys(c) == IF IsTa(c) THEN {} ELSE
                     LET p == W.cas[c].parent IN {W.cas[p].key} \cup AncestorKeys(p)

StaleOk == config.stale # "reject"

MftOk(c) == LET f == FaultAt(<<"mft", c>>) IN f = "None" \/ (f = "Stale" /\ StaleOk)
CrlOk(c) == LET f == FaultAt(<<"crl", c>>) IN f = "None" \/ (f = "Stale" /\ StaleOk)

(* Every file listed on the manifest is retrievable with a matching hash. *)
FilesOk(c) ==
  /\ \A o \in ObjsOf(c) : FaultAt(<<"obj", c, o.n>>) \notin PointLevel
  /\ \A d \in Children(c) : FaultAt(<<"cert", d>>) \notin PointLevel

RECURSIVE CertOk(_), Accepted(_)
(* The CA certificate of c is accepted by the engine. *)
CertOk(c) ==
  IF IsTa(c) THEN FaultAt(<<"ta", c>>) = "None"
  ELSE LET p == W.cas[c].parent IN
       /\ Accepted(p)
       /\ FaultAt(<<"cert", c>>) = "None"
       /\ Within(W.cas[c].res, W.cas[p].res)
       /\ Depth(c) <= config.maxdepth
       /\ W.cas[c].key \notin AncestorKeys(c)
(* The publication point of c is accepted (its payload is committed). *)
Accepted(c) == CertOk(c) /\ MftOk(c) /\ CrlOk(c) /\ FilesOk(c)

(* The point is rejected: the certificate was fine, the point was not.   *)
(* Its resources are then marked unsafe (PubPointProcessor::cancel).      *)
Rejected(c) == CertOk(c) /\ ~Accepted(c)

ObjOk(o) == /\ Accepted(o.ca)
            /\ FaultAt(<<"obj", o.ca, o.n>>) = "None"
            /\ (o.kind = "roa" => CoveredBy(W.cas[o.ca].res, o.p))

ValidObjs == {o \in Objs : ObjOk(o)}
RejectedCAs == {c \in CAs : Rejected(c)}

(* Unsafe-VRP filter (RejectedResourcesBuilder::extend_from_cert,          *)
(* SnapshotBuilder::process_origin): whole-address-family blocks are not   *)
(* recorded (is_slash_zero). *)
UnsafeRes == UNION {IF HoldsAll(W.cas[c].res) THEN {} ELSE W.cas[c].res : c \in RejectedCAs}
IsUnsafe(o) == o.kind = "roa" /\ \E r \in UnsafeRes : Overlap(r, o.p)

Payload(o) == IF o.kind = "roa" THEN <<"roa", o.p, o.asn>>
              ELSE IF o.kind = "rtr" THEN <<"rtr", o.asn, o.rk>>
              ELSE <<"aspa", o.cust, o.prov>>

ExpectedObjs == {o \in ValidObjs : ~(config.unsafe = "reject" /\ IsUnsafe(o))}
(* ASPAs of the same customer are merged into the union of providers. *)
ExpectedPayload ==
  {Payload(o) : o \in {o \in ExpectedObjs : o.kind # "aspa"}}
  \cup {<<"aspa", c, UNION {o.prov : o \in {o \in ExpectedObjs : o.kind = "aspa" /\ o.cust = c}}>> :
          c \in {o.cust : o \in {o \in ExpectedObjs : o.kind = "aspa"}}}

-----------------------------------------------------------------------------
(* Operational model of Run::process (engine.rs:438-626).  A task is       *)
(* <<"tal", c>> or <<"ca", c>>.  A thread pops a task and processes it to  *)
(* completion; valid child CAs become new tasks (the code processes        *)
(* children of the same repository inline and defers the others to the     *)
(* queue; both are "a later task" here, which over-approximates the        *)
(* possible orders).                                                       *)

Init ==
  /\ shape \in Shapes
  /\ w = Shape(shape)
  /\ config \in Configs
  /\ faults \in FaultSets
  /\ queue = {<<"tal", c>> : c \in {c \in CAs : IsTa(c)}}
  /\ busy = {}
  /\ produced = {}
  /\ rejected = {}
  /\ seenCa = {}

(* Local versions of the checks as the engine performs them, using only   *)
(* what the thread has at hand.                                            *)
LocalCertOk(c) ==
  IF IsTa(c) THEN FaultAt(<<"ta", c>>) = "None"
  ELSE LET p == W.cas[c].parent IN
       /\ FaultAt(<<"cert", c>>) = "None"
       /\ Within(W.cas[c].res, W.cas[p].res)
       /\ Depth(c) <= config.maxdepth
       /\ W.cas[c].key \notin AncestorKeys(c)
LocalPointOk(c) == MftOk(c) /\ CrlOk(c) /\ FilesOk(c)

Take(t) ==
  /\ t \in queue
  /\ Cardinality(busy) < Threads
  /\ queue' = queue \ {t}
  /\ busy' = busy \cup {t}
  /\ UNCHANGED <<shape, w, faults, config, produced, rejected, seenCa>>

(* Finish a task: trust anchor lookup or publication point processing. *)
Work(t) ==
  /\ t \in busy
  /\ busy' = busy \ {t}
  /\ LET c == t[2] IN
     IF t[1] = "tal" /\ ~LocalCertOk(c)
       THEN UNCHANGED <<queue, produced, rejected, seenCa>>     \* no valid trust anchor: nothing
       ELSE
         /\ seenCa' = seenCa \cup {c}
         /\ IF LocalPointOk(c)
              THEN /\ produced' = produced \cup
                        {o \in ObjsOf(c) : FaultAt(<<"obj", c, o.n>>) = "None"
                                           /\ (o.kind = "roa" => CoveredBy(W.cas[c].res, o.p))}
                   /\ queue' = queue \cup {<<"ca", d>> : d \in {d \in Children(c) : LocalCertOk(d)}}
                   /\ UNCHANGED rejected
              ELSE /\ rejected' = rejected \cup {c}
                   /\ UNCHANGED <<queue, produced>>
  /\ UNCHANGED <<shape, w, faults, config>>

Done == queue = {} /\ busy = {}

Next == \/ \E t \in queue : Take(t)
        \/ \E t \in busy : Work(t)
        \/ (Done /\ UNCHANGED vars)

Spec == Init /\ [][Next]_vars /\ WF_vars(Next)

-----------------------------------------------------------------------------
(* Properties *)

(* Invariants that depend on the world only are evaluated in the initial   *)
(* state of each world (the world never changes).                          *)
AtStart == produced = {} /\ rejected = {} /\ seenCa = {} /\ busy = {}

(* C01: only validated payload; C02: nothing valid is dropped.  Checked   *)
(* on the operational result before the snapshot filters.                  *)
C01_OnlyValid   == produced \subseteq ValidObjs
C02_NothingLost == Done => ValidObjs \subseteq produced
OperationalMatchesDeclarative ==
  Done => /\ produced = ValidObjs
          /\ rejected = RejectedCAs
          /\ seenCa = {c \in CAs : CertOk(c)}

(* C02, sibling rule: an object-level fault in one object removes only it. *)
C02_Siblings == AtStart =>
  \A f \in faults :
    (f[1][1] = "obj" /\ f[2] \notin PointLevel /\ Accepted(f[1][2])) =>
       \A o \in ObjsOf(f[1][2]) :
          (o.n # f[1][3] /\ FaultAt(<<"obj", o.ca, o.n>>) = "None"
           /\ (o.kind = "roa" => CoveredBy(W.cas[o.ca].res, o.p))) => o \in ValidObjs

(* C06 *)
C06_StaleReject == AtStart =>
  \A c \in CAs :
    (config.stale = "reject" /\ (FaultAt(<<"mft", c>>) = "Stale" \/ FaultAt(<<"crl", c>>) = "Stale")) =>
       ~Accepted(c)
C06_StaleTolerated == AtStart =>
  \A c \in CAs :
    (config.stale # "reject" /\ CertOk(c) /\ FilesOk(c)
     /\ FaultAt(<<"mft", c>>) \in {"None", "Stale"} /\ FaultAt(<<"crl", c>>) \in {"None", "Stale"}) =>
       Accepted(c)
C06_Premature == AtStart => (\A c \in CAs : FaultAt(<<"mft", c>>) = "Premature" => ~Accepted(c))

RECURSIVE Ancestors(_)
Ancestors(c) == IF IsTa(c) THEN {} ELSE {W.cas[c].parent} \cup Ancestors(W.cas[c].parent)
C06_Descendants == AtStart =>
  \A c \in CAs : ~Accepted(c) => \A o \in ValidObjs : c \notin Ancestors(o.ca) /\ o.ca # c

(* C07: termination and depth/loop exclusion. *)
C07_Terminates == <>Done
C07_DepthAndLoops == AtStart =>
  \A o \in ValidObjs : /\ Depth(o.ca) <= config.maxdepth
                       /\ W.cas[o.ca].key \notin AncestorKeys(o.ca)

(* C08 *)
C08_NoUnsafeUnderReject == AtStart =>
  (config.unsafe = "reject" => \A o \in ExpectedObjs : ~IsUnsafe(o))
C08_NothingRemovedOtherwise == AtStart =>
  (config.unsafe # "reject" => ExpectedObjs = ValidObjs)

(* C41: a fault changes only the payload of CAs in the faulty repository   *)
(* and their descendants (and unsafe VRPs under reject).  Stated against   *)
(* the fault-free world of the same shape and configuration.               *)
RECURSIVE CleanAccepted(_)
CleanAccepted(c) ==
  IF IsTa(c) THEN TRUE
  ELSE /\ CleanAccepted(W.cas[c].parent)
       /\ Within(W.cas[c].res, W.cas[W.cas[c].parent].res)
       /\ Depth(c) <= config.maxdepth
       /\ W.cas[c].key \notin AncestorKeys(c)
CleanValidObjs == {o \in Objs : CleanAccepted(o.ca) /\ (o.kind = "roa" => CoveredBy(W.cas[o.ca].res, o.p))}
SiteRepo(site) == IF site[1] \in {"cert"} THEN W.cas[W.cas[site[2]].parent].repo ELSE W.cas[site[2]].repo
FaultyRepos == {SiteRepo(f[1]) : f \in faults}
RECURSIVE Affected(_)
Affected(c) == W.cas[c].repo \in FaultyRepos \/ (~IsTa(c) /\ Affected(W.cas[c].parent))
C41_Isolation == AtStart =>
  \A o \in Objs : ~Affected(o.ca) => (o \in ValidObjs <=> o \in CleanValidObjs)

=============================================================================
