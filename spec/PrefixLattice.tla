--------------------------- MODULE PrefixLattice ---------------------------
(***************************************************************************)
(* The prefix lattice of RpkiTree.tla as a constant module (RpkiTree has   *)
(* variables and cannot be extended by a second state machine): a prefix   *)
(* is a bit string below one base block; p covers q iff p is an initial    *)
(* segment of q.  The definitions are the ones of RpkiTree.tla, verbatim.  *)
(***************************************************************************)
EXTENDS Naturals, Sequences

Covers(p, q)  == Len(p) <= Len(q) /\ SubSeq(q, 1, Len(p)) = p
Overlap(p, q) == Covers(p, q) \/ Covers(q, p)
CoveredBy(ps, q) == \E p \in ps : Covers(p, q)
=============================================================================
