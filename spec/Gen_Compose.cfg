\* quick export (~7.5 k worlds): rich layout x {48 option combinations x rejected CA (ASPAs at real size),
\* 8 rejected-resource choices x policy x limit, every single prefix filter, filter x rejected, every single
\* prefix assertion plain / hostile, BGPsec filter x assertion x toggle}; one-VRP worlds (11 VRPs per
\* family x 4 rejected choices x 5 filters x assertion x limit x policy); all pairs of occurrences of 11
\* VRPs (same ROA / two ROAs / two TALs); all pairs of real-size ASPAs of one customer over 14 provider sets
SPECIFICATION GSpec
CONSTANTS
  Tier = "gen_quick"
  LimitLen = 1
  MaxProviders = 3
  BlockSize = 5460
  FixedOrder = TRUE
  Variant = "documented"
INVARIANT Emit
CHECK_DEADLOCK FALSE
