\* stricter reading of "the copy a point uses" (see Strict_FetchedCopyKept in Cleanup.tla): violated by the pinned code, TLC must reject
SPECIFICATION Spec
CONSTANTS
  NPoints = 2
  Modules = {"m1", "m2"}
  Transports = {FALSE, TRUE}
  Rrdp = FALSE
  MaxVer = 3
  MaxRuns = 2
  MaxEnv = 1
  MaxExpire = 1
  Kinds = {"update"}
  Corruptions = {FALSE}
  Ticks = {FALSE}
  Variant = "as_code"
INVARIANT Strict_FetchedCopyKept
CHECK_DEADLOCK FALSE
