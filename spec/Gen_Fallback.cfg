\* export: every history of two runs with the documented decision per run
SPECIFICATION Spec
CONSTANTS MaxRuns = 2
  Variant = "as_documented"
INVARIANT Emit
CHECK_DEADLOCK FALSE
