\* decision table export: 96 rows with the documented decision
SPECIFICATION Spec
CONSTANT Variant = "as_documented"
INVARIANT Emit
CHECK_DEADLOCK FALSE
