\* decision table export: 264 rows with the documented decision
SPECIFICATION Spec
CONSTANT Variant = "as_documented"
INVARIANT Emit
CHECK_DEADLOCK FALSE
