\* quick (2/2): one representative option per kind (21 options), every class, every combination of
\* <= 2 settings (file entry or command line option, incl. file + command line for the same option).
SPECIFICATION Spec
CONSTANTS
  Opts <- RepOpts
  MaxSet = 2
  Variant = "intended"
  Fixed = {}
INVARIANTS TypeOK C35_PrintedFileAccepted C35_RoundTrip
CHECK_DEADLOCK FALSE
