------------------------------ MODULE JsonDelta ------------------------------
(***************************************************************************)
(* The two chunked JSON streams behind GET /json-delta:                    *)
(* src/http/delta.rs, DeltaStream (:221-431) and SnapshotStream (:439-515).*)
(*                                                                         *)
(* Both are iterator state machines: every call of next() fills a buffer   *)
(* `vec` until its length exceeds the threshold (64000 in the code, T      *)
(* here) and hands it out as one chunk of the HTTP body.  What is modelled *)
(*   * the input: the item sequence the payload iterator yields            *)
(*     (DeltaArcIter / SnapshotArcIter: all origins, then all router keys, *)
(*     then all ASPAs; in a change set every item carries an action and    *)
(*     announcements and withdrawals are interleaved in item order);       *)
(*   * the buffer as a sequence of tokens with sizes (header H, separator  *)
(*     S between the two lists, footer F, comma, item), sizes scaled down  *)
(*     to small integers;                                                  *)
(*   * the comma logic: append_payload(vec, item, first) writes a comma    *)
(*     before the item unless `first`; DeltaStream keeps `first` in the    *)
(*     struct (survives chunk boundaries, set again by the separator);     *)
(*     SnapshotStream recomputes it per call from `header.is_some()`;      *)
(*   * the two scanning loops of DeltaStream that skip over the actions of *)
(*     the other kind.                                                     *)
(* One TLA+ action = one iteration of the `loop` in next() (the code is    *)
(* sequential; the granularity has no semantic weight).                    *)
(*                                                                         *)
(* Property C18 (design level): the concatenation of all chunks is         *)
(*   H . Join(announced items in order) . S . Join(withdrawn) . F          *)
(* (reset: H . Join(all items) . F) with commas exactly between items, for *)
(* every input within the bound and EVERY threshold position.              *)
(*                                                                         *)
(* Variant = "as_code" is the pinned code (no defect found); the other     *)
(* variants are seeded faults that TLC must reject (teeth of the model).   *)
(***************************************************************************)
EXTENDS Naturals, Sequences, FiniteSets, TLC

CONSTANTS Shapes,     \* per payload type: the admissible action sequences over {"A","W"}
          Modes,      \* subset of {"delta", "reset"}
          SzHdr, SzSep, SzFoot,   \* token sizes (scaled)
          SzO, SzK, SzA,          \* item sizes per payload type (scaled); a comma has size 1
          Variant     \* "as_code" | "fault_first_reset_on_chunk" | "fault_sep_keeps_first"
                      \* | "fault_snapshot_first_per_call" | "fault_ge" | "fault_skip_stops"

None == 0                         \* Option::None for iterator positions (positions are 1-based)
\* iteration order of the payload types (1 origins, 2 router keys, 3 ASPAs): payload/delta.rs:666-688, payload/snapshot.rs:301-323

(* ---- items and tokens (small integers: TLC fingerprints them much faster than records) ---- *)
(* item  = 100 * type (1 origin, 2 router key, 3 ASPA) + 10 * action (1 announce, 2 withdraw) + index within the type *)
Item(n, act, i) == 100 * n + 10 * (IF act = "A" THEN 1 ELSE 2) + i
TypeOf(it) == it \div 100
ActOf(it)  == IF (it \div 10) % 10 = 1 THEN "A" ELSE "W"
(* token = header 1, separator 2, footer 3, comma 4, or an item *)
TokH == 1
TokS == 2
TokF == 3
Comma == 4
ItemTok(it) == it
IsItem(x) == x >= 100

SzTok(x) == CASE x = TokH -> SzHdr [] x = TokS -> SzSep [] x = TokF -> SzFoot
              [] x = Comma -> 1
              [] OTHER -> (CASE TypeOf(x) = 1 -> SzO [] TypeOf(x) = 2 -> SzK [] TypeOf(x) = 3 -> SzA)

RECURSIVE SzSeq(_)
SzSeq(s) == IF s = <<>> THEN 0 ELSE SzTok(Head(s)) + SzSeq(Tail(s))

RECURSIVE Flat(_)
Flat(ss) == IF ss = <<>> THEN <<>> ELSE Head(ss) \o Flat(Tail(ss))

Min(S) == CHOOSE x \in S : \A y \in S : x <= y

(* ---- the input ----------------------------------------------------------*)
(* sh \in [1..3 -> Shapes]: the action sequence of each payload type.       *)
ItemsOf(sh) ==
  LET part(n) == [i \in 1..Len(sh[n]) |-> Item(n, sh[n][i], i)]
  IN part(1) \o part(2) \o part(3)

OnlyA(s) == \A i \in 1..Len(s) : s[i] = "A"

(* ---- the property-level expected document --------------------------------*)
Sel(its, act) == SelectSeq(its, LAMBDA x : ActOf(x) = act)

RECURSIVE Join(_)
Join(s) == IF s = <<>> THEN <<>>
           ELSE IF Len(s) = 1 THEN <<ItemTok(s[1])>>
           ELSE <<ItemTok(s[1]), Comma>> \o Join(Tail(s))

Expected(m, its) ==
  IF m = "delta"
    THEN <<TokH>> \o Join(Sel(its, "A")) \o <<TokS>> \o Join(Sel(its, "W")) \o <<TokF>>
    ELSE <<TokH>> \o Join(its) \o <<TokF>>

VARIABLES mode,    \* "delta" (DeltaStream) | "reset" (SnapshotStream)
          T,       \* the threshold
          items,   \* what the payload iterator yields
          hdr,     \* header: Option<Vec<u8>> is Some
          ann,     \* DeltaStream.announce: next position of the iterator, None = 0
          wd,      \* DeltaStream.withdraw: ditto
          sit,     \* SnapshotStream.iter: ditto
          first,   \* DeltaStream.first / the local `first` of SnapshotStream::next
          vec,     \* the buffer being filled
          vlen,    \* vec.len(): the size counter the threshold test looks at
          want,    \* the exact document for (mode, items); constant, kept as a variable so that TLC computes it once
          out,     \* chunks handed out so far
          pc       \* "poll" (between calls of next()) | "loop" | "done" (next() returned None)

vars == <<mode, T, items, hdr, ann, wd, sit, first, vec, vlen, want, out, pc>>

Init ==
  /\ mode \in Modes
  /\ \E sh \in [1..3 -> Shapes] :
        /\ mode = "reset" => \A n \in 1..3 : OnlyA(sh[n])
        /\ items = ItemsOf(sh)
  \* every threshold position; T >= total size behaves like T = total.  The header alone never
  \* exceeds the threshold in the code (about 200 bytes against 64000): T >= SzHdr.  (SnapshotStream
  \* relies on that: `first = self.header.is_some()` would put a comma before the very first item
  \* if the header had been handed out as a chunk of its own; DeltaStream does not depend on it.)
  /\ want = Expected(mode, items)
  /\ T \in SzHdr..SzSeq(want)
  /\ hdr = TRUE                                 \* ::new(): header rendered into a vec (:255-264, :458-463)
  /\ ann = 1 /\ wd = 1 /\ sit = 1
  /\ first = TRUE
  /\ vec = <<>> /\ vlen = 0 /\ out = <<>>
  /\ pc = "poll"

(* `if vec.len() > 64000` (:372, :495) *)
Over == IF Variant = "fault_ge" THEN vlen >= T ELSE vlen > T

(* append_payload (:298-354): comma unless first, then the item *)
App(v, it, fst) == v \o (IF fst THEN <<>> ELSE <<Comma>>) \o <<ItemTok(it)>>
AppLen(it, fst) == (IF fst THEN 0 ELSE 1) + SzTok(ItemTok(it))

(* `while let Some((payload, action)) = iter.next() { if matches!(action, X) {..} }`: *)
(* position of the next item with action `act` at or after `from`, 0 if the iterator runs dry *)
NextIdx(from, act) ==
  LET S == {j \in from..Len(items) : ActOf(items[j]) = act} IN
  IF Variant = "fault_skip_stops"
    THEN (IF from <= Len(items) /\ ActOf(items[from]) = act THEN from ELSE 0)
    ELSE (IF S = {} THEN 0 ELSE Min(S))

(* ======================= DeltaStream (:362-431) ========================== *)
(* next(): `if self.withdraw.is_none() { return None }`, `let mut vec = self.header.take().unwrap_or_default()` *)
DPoll ==
  /\ mode = "delta" /\ pc = "poll"
  /\ IF wd = None
       THEN pc' = "done" /\ UNCHANGED <<hdr, vec, vlen>>
       ELSE /\ vec' = IF hdr THEN <<TokH>> ELSE <<>>
            /\ vlen' = IF hdr THEN SzHdr ELSE 0
            /\ hdr' = FALSE
            /\ pc' = "loop"
  /\ UNCHANGED <<mode, T, items, ann, wd, sit, first, out, want>>

(* `if vec.len() > 64000 { return Some(vec.into()) }` (:372-374) *)
DEmit ==
  /\ mode = "delta" /\ pc = "loop" /\ Over
  /\ out' = Append(out, vec) /\ vec' = <<>> /\ vlen' = 0 /\ pc' = "poll"
  /\ first' = IF Variant = "fault_first_reset_on_chunk" THEN TRUE ELSE first
  /\ UNCHANGED <<mode, T, items, hdr, ann, wd, sit, want>>

(* next_announce, an announcement is left (:390-397): returns true -> `continue` *)
DAnnItem ==
  /\ mode = "delta" /\ pc = "loop" /\ ~Over /\ ann # None
  /\ NextIdx(ann, "A") # 0
  /\ LET j == NextIdx(ann, "A") IN
       /\ vec' = App(vec, items[j], first)
       /\ vlen' = vlen + AppLen(items[j], first)
       /\ ann' = j + 1
  /\ first' = FALSE
  /\ UNCHANGED <<mode, T, items, hdr, wd, sit, out, pc, want>>

(* next_announce, iterator exhausted (:402-408): separator, first = true, returns true *)
DAnnEnd ==
  /\ mode = "delta" /\ pc = "loop" /\ ~Over /\ ann # None
  /\ NextIdx(ann, "A") = 0
  /\ vec' = Append(vec, TokS)
  /\ vlen' = vlen + SzSep
  /\ ann' = None
  /\ first' = IF Variant = "fault_sep_keeps_first" THEN first ELSE TRUE
  /\ UNCHANGED <<mode, T, items, hdr, wd, sit, out, pc, want>>

(* next_announce returns false (:399-401); next_withdraw finds a withdrawal (:415-422): returns true *)
DWdItem ==
  /\ mode = "delta" /\ pc = "loop" /\ ~Over /\ ann = None /\ wd # None
  /\ NextIdx(wd, "W") # 0
  /\ LET j == NextIdx(wd, "W") IN
       /\ vec' = App(vec, items[j], first)
       /\ vlen' = vlen + AppLen(items[j], first)
       /\ wd' = j + 1
  /\ first' = FALSE
  /\ UNCHANGED <<mode, T, items, hdr, ann, sit, out, pc, want>>

(* next_withdraw, iterator exhausted (:427-429): footer, withdraw = None, returns false -> *)
(* `return Some(vec.into())` (:378-380) whatever the size *)
DWdEnd ==
  /\ mode = "delta" /\ pc = "loop" /\ ~Over /\ ann = None /\ wd # None
  /\ NextIdx(wd, "W") = 0
  /\ out' = Append(out, Append(vec, TokF))
  /\ vec' = <<>> /\ vlen' = 0
  /\ wd' = None
  /\ pc' = "poll"
  /\ UNCHANGED <<mode, T, items, hdr, ann, sit, first, want>>

(* ====================== SnapshotStream (:485-514) ======================== *)
(* `let iter = self.iter.as_mut()?; let mut first = self.header.is_some(); let mut vec = self.header.take()...` *)
SPoll ==
  /\ mode = "reset" /\ pc = "poll"
  /\ IF sit = None
       THEN pc' = "done" /\ UNCHANGED <<hdr, vec, vlen, first>>
       ELSE /\ first' = IF Variant = "fault_snapshot_first_per_call" THEN TRUE ELSE hdr
            /\ vec' = IF hdr THEN <<TokH>> ELSE <<>>
            /\ vlen' = IF hdr THEN SzHdr ELSE 0
            /\ hdr' = FALSE
            /\ pc' = "loop"
  /\ UNCHANGED <<mode, T, items, ann, wd, sit, out, want>>

(* :495-497 *)
SEmit ==
  /\ mode = "reset" /\ pc = "loop" /\ Over
  /\ out' = Append(out, vec) /\ vec' = <<>> /\ vlen' = 0 /\ pc' = "poll"
  /\ UNCHANGED <<mode, T, items, hdr, ann, wd, sit, first, want>>

(* :498-503, :508 *)
SItem ==
  /\ mode = "reset" /\ pc = "loop" /\ ~Over /\ sit # None /\ sit <= Len(items)
  /\ vec' = App(vec, items[sit], first)
  /\ vlen' = vlen + AppLen(items[sit], first)
  /\ sit' = sit + 1
  /\ first' = FALSE
  /\ UNCHANGED <<mode, T, items, hdr, ann, wd, out, pc, want>>

(* :504-506, :511-513: break; iter = None; footer; Some(vec) *)
SEnd ==
  /\ mode = "reset" /\ pc = "loop" /\ ~Over /\ sit # None /\ sit > Len(items)
  /\ out' = Append(out, Append(vec, TokF))
  /\ vec' = <<>> /\ vlen' = 0
  /\ sit' = None
  /\ pc' = "poll"
  /\ UNCHANGED <<mode, T, items, hdr, ann, wd, first, want>>

(* next() has returned None: the body is complete (stuttering, so that a deadlock = a stream that got stuck) *)
Done == pc = "done" /\ UNCHANGED vars

Step == DPoll \/ DEmit \/ DAnnItem \/ DAnnEnd \/ DWdItem \/ DWdEnd
        \/ SPoll \/ SEmit \/ SItem \/ SEnd
Next == Step \/ Done

Spec == Init /\ [][Next]_vars /\ WF_vars(Step)

(* ============================ properties ================================= *)
IsPrefix(s, t) == Len(s) <= Len(t) /\ \A i \in 1..Len(s) : s[i] = t[i]

Want == want

(* What has been written so far is always a prefix of the exact document ... *)
C18_Prefix == IsPrefix(Flat(out) \o vec, Want)
(* ... and once the stream has ended the body is the exact document. *)
C18_Exact == (pc = "done") => (Flat(out) = Want /\ vec = <<>>)
(* The stream ends (no endless stream of empty chunks, no early end): as a temporal property, *)
(* and -- cheaper -- as absence of deadlock (only `Done` stutters) plus a bound on the chunks.   *)
C18_Terminates == <>(pc = "done")
C18_Progress == Len(out) <= Len(want)

(* The chunking discipline as coded (not part of the property statement, checked so that *)
(* the transcription of the threshold test is pinned down): no empty chunk; a chunk is     *)
(* handed out as soon as it exceeds T, i.e. every chunk but the last exceeds T and was     *)
(* not over T before its last write; the last chunk was not over T before the footer.      *)
LastWrite(ch) ==
  LET n == Len(ch) IN
  IF IsItem(ch[n]) /\ n >= 2 /\ ch[n - 1] = Comma THEN SzTok(ch[n]) + 1 ELSE SzTok(ch[n])

(* the size counter is the size of the buffer *)
Counter == vlen = SzSeq(vec)

(* checked for the chunk handed out last; the earlier ones were checked when they were the last *)
Chunking ==
  \A c \in {Len(out)} \ {0} :
    /\ out[c] # <<>>
    /\ IF out[c][Len(out[c])] = TokF
         THEN SzSeq(out[c]) - SzFoot <= T
         ELSE /\ SzSeq(out[c]) > T
              /\ SzSeq(out[c]) - LastWrite(out[c]) <= T

TypeOK ==
  /\ pc \in {"poll", "loop", "done"}
  /\ ann \in 0..(Len(items) + 1) /\ wd \in 0..(Len(items) + 1) /\ sit \in 0..(Len(items) + 1)
  /\ first \in BOOLEAN /\ hdr \in BOOLEAN
=============================================================================
