\* seeded fault mut_next_update: TLC must reject it
SPECIFICATION Spec
CONSTANTS
  NPoints = 2
  Modules = {"m1", "m2"}
  Transports = {FALSE}
  Rrdp = FALSE
  MaxVer = 3
  MaxRuns = 2
  MaxEnv = 1
  MaxExpire = 1
  Kinds = {"update", "initial"}
  Corruptions = {FALSE, TRUE}
  Ticks = {FALSE}
  Variant = "mut_next_update"
INVARIANTS C40_UnexpiredPointKept C40_UsedCopyKept C40_DirtyRemovesNothing C40_FailedRemovesNothing
CHECK_DEADLOCK FALSE
