\* 2 URIs, all histories of 3 runs without cleanup (dirty)
SPECIFICATION GSpec
CONSTANTS
  NUris = 2
  MaxRuns = 3
  Depth = 3
  Downloads <- AllDl
  DirtyChoices <- Dirty
  Variant = "code"
INVARIANT Emit
CHECK_DEADLOCK FALSE
