\* 1 URI, all histories of 4 runs, dirty or not per run
SPECIFICATION GSpec
CONSTANTS
  NUris = 1
  MaxRuns = 4
  Depth = 4
  Downloads <- AllDl
  DirtyChoices <- Bools
  Variant = "code"
INVARIANT Emit
CHECK_DEADLOCK FALSE
