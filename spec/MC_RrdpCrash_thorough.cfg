\* thorough: 2 objects, 2 contents, 4 server versions (new sessions, stale caches), 2 kills, 4 client runs
SPECIFICATION Spec
CONSTANTS
  NObj = 2
  Vals = {1, 2}
  MaxVer = 4
  MaxKills = 2
  MaxRuns = 4
  Caches = TRUE
  Variant = "code"
INVARIANTS TypeOK C24_ReportedMeansEqual NoTornReported MarkedWhileDirty
CHECK_DEADLOCK FALSE
