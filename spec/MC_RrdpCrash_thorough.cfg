\* thorough: 3 objects, 4 versions, 3 kills, 5 runs
SPECIFICATION Spec
CONSTANTS
  NObj = 3
  Vals = {1, 2}
  MaxVer = 4
  MaxKills = 3
  MaxRuns = 5
  Variant = "code"
INVARIANTS TypeOK C24_ReportedMeansEqual NoTornReported MarkedWhileDirty
CHECK_DEADLOCK FALSE
