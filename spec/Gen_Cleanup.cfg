\* all 2-run histories in canonical form with something at stake: 2 points / 2 modules, no rpkiNotify, first run plain,
\* <= 2 environment steps per gap
SPECIFICATION GSpec
CONSTANTS
  NPoints = 2
  Modules = {"m1", "m2"}
  Transports = {FALSE}
  Rrdp = FALSE
  MaxVer = 3
  MaxRuns = 2
  MaxEnv = 2
  MaxExpire = 1
  Kinds = {"update", "initial"}
  Corruptions = {FALSE, TRUE}
  Ticks = {FALSE}
  Variant = "as_code"
  PlainFirst = TRUE
  StakeOnly = TRUE
INVARIANT Emit
CHECK_DEADLOCK FALSE
