\* push_front + truncate(history-size) (expected to FAIL: C14_SerialCarried with history-size 0): modulus 16 (undefined comparison at distance 8), every start serial,
\* history sizes 0..3, 3 data sets, <= 5 runs (incl. failed runs); every client serial
\* and own/foreign session is evaluated in every reachable state.
SPECIFICATION Spec
CONSTANTS
  M = 16
  Keeps = {0, 1, 2, 3, 4}
  Sets = {0, 1, 2}
  MaxRuns = 5
  Bases = {0,1,2,3,4,5,6,7,8,9,10,11,12,13,14,15}
  Variant = "truncate_to_keep"
CONSTRAINT RunBound
INVARIANTS C14_SerialCarried C13 C14_Bounded C14_Consecutive C14_FirstIsZero
PROPERTIES C14_Step C33_FailedRunChangesNothing
CHECK_DEADLOCK FALSE
