----------------------------- MODULE Gen_Delta -----------------------------
(* Behaviour export for the spec -> implementation replay of Delta.        *)
(* Every triple of data sets (a, b, c) is one behaviour: two validation    *)
(* runs installing b and then c on top of a.  TLC prints, per triple, the  *)
(* expected visible action lists of the two single deltas and of their     *)
(* merge (which C12_MergeInternal shows to be the general case: a merged   *)
(* delta is indistinguishable from a constructed one).                     *)
EXTENDS DeltaOps, Json

VARIABLES ga, gb, gc
gvars == <<ga, gb, gc>>

Line(a, b, c) ==
  LET dab == Construct(a, b)
      dbc == Construct(b, c)
      m   == Merge(dab, dbc)
  IN [a |-> a, b |-> b, c |-> c,
      dab |-> Actions(dab), dbc |-> Actions(dbc), dac |-> Actions(m),
      direct |-> Actions(Construct(a, c)),
      ann |-> AnnounceLen(m), wd |-> WithdrawLen(m)]

GInit == ga \in DataSets /\ gb \in DataSets /\ gc \in DataSets
GNext == UNCHANGED gvars
GSpec == GInit /\ [][GNext]_gvars

Emit == PrintT(<<"REPLAY", ToJson(Line(ga, gb, gc))>>)
=============================================================================
