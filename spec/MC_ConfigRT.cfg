\* quick (1/2): all 61 options of the table x every boundary class, from the command line and
\* from a config file, one setting at a time; intended design.
SPECIFICATION Spec
CONSTANTS
  Opts <- AllOpts
  MaxSet = 1
  Variant = "intended"
  Fixed = {}
INVARIANTS TypeOK C35_PrintedFileAccepted C35_RoundTrip
CHECK_DEADLOCK FALSE
