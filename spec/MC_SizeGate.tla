---------------------------- MODULE MC_SizeGate ----------------------------
EXTENDS SizeGate, Json, TLC
(* export of the decision table: one line per row *)
Emit == done => PrintT(<<"REPLAY", ToJson([limit |-> limit, size |-> size, place |-> place, len |-> hasLen,
                                           accepted |-> (limit = None \/ size <= limit)])>>)
=============================================================================
