\* intended design, long delta chains: 2 objects, 4 server versions, 3 client runs, <= 2 faults (publishes only)
SPECIFICATION Spec
CONSTANTS
  Objs = {1, 2}
  MaxVer = 4
  MaxRuns = 3
  MaxFaults = 2
  EtagModes = {TRUE}
  WithExpiry = FALSE
  Variant = "intended"
CONSTRAINT OneSession
INVARIANTS TypeOK VersionsDistinct C25_UpdatedIsSnapshotAtSerial C25_UpdatedIsAnnounced C25_FailureNotUsed C25_NoCopyUnavailable
CHECK_DEADLOCK FALSE
