\* thorough, C22: strings <= 4 classes (2801); the case part is reduced to the empty data set
SPECIFICATION GSpec
CONSTANTS
  MaxItems = 0
  MaxSel = 0
  MaxStr = 4
  Variant = "intended"
INVARIANT Emit
CHECK_DEADLOCK FALSE
