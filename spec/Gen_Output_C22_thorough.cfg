\* thorough, C22: strings <= 5 classes (19 608); the case part is reduced to the empty data set
SPECIFICATION GSpec
CONSTANTS
  MaxItems = 0
  MaxSel = 0
  MaxStr = 5
  Variant = "intended"
INVARIANT Emit
CHECK_DEADLOCK FALSE
