\* exhaustive: 2 listed files (both orders), version 1 = (num 2, thisUpdate 2), version 2 any (num, thisUpdate) in 1..3 x 1..3,
\* each version stale or not, every manifest condition, every per-file availability, both stale policies, 3 runs
SPECIFICATION Spec
CONSTANTS
  Files = {1, 2}
  Nums = {1, 2, 3}
  MaxRuns = 2
  Variant = "intended"
CONSTRAINT RunBound
INVARIANTS C03_OneObjectSet C04_StoreOnlyComplete C04_FailedFetchKeepsStored C05_NoRollback
           C06_StoredStaleRejected C06_StoredStaleTolerated
CHECK_DEADLOCK FALSE
