------------------------------- MODULE Paths -------------------------------
(***************************************************************************)
(* How Routinator maps URIs taken from RPKI data to local file names.      *)
(*                                                                         *)
(*   src/utils/uri.rs          UriExt::unique_path, unique_components      *)
(*   src/store.rs              ta_path :208, rrdp_repository_path :229,    *)
(*                             rsync_repository_path :234, point_path :727,*)
(*                             StoredPoint::open/create :780/:882,         *)
(*                             dump_subdir :275, dump_object :366          *)
(*   src/collector/rsync.rs    WorkingDir::module_path :805, uri_path :812 *)
(*   src/collector/rrdp/base.rs repository_path :266, dump_repository :189 *)
(*   src/utils/dump.rs         DumpRegistry::get_repo_path / make_path     *)
(*   rpki-0.19.3 src/uri.rs    Rsync::from_bytes :78 (check_path :125),    *)
(*                             Https::from_bytes :545, is_u8_uri_ascii :919*)
(*                                                                         *)
(* URIs are records of concrete text pieces, so that the model renders the *)
(* same strings the code sees:                                             *)
(*   [sch, sc, host, hc, port, mod, path]                                  *)
(*   sch   "rsync" | "https" | "none" (no URI, e.g. no rpkiNotify)         *)
(*   sc    scheme spelled in lower / upper case                            *)
(*   host  host name in lower case; hc = "mixed" spells it Upper(host)     *)
(*   port  "" or digits                                                    *)
(*   mod   rsync module name ("" for https)                                *)
(*   path  the text after the module (rsync) / after the first slash       *)
(*         (https), split at "/"; a trailing "" is a trailing slash        *)
(* A local path is a sequence of components (strings) below the directory  *)
(* that contains the cache directory "cache" and the dump directory "dump".*)
(* The SHA-256 based names are an injective uninterpreted function:        *)
(* Hash(s) = "#(" \o s \o ")"; the replayer substitutes the real digest.   *)
(*                                                                         *)
(* State machine: the environment picks a case (Init: a kind and one or    *)
(* two URIs in the roles of that kind), Run lets the code create its       *)
(* files.  Property C30: every created entry stays below cache/ resp.      *)
(* dump/ after resolving "", "." and ".." the way the operating system     *)
(* does (Confined), and entries created for URIs that are not equivalent   *)
(* never clash: same file, or a file where the other needs a directory     *)
(* (Distinct).                                                             *)
(*                                                                         *)
(* Kinds (roles of the two URIs):                                          *)
(*   "mft"    rpkiManifest URIs of two CAs without rpkiNotify              *)
(*   "mftn"   the same, both CAs carry the rpkiNotify URI FixedNotify      *)
(*   "mftr"   the same, and the objects of both CAs are published by the   *)
(*            one RRDP repository FixedNotify (nothing is fetched by rsync)*)
(*   "ta"     rsync URIs of two trust anchor locators                      *)
(*   "tah"    HTTPS URIs of two trust anchor locators                      *)
(*   "notify" rpkiNotify URIs of two CAs (manifests FixedMft(1), (2))      *)
(*   "notify1" the same, both CAs name the same manifest FixedMft(1)       *)
(*                                                                         *)
(* Variant = "as_shipped" is the pinned code: a stored publication point   *)
(* is the file <repo>/rsync/<authority>/<module>/<path> (store.rs:727), so *)
(* the manifest URI rsync://h/m/a needs a FILE where rsync://h/m/a/b.mft   *)
(* needs a DIRECTORY (DESIGN section 6, F17): create_dir_all (:888) resp.  *)
(* File::create (:890) fails and the whole run fails fatally.              *)
(* Variant = "intended" is a design that satisfies the property: the point *)
(* file is named by the digest of the manifest URI, like trust anchors and *)
(* RRDP repositories are, and the dump keeps objects of one publication    *)
(* point below a directory named by the same digest.                       *)
(***************************************************************************)
EXTENDS Naturals, Sequences, FiniteSets, TLC

CONSTANTS Variant,   \* "intended" | "as_shipped" | "dump_drops_host" (seeded: RRDP objects are dumped without their rsync host)
          Kinds,     \* subset of {"mft", "mftn", "mftr", "ta", "tah", "notify", "notify1"}
          Mode,      \* "all": every pair | "near": pairs one edit apart | "single": one URI, whole alphabet
          HostsR,    \* host names (lower case) of rsync URIs
          HostsH,    \* host names of HTTPS URIs (may contain the oddities "" and "..")
          HCases,    \* subset of {"lower", "mixed"}
          SCases,    \* subset of {"lower", "upper"}
          Ports,     \* subset of {"", "873"}
          Mods,      \* module names
          Segs,      \* path segment alphabet of the pairs (accepted segments only make sense)
          SegsAll,   \* path segment alphabet of the singles (whole alphabet)
          MaxSegs,   \* bound on the number of path segments
          NearSpread \* Mode "near": in how many of (scheme case, host, host case, port, module) the first URI
                     \* may differ from the plain one (lower case, "h.test", no port, "m"); 5 = no restriction

VARIABLES kind, u1, u2, phase, ents
vars == <<kind, u1, u2, phase, ents>>

----------------------------------------------------------------------------
(* Text *)

Upper(h) == CASE h = "h.test"  -> "H.Test"
              [] h = "g.test"  -> "G.Test"
              [] h = "h.test." -> "H.Test."
              [] OTHER         -> h

RECURSIVE Join(_)
Join(p) == IF p = <<>> THEN "" ELSE IF Len(p) = 1 THEN p[1] ELSE p[1] \o "/" \o Join(Tail(p))

NoUri == [sch |-> "none", sc |-> "lower", host |-> "", hc |-> "lower", port |-> "", mod |-> "", path |-> <<>>]

PortStr(u)   == IF u.port = "" THEN "" ELSE ":" \o u.port
HostStr(u)   == IF u.hc = "mixed" THEN Upper(u.host) ELSE u.host
Authority(u) == HostStr(u) \o PortStr(u)                 \* Rsync::authority, Https::authority
CanonAuth(u) == u.host \o PortStr(u)                     \* canonical_authority: ASCII letters in lower case
SchemeStr(u) == IF u.sc = "upper" THEN (IF u.sch = "rsync" THEN "RSYNC" ELSE "HTTPS") ELSE u.sch
PathStr(u)   == Join(u.path)                             \* Rsync::path(); Https::path() = "/" \o this

UriStr(u) ==
  IF u.sch = "rsync" THEN SchemeStr(u) \o "://" \o Authority(u) \o "/" \o u.mod \o "/" \o PathStr(u)
  ELSE SchemeStr(u) \o "://" \o Authority(u) \o "/" \o PathStr(u)

(* Equal after the canonicalisation the protocols define: scheme and host  *)
(* are case-insensitive, everything else is byte-exact.                    *)
CanonUri(u) ==
  IF u.sch = "rsync" THEN "rsync://" \o CanonAuth(u) \o "/" \o u.mod \o "/" \o PathStr(u)
  ELSE u.sch \o "://" \o CanonAuth(u) \o "/" \o PathStr(u)
Equivalent(a, b) == CanonUri(a) = CanonUri(b)

----------------------------------------------------------------------------
(* What the rpki URI parsers accept *)

TooLong(t) == t = "x300"                      \* longer than NAME_MAX (255): no file system entry of that name
BadChar(t) == t = "a b"                       \* is_u8_uri_ascii (uri.rs:919): no space, quote, <, >, ?, #, @, \, ...
Dots(t)    == t = "." \/ t = ".."

(* Rsync::from_bytes (uri.rs:78): check_path runs over everything after    *)
(* "rsync://", authority and module included: no "." or ".." item, an      *)
(* empty item only as the very last one; authority and module not empty.   *)
(* Percent sequences are ordinary characters and are never decoded.        *)
AcceptRsync(u) ==
  /\ Authority(u) # "" /\ u.mod # ""              \* ":873" and "..:873" are authorities like any other
  /\ ~Dots(Authority(u)) /\ ~Dots(u.mod)
  /\ ~BadChar(u.mod)
  /\ \A i \in 1..Len(u.path) :
       /\ ~BadChar(u.path[i]) /\ ~Dots(u.path[i])
       /\ u.path[i] = "" => i = Len(u.path)

(* Https::from_bytes (uri.rs:545): the character check and the scheme,     *)
(* nothing else: empty authority, "..", "." and empty segments all pass.   *)
AcceptHttps(u) == \A i \in 1..Len(u.path) : ~BadChar(u.path[i])

Accept(u) == IF u.sch = "rsync" THEN AcceptRsync(u) ELSE AcceptHttps(u)

----------------------------------------------------------------------------
(* Local paths *)

Hash(s) == "#(" \o s \o ")"

(* unique_components (utils/uri.rs:83, :99): what goes into the digest.    *)
UniqueInput(u) ==
  IF u.sch = "rsync" THEN "rsync://" \o CanonAuth(u) \o "/" \o u.mod \o "/" \o PathStr(u)
  ELSE "https://" \o CanonAuth(u) \o "/" \o "/" \o PathStr(u)

IsFileUri(u) == u.path # <<>> /\ u.path[Len(u.path)] # ""
Trim(p) == IF p # <<>> /\ p[Len(p)] = "" THEN SubSeq(p, 1, Len(p) - 1) ELSE p

IsPrefix(a, b) == Len(a) <= Len(b) /\ SubSeq(b, 1, Len(a)) = a
IsProperPrefix(a, b) == Len(a) < Len(b) /\ SubSeq(b, 1, Len(a)) = a

(* Resolution of a component sequence the way the operating system walks   *)
(* it: "" and "." stay, ".." goes up.  esc: the walk left the top          *)
(* directory (the first component, "cache" or "dump") at some point.       *)
(* PathText is what the code hands to the operating system: the format!    *)
(* calls of point_path and dump_object end in a slash when the URI's path  *)
(* is empty.                                                               *)
PathText(u) == IF u.path = <<>> THEN <<"">> ELSE u.path
RECURSIVE NormFrom(_, _, _, _)
NormFrom(p, i, acc, esc) ==
  IF i > Len(p) THEN [p |-> acc, esc |-> esc]
  ELSE LET c == p[i] IN
       IF c = "" \/ c = "." THEN NormFrom(p, i + 1, acc, esc)
       ELSE IF c = ".." THEN
              IF Len(acc) <= 1 THEN NormFrom(p, i + 1, <<>>, TRUE)
              ELSE NormFrom(p, i + 1, SubSeq(acc, 1, Len(acc) - 1), esc)
       ELSE NormFrom(p, i + 1, Append(acc, c), esc)
Norm(p) == NormFrom(p, 1, <<>>, FALSE)

Store == <<"cache", "stored">>

(* store.rs:229 / :234 — the directory of a repository in the store.       *)
RepoDir(n) ==
  IF n.sch = "none" THEN Store \o <<"rsync">>
  ELSE Store \o <<"rrdp", CanonAuth(n), Hash(UniqueInput(n))>>        \* unique_path("rrdp", "")

(* store.rs:727 point_path, the file of a stored publication point.        *)
StorePointPath(m, n) ==
  IF Variant = "as_shipped"
  THEN RepoDir(n) \o <<"rsync", CanonAuth(m), m.mod>> \o PathText(m)
  ELSE RepoDir(n) \o <<"rsync", CanonAuth(m), Hash(UniqueInput(m))>>

(* store.rs:208 ta_path = unique_path("ta/rsync" | "ta/https", ".cer").    *)
TaPath(u) == Store \o <<"ta", u.sch, CanonAuth(u), Hash(UniqueInput(u)) \o ".cer">>

(* collector/rsync.rs:805, :812.  module.0[8..] is "<canonical authority>/ *)
(* <module>/"; what lies below is the mirror rsync makes of the remote tree.*)
RsyncModulePath(u) == <<"cache", "rsync", CanonAuth(u), u.mod>>
RsyncFilePath(u)   == RsyncModulePath(u) \o u.path

(* collector/rrdp/base.rs:266: directory = canonical authority, file name  *)
(* = digest of the URI as it was written (not canonicalised) + ".bin".     *)
RrdpArchivePath(n) == <<"cache", "rrdp", CanonAuth(n), Hash(UriStr(n)) \o ".bin">>

(* Dumps (Engine::dump).  DumpRegistry (utils/dump.rs) names the directory *)
(* of an RRDP repository after its canonical authority (a second one with  *)
(* the same authority gets "-1" appended: `slot`); the rsync repository is *)
(* "rsync".                                                                *)
DumpRepoName(n, slot) ==
  IF n.sch = "none" THEN "rsync"
  ELSE IF slot = 0 THEN CanonAuth(n) ELSE CanonAuth(n) \o "-1"
DumpObjectPath(m, n, slot) ==                                           \* store.rs:366
  IF Variant = "as_shipped"
  THEN <<"dump", "store", DumpRepoName(n, slot), CanonAuth(m), m.mod>> \o PathText(m)
  ELSE <<"dump", "store", DumpRepoName(n, slot), CanonAuth(m), Hash(UniqueInput(m)), "manifest">>
DumpTaPath(u)        == <<"dump", "ta", u.sch, CanonAuth(u), Hash(UniqueInput(u)) \o ".cer">>   \* store.rs:275
DumpRsyncFilePath(u) == <<"dump", "rsync", CanonAuth(u), u.mod>> \o u.path                      \* rsync.rs:137
(* an object of the RRDP repository n: rrdp/base.rs:189-262 (dump_repository): below the repository's directory *)
(* the rsync URI of the object, host included (two rsync hosts may publish through one RRDP repository): the     *)
(* canonical module "rsync://host/module/" is joined as a relative path, which makes "rsync:" a directory         *)
DumpRrdpFilePath(u, n) ==
  IF Variant = "dump_drops_host" THEN <<"dump", "rrdp", DumpRepoName(n, 0), "rsync", u.mod>> \o u.path
  ELSE <<"dump", "rrdp", DumpRepoName(n, 0), "rsync", "rsync:", CanonAuth(u), u.mod>> \o u.path

----------------------------------------------------------------------------
(* The entries created for the URI(s) of a case.                           *)
(* An entry: [p: path, n, esc, t: "file" | "dir", w: "run" | "dump" |       *)
(* "dump2" (dump, under the second name the registry may give)].           *)

(* n, esc: the resolved path (computed once, when the entry is created).  *)
E(p, t, w) == LET r == Norm(p) IN [p |-> p, n |-> r.p, esc |-> r.esc, t |-> t, w |-> w]

R(host, mod, path) == [sch |-> "rsync", sc |-> "lower", host |-> host, hc |-> "lower", port |-> "",
                       mod |-> mod, path |-> path]
FixedNotify == [sch |-> "https", sc |-> "lower", host |-> "r.test", hc |-> "lower", port |-> "",
                mod |-> "", path |-> <<"n", "notification.xml">>]
FixedMft(i) == IF i = 1 THEN R("o.test", "m", <<"c1", "c1.mft">>) ELSE R("o.test", "m", <<"c2", "c2.mft">>)

(* The remote rsync tree is a file system itself: of two manifests of one  *)
(* module where one path is a prefix of the other only the first can be    *)
(* published (and then copied, validated, dumped).                         *)
SameModule(a, b) == CanonAuth(a) = CanonAuth(b) /\ a.mod = b.mod
TreeClash(a, b) ==
  /\ SameModule(a, b)
  /\ \/ IsProperPrefix(Trim(a.path), Trim(b.path)) \/ IsProperPrefix(Trim(b.path), Trim(a.path))
Published(i) ==
  LET u == IF i = 1 THEN u1 ELSE u2 IN
  /\ u.sch = "rsync" /\ IsFileUri(u)
  /\ \A j \in 1..Len(u.path) : ~TooLong(u.path[j])
  /\ i = 2 => ~(u1.sch = "rsync" /\ IsFileUri(u1) /\ TreeClash(u1, u2))

(* StoredPoint::open (store.rs:780) creates the file of the point before   *)
(* anything is fetched, so the entry exists for every CA that is reached.  *)
EntriesMft(u, i, n) ==
  {E(StorePointPath(u, n), "file", "run"), E(RsyncModulePath(u), "dir", "run")}
  \cup (IF Published(i)
        THEN {E(RsyncFilePath(u), "file", "run"), E(DumpRsyncFilePath(u), "file", "dump"),
              E(DumpObjectPath(u, n, 0), "file", "dump")}
        ELSE {})

(* kind "mftr": the point file as for "mftn"; the objects come out of the archive of FixedNotify (shared by both  *)
(* CAs, hence no entry of either) and are dumped from there.                                                      *)
EntriesMftR(u, i) ==
  {E(StorePointPath(u, FixedNotify), "file", "run")}
  \cup (IF Published(i)
        THEN {E(DumpRrdpFilePath(u, FixedNotify), "file", "dump"), E(DumpObjectPath(u, FixedNotify, 0), "file", "dump")}
        ELSE {})

(* The module directory exists once rsync copied something into it.  The   *)
(* dump copies the directories stored/ta/rsync and stored/ta/https         *)
(* (store.rs:275): a certificate whose authority ".." moved it out of      *)
(* there is not dumped.                                                    *)
InTaDir(u) == CanonAuth(u) # ".."
EntriesTa(u, i) ==
  IF u.sch = "rsync"
  THEN IF Published(i)
       THEN {E(RsyncModulePath(u), "dir", "run"), E(TaPath(u), "file", "run"), E(RsyncFilePath(u), "file", "run"),
             E(DumpTaPath(u), "file", "dump"), E(DumpRsyncFilePath(u), "file", "dump")}
       ELSE {}
  ELSE {E(TaPath(u), "file", "run")} \cup (IF InTaDir(u) THEN {E(DumpTaPath(u), "file", "dump")} ELSE {})

(* Two RRDP repositories with the same authority: the dump registry names  *)
(* the one it meets first after the authority, the other gets "-1"         *)
(* appended; which is first is the directory order.  Either way the names  *)
(* differ: the model gives the plain name to the first URI ("dump") and    *)
(* lists the other assignment as "dump2" (never part of a clash).          *)
(* mi: which fixed manifest the CA names (kind notify1: both the same).    *)
EntriesNotify(n, i, other, mi) ==
  LET same == other.sch # "none" /\ CanonAuth(other) = CanonAuth(n) /\ ~Equivalent(other, n)
      main == IF same /\ i = 2 THEN 1 ELSE 0 IN
  {E(RepoDir(n), "dir", "run"), E(StorePointPath(FixedMft(mi), n), "file", "run")}
  \cup (IF CanonAuth(n) \in {"", "."} THEN {}  \* an archive directly in cache/rrdp is a stray file for the cleanup
        ELSE {E(RrdpArchivePath(n), "file", "run")})               \* (rrdp/base.rs:493): gone after the run
  \cup (IF CanonAuth(n) = ".." THEN {}      \* the dump walks stored/rrdp (store.rs:268): this one is not below it
        ELSE {E(DumpObjectPath(FixedMft(mi), n, main), "file", "dump")}
             \cup (IF same THEN {E(DumpObjectPath(FixedMft(mi), n, 1 - main), "file", "dump2")} ELSE {}))

Entries(k, u, i, other) ==
  IF u.sch = "none" THEN {}
  ELSE CASE k = "mft"    -> EntriesMft(u, i, NoUri)
         [] k = "mftn"   -> EntriesMft(u, i, FixedNotify)
         [] k = "mftr"   -> EntriesMftR(u, i)
         [] k = "ta"     -> EntriesTa(u, i)
         [] k = "tah"    -> EntriesTa(u, i)
         [] k = "notify" -> EntriesNotify(u, i, other, i)
         [] k = "notify1" -> EntriesNotify(u, i, other, 1)

----------------------------------------------------------------------------
(* Universe *)

SeqsUpTo(S, n) == UNION {[1..k -> S] : k \in 0..n}
PathsOver(S) == {p \in SeqsUpTo(S, MaxSegs) : p # <<"">>}

HC(h) == IF Upper(h) = h THEN {"lower"} ELSE HCases
RsyncUris(S) == UNION {[sch : {"rsync"}, sc : SCases, host : {h}, hc : HC(h), port : Ports, mod : Mods,
                        path : PathsOver(S)] : h \in HostsR}
HttpsUris(S) == UNION {[sch : {"https"}, sc : SCases, host : {h}, hc : HC(h), port : Ports, mod : {""},
                        path : PathsOver(S)] : h \in HostsH}
UrisOf(k, S) == IF k \in {"tah", "notify", "notify1"} THEN HttpsUris(S) ELSE RsyncUris(S)

(* URIs one edit away from u: the pairs on which a path builder that drops *)
(* or folds one part of the URI shows, plus all extensions of the path.    *)
Subst(p, i, t) == [p EXCEPT ![i] = t]
Near(k, u) ==
  LET paths == {Subst(u.path, i, t) : i \in 1..Len(u.path), t \in Segs}
               \cup {Append(Trim(u.path), t) : t \in Segs}
               \cup {Append(Append(Trim(u.path), t), s) : t \in Segs \ {""}, s \in Segs}
               \cup {Trim(u.path)}
  IN ( {[u EXCEPT !.hc = c] : c \in HC(u.host)}
       \cup {[u EXCEPT !.sc = c] : c \in SCases}
       \cup {[u EXCEPT !.port = c] : c \in Ports}
       \cup {[u EXCEPT !.host = h, !.hc = IF Upper(h) = h THEN "lower" ELSE u.hc] :
                 h \in IF u.sch = "rsync" THEN HostsR ELSE HostsH}
       \cup {[u EXCEPT !.mod = m] : m \in IF u.sch = "rsync" THEN Mods ELSE {""}}
       \cup {[u EXCEPT !.path = p] : p \in {q \in paths : Len(q) <= MaxSegs /\ q # <<"">>}} )
     \ {u}

B2N(b) == IF b THEN 1 ELSE 0
Spread(u) == B2N(u.sc # "lower") + B2N(u.host # "h.test") + B2N(u.hc # "lower") + B2N(u.port # "")
             + B2N(u.mod \notin {"m", ""})

----------------------------------------------------------------------------
(* State machine *)

Init ==
  /\ kind \in Kinds
  /\ phase = "picked"
  /\ ents = <<{}, {}>>
  /\ CASE Mode = "all" ->
            /\ u1 \in {u \in UrisOf(kind, Segs) : Accept(u)}
            /\ u2 \in {u \in UrisOf(kind, Segs) : Accept(u)}
       [] Mode = "near" ->
            /\ u1 \in {u \in UrisOf(kind, Segs) : Accept(u) /\ Spread(u) <= NearSpread}
            /\ u2 \in {u \in Near(kind, u1) : Accept(u)}
       [] Mode = "single" ->
            /\ u1 \in UrisOf(kind, SegsAll)
            /\ u2 = NoUri

(* A validation run followed by a dump: only accepted URIs get anywhere.   *)
Run ==
  /\ phase = "picked"
  /\ phase' = "done"
  /\ ents' = <<IF Accept(u1) THEN Entries(kind, u1, 1, u2) ELSE {},
               IF u2.sch # "none" /\ Accept(u2) THEN Entries(kind, u2, 2, u1) ELSE {}>>
  /\ UNCHANGED <<kind, u1, u2>>

Next == Run
Spec == Init /\ [][Next]_vars

----------------------------------------------------------------------------
(* Properties *)

TypeOK ==
  /\ kind \in Kinds
  /\ phase \in {"picked", "done"}
  /\ \A i \in 1..2 : \A e \in ents[i] : e.t \in {"file", "dir"} /\ e.w \in {"run", "dump", "dump2"} /\ Len(e.p) >= 2

Top(e) == e.p[1]

(* Every entry resolves to a place below the directory it starts in.       *)
C30_Confined ==
  \A i \in 1..2 : \A e \in ents[i] :
    ~e.esc /\ e.n # <<>> /\ e.n[1] = Top(e) /\ Top(e) \in {"cache", "dump"}

(* Two entries clash: the same file, a file where the other is a           *)
(* directory, or a file above the other entry.                             *)
Clash(a, b) ==
  LET x == a.n
      y == b.n IN
  /\ a.w # "dump2" /\ b.w # "dump2"
  /\ \/ x = y /\ (a.t = "file" \/ b.t = "file")
     \/ IsProperPrefix(x, y) /\ a.t = "file"
     \/ IsProperPrefix(y, x) /\ b.t = "file"

ClashingEntries == {<<a, b>> \in ents[1] \X ents[2] : Clash(a, b)}

C30_Distinct ==
  (phase = "done" /\ u2.sch # "none" /\ ~Equivalent(u1, u2)) => ClashingEntries = {}

(* A file entry must name a file: the path the code hands to File::create  *)
(* must not end in a slash, "." or "..", nor be a directory the code makes *)
(* for the same URI, and no component may exceed NAME_MAX.  (Not part of   *)
(* C30's statement; the pinned code fails it for manifest URIs that are    *)
(* directory URIs or have an over-long segment: the run fails fatally.)    *)
Creatable(e) == /\ e.t = "file" => LET l == e.p[Len(e.p)] IN l # "" /\ ~Dots(l)
                /\ \A j \in 1..Len(e.p) : ~TooLong(e.p[j])
Storable ==
  \A i \in 1..2 :
    /\ \A e \in ents[i] : Creatable(e)
    /\ \A a, b \in ents[i] : a # b => ~Clash(a, b)

(* The equivalence the code implements is never coarser than Equivalent    *)
(* (shared entries of equivalent URIs are fine, but not required).         *)
=============================================================================
