SPECIFICATION GSpec
CONSTANTS
  Files = {1, 2}
  Nums = {1, 2, 3}
  MaxRuns = 3
  Variant = "intended"
  Depth = 2
CONSTRAINT RunBound
INVARIANT Emit
CHECK_DEADLOCK FALSE
