---- MODULE MC_TalSet_TTrace_1790092451 ----
EXTENDS Sequences, TLCExt, Toolbox, MC_TalSet, Naturals, TLC

_expression ==
    LET MC_TalSet_TEExpression == INSTANCE MC_TalSet_TEExpression
    IN MC_TalSet_TEExpression!expression
----

_trace ==
    LET MC_TalSet_TETrace == INSTANCE MC_TalSet_TETrace
    IN MC_TalSet_TETrace!trace
----

_inv ==
    ~(
        TLCGet("level") = Len(_TETrace)
        /\
        result = ([ok |-> TRUE, names |-> {"afrinic", "apnic", "arin", "lacnic", "ripe"}, twice |-> {}])
        /\
        noRir = (FALSE)
        /\
        dir = ("unset")
        /\
        done = (TRUE)
        /\
        mention = ({"no-such-tal"})
    )
----

_init ==
    /\ noRir = _TETrace[1].noRir
    /\ result = _TETrace[1].result
    /\ done = _TETrace[1].done
    /\ mention = _TETrace[1].mention
    /\ dir = _TETrace[1].dir
----

_next ==
    /\ \E i,j \in DOMAIN _TETrace:
        /\ \/ /\ j = i + 1
              /\ i = TLCGet("level")
        /\ noRir  = _TETrace[i].noRir
        /\ noRir' = _TETrace[j].noRir
        /\ result  = _TETrace[i].result
        /\ result' = _TETrace[j].result
        /\ done  = _TETrace[i].done
        /\ done' = _TETrace[j].done
        /\ mention  = _TETrace[i].mention
        /\ mention' = _TETrace[j].mention
        /\ dir  = _TETrace[i].dir
        /\ dir' = _TETrace[j].dir

\* Uncomment the ASSUME below to write the states of the error trace
\* to the given file in Json format. Note that you can pass any tuple
\* to `JsonSerialize`. For example, a sub-sequence of _TETrace.
    \* ASSUME
    \*     LET J == INSTANCE Json
    \*         IN J!JsonSerialize("MC_TalSet_TTrace_1790092451.json", _TETrace)

=============================================================================

 Note that you can extract this module `MC_TalSet_TEExpression`
  to a dedicated file to reuse `expression` (the module in the 
  dedicated `MC_TalSet_TEExpression.tla` file takes precedence 
  over the module `MC_TalSet_TEExpression` below).

---- MODULE MC_TalSet_TEExpression ----
EXTENDS Sequences, TLCExt, Toolbox, MC_TalSet, Naturals, TLC

expression == 
    [
        \* To hide variables of the `MC_TalSet` spec from the error trace,
        \* remove the variables below.  The trace will be written in the order
        \* of the fields of this record.
        noRir |-> noRir
        ,result |-> result
        ,done |-> done
        ,mention |-> mention
        ,dir |-> dir
        
        \* Put additional constant-, state-, and action-level expressions here:
        \* ,_stateNumber |-> _TEPosition
        \* ,_noRirUnchanged |-> noRir = noRir'
        
        \* Format the `noRir` variable as Json value.
        \* ,_noRirJson |->
        \*     LET J == INSTANCE Json
        \*     IN J!ToJson(noRir)
        
        \* Lastly, you may build expressions over arbitrary sets of states by
        \* leveraging the _TETrace operator.  For example, this is how to
        \* count the number of times a spec variable changed up to the current
        \* state in the trace.
        \* ,_noRirModCount |->
        \*     LET F[s \in DOMAIN _TETrace] ==
        \*         IF s = 1 THEN 0
        \*         ELSE IF _TETrace[s].noRir # _TETrace[s-1].noRir
        \*             THEN 1 + F[s-1] ELSE F[s-1]
        \*     IN F[_TEPosition - 1]
    ]

=============================================================================



Parsing and semantic processing can take forever if the trace below is long.
 In this case, it is advised to uncomment the module below to deserialize the
 trace from a generated binary file.

\*
\*---- MODULE MC_TalSet_TETrace ----
\*EXTENDS IOUtils, MC_TalSet, TLC
\*
\*trace == IODeserialize("MC_TalSet_TTrace_1790092451.bin", TRUE)
\*
\*=============================================================================
\*

---- MODULE MC_TalSet_TETrace ----
EXTENDS MC_TalSet, TLC

trace == 
    <<
    ([result |-> [ok |-> FALSE, names |-> {}, twice |-> {}],noRir |-> FALSE,dir |-> "unset",done |-> FALSE,mention |-> {"no-such-tal"}]),
    ([result |-> [ok |-> TRUE, names |-> {"afrinic", "apnic", "arin", "lacnic", "ripe"}, twice |-> {}],noRir |-> FALSE,dir |-> "unset",done |-> TRUE,mention |-> {"no-such-tal"}])
    >>
----


=============================================================================

---- CONFIG MC_TalSet_TTrace_1790092451 ----
CONSTANTS
    Production = { "afrinic" , "apnic" , "arin" , "lacnic" , "ripe" }
    OtherBundled = { "nlnetlabs-testbed" }
    Unknown = "no-such-tal"
    Variant = "unknown_ignored"

INVARIANT
    _inv

CHECK_DEADLOCK
    \* CHECK_DEADLOCK off because of PROPERTY or INVARIANT above.
    FALSE

INIT
    _init

NEXT
    _next

CONSTANT
    _TETrace <- _trace

ALIAS
    _expression
=============================================================================
\* Generated on Tue Sep 22 15:54:17 UTC 2026