\* the full table: 27 host classes x {caRepository, rpkiNotify} x allow-dubious-hosts on/off; intended predicate (case-insensitive localhost)
SPECIFICATION HSpec
CONSTANTS
  Threads = {"T1"}
  Keys = {"k1"}
  MaxCalls = 1
  Order = "insert_then_remove"
  Check2Removes = FALSE
  HostVariant = "intended"
INVARIANTS C31_NoDubiousFetch TableOK
CHECK_DEADLOCK FALSE
