\* as shipped (expected to FAIL): limits disabled (0), small (10), default (20); sizes just below, at and above each limit and huge (40);
\* trust anchor request with and without Content-Length, object in snapshot, object in delta
SPECIFICATION Spec
CONSTANTS
  Limits = {0, 10, 20}
  Sizes = {9, 10, 11, 19, 20, 21, 40}
  Variant = "as_shipped"
INVARIANT C38_LimitExact
CHECK_DEADLOCK FALSE
