\* seeded fault, TLC must reject
SPECIFICATION Spec
CONSTANTS
  NObj = 2
  Vals = {1, 2}
  MaxVer = 3
  MaxKills = 2
  MaxRuns = 4
  Caches = TRUE
  Variant = "snapshot_in_place"
INVARIANTS TypeOK C24_ReportedMeansEqual NoTornReported MarkedWhileDirty
CHECK_DEADLOCK FALSE
