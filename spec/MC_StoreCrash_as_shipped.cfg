\* exhaustive: 5 scenarios, kill after every file operation
SPECIFICATION Spec
CONSTANTS Variant = "as_shipped"
INVARIANTS C23_PointOldOrNew C23_OldNotLostBeforeNew C23_CommandsKeepWorking C23_TmpNeverVisible C23_TaNeverTruncated
CHECK_DEADLOCK FALSE
