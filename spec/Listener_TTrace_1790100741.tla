---- MODULE Listener_TTrace_1790100741 ----
EXTENDS Sequences, TLCExt, Listener, Toolbox, Naturals, TLC

_expression ==
    LET Listener_TEExpression == INSTANCE Listener_TEExpression
    IN Listener_TEExpression!expression
----

_trace ==
    LET Listener_TETrace == INSTANCE Listener_TETrace
    IN Listener_TETrace!trace
----

_inv ==
    ~(
        TLCGet("level") = Len(_TETrace)
        /\
        ret = (<<2, 2, 2>>)
        /\
        owner = (0)
        /\
        errs = (0)
        /\
        cnt = (<<0, 1, 0, 0, 0, 0, 0>>)
        /\
        drained = (0)
        /\
        global = (1)
        /\
        list = (<<[m |-> 1, a |-> 0], [m |-> 2, a |-> 1]>>)
        /\
        n = (1)
        /\
        arrived = (0)
        /\
        timer = ("none")
        /\
        nextId = (3)
        /\
        backlog = (<<>>)
        /\
        pc = (<<"closed", "closed", "closed">>)
        /\
        task = ("parked")
        /\
        waker = (TRUE)
        /\
        setup = (<<TRUE>>)
        /\
        addr = (<<1, 1, 1>>)
        /\
        outcome = (<<"none">>)
        /\
        snap = (<<<<[m |-> 1, a |-> 1]>>, <<[m |-> 2, a |-> 2]>>, <<[m |-> 2, a |-> 2]>>>>)
    )
----

_init ==
    /\ backlog = _TETrace[1].backlog
    /\ outcome = _TETrace[1].outcome
    /\ snap = _TETrace[1].snap
    /\ addr = _TETrace[1].addr
    /\ n = _TETrace[1].n
    /\ pc = _TETrace[1].pc
    /\ nextId = _TETrace[1].nextId
    /\ setup = _TETrace[1].setup
    /\ waker = _TETrace[1].waker
    /\ ret = _TETrace[1].ret
    /\ cnt = _TETrace[1].cnt
    /\ list = _TETrace[1].list
    /\ errs = _TETrace[1].errs
    /\ arrived = _TETrace[1].arrived
    /\ task = _TETrace[1].task
    /\ drained = _TETrace[1].drained
    /\ global = _TETrace[1].global
    /\ timer = _TETrace[1].timer
    /\ owner = _TETrace[1].owner
----

_next ==
    /\ \E i,j \in DOMAIN _TETrace:
        /\ \/ /\ j = i + 1
              /\ i = TLCGet("level")
        /\ backlog  = _TETrace[i].backlog
        /\ backlog' = _TETrace[j].backlog
        /\ outcome  = _TETrace[i].outcome
        /\ outcome' = _TETrace[j].outcome
        /\ snap  = _TETrace[i].snap
        /\ snap' = _TETrace[j].snap
        /\ addr  = _TETrace[i].addr
        /\ addr' = _TETrace[j].addr
        /\ n  = _TETrace[i].n
        /\ n' = _TETrace[j].n
        /\ pc  = _TETrace[i].pc
        /\ pc' = _TETrace[j].pc
        /\ nextId  = _TETrace[i].nextId
        /\ nextId' = _TETrace[j].nextId
        /\ setup  = _TETrace[i].setup
        /\ setup' = _TETrace[j].setup
        /\ waker  = _TETrace[i].waker
        /\ waker' = _TETrace[j].waker
        /\ ret  = _TETrace[i].ret
        /\ ret' = _TETrace[j].ret
        /\ cnt  = _TETrace[i].cnt
        /\ cnt' = _TETrace[j].cnt
        /\ list  = _TETrace[i].list
        /\ list' = _TETrace[j].list
        /\ errs  = _TETrace[i].errs
        /\ errs' = _TETrace[j].errs
        /\ arrived  = _TETrace[i].arrived
        /\ arrived' = _TETrace[j].arrived
        /\ task  = _TETrace[i].task
        /\ task' = _TETrace[j].task
        /\ drained  = _TETrace[i].drained
        /\ drained' = _TETrace[j].drained
        /\ global  = _TETrace[i].global
        /\ global' = _TETrace[j].global
        /\ timer  = _TETrace[i].timer
        /\ timer' = _TETrace[j].timer
        /\ owner  = _TETrace[i].owner
        /\ owner' = _TETrace[j].owner

\* Uncomment the ASSUME below to write the states of the error trace
\* to the given file in Json format. Note that you can pass any tuple
\* to `JsonSerialize`. For example, a sub-sequence of _TETrace.
    \* ASSUME
    \*     LET J == INSTANCE Json
    \*         IN J!JsonSerialize("Listener_TTrace_1790100741.json", _TETrace)

=============================================================================

 Note that you can extract this module `Listener_TEExpression`
  to a dedicated file to reuse `expression` (the module in the 
  dedicated `Listener_TEExpression.tla` file takes precedence 
  over the module `Listener_TEExpression` below).

---- MODULE Listener_TEExpression ----
EXTENDS Sequences, TLCExt, Listener, Toolbox, Naturals, TLC

expression == 
    [
        \* To hide variables of the `Listener` spec from the error trace,
        \* remove the variables below.  The trace will be written in the order
        \* of the fields of this record.
        backlog |-> backlog
        ,outcome |-> outcome
        ,snap |-> snap
        ,addr |-> addr
        ,n |-> n
        ,pc |-> pc
        ,nextId |-> nextId
        ,setup |-> setup
        ,waker |-> waker
        ,ret |-> ret
        ,cnt |-> cnt
        ,list |-> list
        ,errs |-> errs
        ,arrived |-> arrived
        ,task |-> task
        ,drained |-> drained
        ,global |-> global
        ,timer |-> timer
        ,owner |-> owner
        
        \* Put additional constant-, state-, and action-level expressions here:
        \* ,_stateNumber |-> _TEPosition
        \* ,_backlogUnchanged |-> backlog = backlog'
        
        \* Format the `backlog` variable as Json value.
        \* ,_backlogJson |->
        \*     LET J == INSTANCE Json
        \*     IN J!ToJson(backlog)
        
        \* Lastly, you may build expressions over arbitrary sets of states by
        \* leveraging the _TETrace operator.  For example, this is how to
        \* count the number of times a spec variable changed up to the current
        \* state in the trace.
        \* ,_backlogModCount |->
        \*     LET F[s \in DOMAIN _TETrace] ==
        \*         IF s = 1 THEN 0
        \*         ELSE IF _TETrace[s].backlog # _TETrace[s-1].backlog
        \*             THEN 1 + F[s-1] ELSE F[s-1]
        \*     IN F[_TEPosition - 1]
    ]

=============================================================================



Parsing and semantic processing can take forever if the trace below is long.
 In this case, it is advised to uncomment the module below to deserialize the
 trace from a generated binary file.

\*
\*---- MODULE Listener_TETrace ----
\*EXTENDS IOUtils, Listener, TLC
\*
\*trace == IODeserialize("Listener_TTrace_1790100741.bin", TRUE)
\*
\*=============================================================================
\*

---- MODULE Listener_TETrace ----
EXTENDS Listener, TLC

trace == 
    <<
    ([ret |-> <<0, 0, 0>>,owner |-> 0,errs |-> 0,cnt |-> <<0, 0, 0, 0, 0, 0, 0>>,drained |-> 0,global |-> 0,list |-> <<[m |-> 1, a |-> 0]>>,n |-> 1,arrived |-> 0,timer |-> "none",nextId |-> 2,backlog |-> <<>>,pc |-> <<"start", "start", "start">>,task |-> "parked",waker |-> TRUE,setup |-> <<TRUE>>,addr |-> <<1, 1, 1>>,outcome |-> <<"none">>,snap |-> <<<<>>, <<>>, <<>>>>]),
    ([ret |-> <<0, 0, 0>>,owner |-> 0,errs |-> 0,cnt |-> <<0, 0, 0, 0, 0, 0, 0>>,drained |-> 0,global |-> 0,list |-> <<[m |-> 1, a |-> 0]>>,n |-> 1,arrived |-> 0,timer |-> "none",nextId |-> 2,backlog |-> <<>>,pc |-> <<"loaded", "start", "start">>,task |-> "parked",waker |-> TRUE,setup |-> <<TRUE>>,addr |-> <<1, 1, 1>>,outcome |-> <<"none">>,snap |-> <<<<[m |-> 1, a |-> 0]>>, <<>>, <<>>>>]),
    ([ret |-> <<0, 0, 0>>,owner |-> 1,errs |-> 0,cnt |-> <<0, 0, 0, 0, 0, 0, 0>>,drained |-> 0,global |-> 0,list |-> <<[m |-> 1, a |-> 0]>>,n |-> 1,arrived |-> 0,timer |-> "none",nextId |-> 2,backlog |-> <<>>,pc |-> <<"locked", "start", "start">>,task |-> "parked",waker |-> TRUE,setup |-> <<TRUE>>,addr |-> <<1, 1, 1>>,outcome |-> <<"none">>,snap |-> <<<<[m |-> 1, a |-> 0]>>, <<>>, <<>>>>]),
    ([ret |-> <<0, 0, 0>>,owner |-> 1,errs |-> 0,cnt |-> <<0, 0, 0, 0, 0, 0, 0>>,drained |-> 0,global |-> 0,list |-> <<[m |-> 1, a |-> 0]>>,n |-> 1,arrived |-> 0,timer |-> "none",nextId |-> 2,backlog |-> <<>>,pc |-> <<"insert", "start", "start">>,task |-> "parked",waker |-> TRUE,setup |-> <<TRUE>>,addr |-> <<1, 1, 1>>,outcome |-> <<"none">>,snap |-> <<<<[m |-> 1, a |-> 0]>>, <<>>, <<>>>>]),
    ([ret |-> <<2, 0, 0>>,owner |-> 0,errs |-> 0,cnt |-> <<0, 0, 0, 0, 0, 0, 0>>,drained |-> 0,global |-> 0,list |-> <<[m |-> 1, a |-> 0], [m |-> 2, a |-> 1]>>,n |-> 1,arrived |-> 0,timer |-> "none",nextId |-> 3,backlog |-> <<>>,pc |-> <<"got", "start", "start">>,task |-> "parked",waker |-> TRUE,setup |-> <<TRUE>>,addr |-> <<1, 1, 1>>,outcome |-> <<"none">>,snap |-> <<<<[m |-> 1, a |-> 0]>>, <<>>, <<>>>>]),
    ([ret |-> <<2, 0, 0>>,owner |-> 0,errs |-> 0,cnt |-> <<0, 1, 0, 0, 0, 0, 0>>,drained |-> 0,global |-> 1,list |-> <<[m |-> 1, a |-> 0], [m |-> 2, a |-> 1]>>,n |-> 1,arrived |-> 0,timer |-> "none",nextId |-> 3,backlog |-> <<>>,pc |-> <<"open", "start", "start">>,task |-> "parked",waker |-> TRUE,setup |-> <<TRUE>>,addr |-> <<1, 1, 1>>,outcome |-> <<"none">>,snap |-> <<<<[m |-> 1, a |-> 0]>>, <<>>, <<>>>>]),
    ([ret |-> <<2, 0, 0>>,owner |-> 0,errs |-> 0,cnt |-> <<0, 1, 0, 0, 0, 0, 0>>,drained |-> 0,global |-> 1,list |-> <<[m |-> 1, a |-> 0], [m |-> 2, a |-> 1]>>,n |-> 1,arrived |-> 0,timer |-> "none",nextId |-> 3,backlog |-> <<>>,pc |-> <<"decl", "start", "start">>,task |-> "parked",waker |-> TRUE,setup |-> <<TRUE>>,addr |-> <<1, 1, 1>>,outcome |-> <<"none">>,snap |-> <<<<[m |-> 1, a |-> 1]>>, <<>>, <<>>>>]),
    ([ret |-> <<2, 0, 0>>,owner |-> 0,errs |-> 0,cnt |-> <<0, 0, 0, 0, 0, 0, 0>>,drained |-> 0,global |-> 0,list |-> <<[m |-> 1, a |-> 0], [m |-> 2, a |-> 1]>>,n |-> 1,arrived |-> 0,timer |-> "none",nextId |-> 3,backlog |-> <<>>,pc |-> <<"closed", "start", "start">>,task |-> "parked",waker |-> TRUE,setup |-> <<TRUE>>,addr |-> <<1, 1, 1>>,outcome |-> <<"none">>,snap |-> <<<<[m |-> 1, a |-> 1]>>, <<>>, <<>>>>]),
    ([ret |-> <<2, 2, 0>>,owner |-> 0,errs |-> 0,cnt |-> <<0, 0, 0, 0, 0, 0, 0>>,drained |-> 0,global |-> 0,list |-> <<[m |-> 1, a |-> 0], [m |-> 2, a |-> 1]>>,n |-> 1,arrived |-> 0,timer |-> "none",nextId |-> 3,backlog |-> <<>>,pc |-> <<"closed", "got", "start">>,task |-> "parked",waker |-> TRUE,setup |-> <<TRUE>>,addr |-> <<1, 1, 1>>,outcome |-> <<"none">>,snap |-> <<<<[m |-> 1, a |-> 1]>>, <<[m |-> 1, a |-> 0], [m |-> 2, a |-> 1]>>, <<>>>>]),
    ([ret |-> <<2, 2, 0>>,owner |-> 0,errs |-> 0,cnt |-> <<0, 1, 0, 0, 0, 0, 0>>,drained |-> 0,global |-> 1,list |-> <<[m |-> 1, a |-> 0], [m |-> 2, a |-> 1]>>,n |-> 1,arrived |-> 0,timer |-> "none",nextId |-> 3,backlog |-> <<>>,pc |-> <<"closed", "open", "start">>,task |-> "parked",waker |-> TRUE,setup |-> <<TRUE>>,addr |-> <<1, 1, 1>>,outcome |-> <<"none">>,snap |-> <<<<[m |-> 1, a |-> 1]>>, <<[m |-> 1, a |-> 0], [m |-> 2, a |-> 1]>>, <<>>>>]),
    ([ret |-> <<2, 2, 2>>,owner |-> 0,errs |-> 0,cnt |-> <<0, 1, 0, 0, 0, 0, 0>>,drained |-> 0,global |-> 1,list |-> <<[m |-> 1, a |-> 0], [m |-> 2, a |-> 1]>>,n |-> 1,arrived |-> 0,timer |-> "none",nextId |-> 3,backlog |-> <<>>,pc |-> <<"closed", "open", "got">>,task |-> "parked",waker |-> TRUE,setup |-> <<TRUE>>,addr |-> <<1, 1, 1>>,outcome |-> <<"none">>,snap |-> <<<<[m |-> 1, a |-> 1]>>, <<[m |-> 1, a |-> 0], [m |-> 2, a |-> 1]>>, <<[m |-> 1, a |-> 0], [m |-> 2, a |-> 1]>>>>]),
    ([ret |-> <<2, 2, 2>>,owner |-> 0,errs |-> 0,cnt |-> <<0, 2, 0, 0, 0, 0, 0>>,drained |-> 0,global |-> 2,list |-> <<[m |-> 1, a |-> 0], [m |-> 2, a |-> 1]>>,n |-> 1,arrived |-> 0,timer |-> "none",nextId |-> 3,backlog |-> <<>>,pc |-> <<"closed", "open", "open">>,task |-> "parked",waker |-> TRUE,setup |-> <<TRUE>>,addr |-> <<1, 1, 1>>,outcome |-> <<"none">>,snap |-> <<<<[m |-> 1, a |-> 1]>>, <<[m |-> 1, a |-> 0], [m |-> 2, a |-> 1]>>, <<[m |-> 1, a |-> 0], [m |-> 2, a |-> 1]>>>>]),
    ([ret |-> <<2, 2, 2>>,owner |-> 0,errs |-> 0,cnt |-> <<0, 2, 0, 0, 0, 0, 0>>,drained |-> 0,global |-> 2,list |-> <<[m |-> 1, a |-> 0], [m |-> 2, a |-> 1]>>,n |-> 1,arrived |-> 0,timer |-> "none",nextId |-> 3,backlog |-> <<>>,pc |-> <<"closed", "open", "decl">>,task |-> "parked",waker |-> TRUE,setup |-> <<TRUE>>,addr |-> <<1, 1, 1>>,outcome |-> <<"none">>,snap |-> <<<<[m |-> 1, a |-> 1]>>, <<[m |-> 1, a |-> 0], [m |-> 2, a |-> 1]>>, <<[m |-> 2, a |-> 2]>>>>]),
    ([ret |-> <<2, 2, 2>>,owner |-> 0,errs |-> 0,cnt |-> <<0, 2, 0, 0, 0, 0, 0>>,drained |-> 0,global |-> 2,list |-> <<[m |-> 1, a |-> 0], [m |-> 2, a |-> 1]>>,n |-> 1,arrived |-> 0,timer |-> "none",nextId |-> 3,backlog |-> <<>>,pc |-> <<"closed", "decl", "decl">>,task |-> "parked",waker |-> TRUE,setup |-> <<TRUE>>,addr |-> <<1, 1, 1>>,outcome |-> <<"none">>,snap |-> <<<<[m |-> 1, a |-> 1]>>, <<[m |-> 2, a |-> 2]>>, <<[m |-> 2, a |-> 2]>>>>]),
    ([ret |-> <<2, 2, 2>>,owner |-> 0,errs |-> 0,cnt |-> <<0, 1, 0, 0, 0, 0, 0>>,drained |-> 0,global |-> 1,list |-> <<[m |-> 1, a |-> 0], [m |-> 2, a |-> 1]>>,n |-> 1,arrived |-> 0,timer |-> "none",nextId |-> 3,backlog |-> <<>>,pc |-> <<"closed", "closed", "decl">>,task |-> "parked",waker |-> TRUE,setup |-> <<TRUE>>,addr |-> <<1, 1, 1>>,outcome |-> <<"none">>,snap |-> <<<<[m |-> 1, a |-> 1]>>, <<[m |-> 2, a |-> 2]>>, <<[m |-> 2, a |-> 2]>>>>]),
    ([ret |-> <<2, 2, 2>>,owner |-> 0,errs |-> 0,cnt |-> <<0, 1, 0, 0, 0, 0, 0>>,drained |-> 0,global |-> 1,list |-> <<[m |-> 1, a |-> 0], [m |-> 2, a |-> 1]>>,n |-> 1,arrived |-> 0,timer |-> "none",nextId |-> 3,backlog |-> <<>>,pc |-> <<"closed", "closed", "closed">>,task |-> "parked",waker |-> TRUE,setup |-> <<TRUE>>,addr |-> <<1, 1, 1>>,outcome |-> <<"none">>,snap |-> <<<<[m |-> 1, a |-> 1]>>, <<[m |-> 2, a |-> 2]>>, <<[m |-> 2, a |-> 2]>>>>])
    >>
----


=============================================================================

---- CONFIG Listener_TTrace_1790100741 ----
CONSTANTS
    MaxConn = 1
    MaxAcceptErr = 0
    Variant = "intended"
    Threads = { 1 , 2 , 3 }
    Addrs = { 1 , 2 }
    PreLists = { { } , { 0 } , { 3 } , { 0 , 3 } }
    RegVariant = "dec_load_store"

INVARIANT
    _inv

CHECK_DEADLOCK
    \* CHECK_DEADLOCK off because of PROPERTY or INVARIANT above.
    FALSE

INIT
    _init

NEXT
    _next

CONSTANT
    _TETrace <- _trace

ALIAS
    _expression
=============================================================================
\* Generated on Tue Sep 22 18:12:24 UTC 2026