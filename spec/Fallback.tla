------------------------------ MODULE Fallback ------------------------------
(***************************************************************************)
(* Which transport is asked for the objects of a CA:                       *)
(* collector::Run::repository (src/collector/base.rs:190-241) against the  *)
(* documented policy (doc/routinator.1, --rrdp-fallback).  Property C29.    *)
(*                                                                         *)
(* A row: fallback policy, outcome of the RRDP update (LoadResult of       *)
(* rrdp/base.rs:665: Updated / Current / Stale / Unavailable), RRDP and    *)
(* rsync enabled or not, CA with or without rpkiNotify.                     *)
(* Decision: "rrdp" (the updated copy), "rsync", or "none" (no repository: *)
(* the validation uses what it has stored).                                *)
(***************************************************************************)
(* "Current" is a matter of time: the copy carries a best-before time that *)
(* every successful update renews - a snapshot or delta update, but also a *)
(* 304 (not_modified, base.rs:884) and a notification with the serial the  *)
(* copy already has (delta_update with no deltas, base.rs:1066): the       *)
(* replay runs both after the copy expired and expects the next failed     *)
(* update to find a current copy.                                          *)
EXTENDS Naturals

CONSTANT Variant     \* "as_documented" | "mutant" (the policy "new" also falls back from an expired copy)
                     \* | "snapshot_first_removes" (the copy is removed before the new snapshot has arrived)

Policies == {"never", "stale", "new"}
Outcomes == {"updated", "current", "stale", "unavailable"}
(* What is on disk before the run, and how this run's update goes.  The outcome is not an input: try_update          *)
(* (rrdp/base.rs:771) derives it from these two.  A failing update may fail at the notification file (no further     *)
(* request is made) or later, after a good notification, at the snapshot it needs (new session: no deltas to try);   *)
(* a failing delta alone is no failure, the update goes on with the snapshot.                                         *)
Copies  == {"none", "current", "expired"}
Results == {"ok", "notify_fails", "snapshot_fails", "delta_fails"}

VARIABLES policy, copy, result, outcome, rrdpOn, rsyncOn, notify, decision, rrdpAsked, done
vars == <<policy, copy, result, outcome, rrdpOn, rsyncOn, notify, decision, rrdpAsked, done>>

(* The documented table (the property). *)
Documented(p, o, rrdp, rsync, n) ==
  IF ~n THEN (IF rsync THEN "rsync" ELSE "none")
  ELSE IF ~rrdp THEN (IF rsync THEN "rsync" ELSE "none")
  ELSE IF o = "updated" THEN "rrdp"
  ELSE IF o = "current" THEN "none"
  ELSE IF /\ rsync
          /\ \/ (o = "unavailable" /\ p \in {"new", "stale"})
             \/ (o = "stale" /\ p = "stale")
       THEN "rsync"
  ELSE "none"

(* The outcome the property speaks of: what the copy was when the update failed. *)
OutcomeOf(c, r) ==
  IF r \in {"ok", "delta_fails"} THEN "updated"
  ELSE CASE c = "none" -> "unavailable" [] c = "current" -> "current" [] c = "expired" -> "stale"

Init ==
  /\ policy \in Policies /\ copy \in Copies /\ result \in Results
  /\ (result = "delta_fails" => copy # "none")          \* deltas are only tried on top of a copy
  /\ rrdpOn \in BOOLEAN /\ rsyncOn \in BOOLEAN /\ notify \in BOOLEAN
  /\ outcome = "pending" /\ decision = "pending" /\ rrdpAsked = FALSE /\ done = FALSE

RsyncOrNone == IF rsyncOn THEN "rsync" ELSE "none"

(* try_update: a failed update leaves the copy as it was and classifies it (base.rs:771-860) *)
CopyAtClassification ==
  IF Variant = "snapshot_first_removes" /\ result = "snapshot_fails" THEN "none" ELSE copy

TryUpdate ==
  /\ outcome = "pending" /\ ~done
  /\ outcome' = IF result \in {"ok", "delta_fails"} THEN "updated"
                ELSE CASE CopyAtClassification = "none"    -> "unavailable"
                       [] CopyAtClassification = "current" -> "current"
                       [] CopyAtClassification = "expired" -> "stale"
  /\ UNCHANGED <<policy, copy, result, rrdpOn, rsyncOn, notify, decision, rrdpAsked, done>>

(* Run::repository, branch by branch *)
Repository ==
  /\ ~done /\ done' = TRUE /\ outcome # "pending"
  /\ rrdpAsked' = (notify /\ rrdpOn)                                        \* base.rs:194-196
  /\ decision' =
       IF notify /\ rrdpOn
         THEN CASE outcome = "unavailable" -> IF policy = "never" THEN "none" ELSE RsyncOrNone   \* :198-208
                [] outcome = "stale"       -> IF policy = "stale" \/ (Variant = "mutant" /\ policy = "new")
                                              THEN RsyncOrNone ELSE "none"                        \* :209-219
                [] outcome = "current"     -> "none"                                             \* :220-224
                [] outcome = "updated"     -> "rrdp"                                             \* :225-228
         ELSE RsyncOrNone                                                                        \* :233-240
  /\ UNCHANGED <<policy, copy, result, outcome, rrdpOn, rsyncOn, notify>>

Next == TryUpdate \/ Repository
Spec == Init /\ [][Next]_vars

C29_FollowsTable == done => decision = Documented(policy, OutcomeOf(copy, result), rrdpOn, rsyncOn, notify)
C29_RrdpOnlyIfAnnouncedAndEnabled == done => (rrdpAsked <=> (notify /\ rrdpOn))
=============================================================================
