------------------------------ MODULE Fallback ------------------------------
(***************************************************************************)
(* Which transport is asked for the objects of a CA:                       *)
(* collector::Run::repository (src/collector/base.rs:190-241) against the  *)
(* documented policy (doc/routinator.1, --rrdp-fallback).  Property C29.    *)
(*                                                                         *)
(* A row: fallback policy, outcome of the RRDP update (LoadResult of       *)
(* rrdp/base.rs:665: Updated / Current / Stale / Unavailable), RRDP and    *)
(* rsync enabled or not, CA with or without rpkiNotify.                     *)
(* Decision: "rrdp" (the updated copy), "rsync", or "none" (no repository: *)
(* the validation uses what it has stored).                                *)
(***************************************************************************)
(* "Current" is a matter of time: the copy carries a best-before time that *)
(* every successful update renews - a snapshot or delta update, but also a *)
(* 304 (not_modified, base.rs:884) and a notification with the serial the  *)
(* copy already has (delta_update with no deltas, base.rs:1066): the       *)
(* replay runs both after the copy expired and expects the next failed     *)
(* update to find a current copy.                                          *)
EXTENDS Naturals

CONSTANT Variant     \* "as_documented" | "mutant" (the policy "new" also falls back from an expired copy)

Policies == {"never", "stale", "new"}
Outcomes == {"updated", "current", "stale", "unavailable"}

VARIABLES policy, outcome, rrdpOn, rsyncOn, notify, decision, rrdpAsked, done
vars == <<policy, outcome, rrdpOn, rsyncOn, notify, decision, rrdpAsked, done>>

(* The documented table (the property). *)
Documented(p, o, rrdp, rsync, n) ==
  IF ~n THEN (IF rsync THEN "rsync" ELSE "none")
  ELSE IF ~rrdp THEN (IF rsync THEN "rsync" ELSE "none")
  ELSE IF o = "updated" THEN "rrdp"
  ELSE IF o = "current" THEN "none"
  ELSE IF /\ rsync
          /\ \/ (o = "unavailable" /\ p \in {"new", "stale"})
             \/ (o = "stale" /\ p = "stale")
       THEN "rsync"
  ELSE "none"

Init ==
  /\ policy \in Policies /\ outcome \in Outcomes
  /\ rrdpOn \in BOOLEAN /\ rsyncOn \in BOOLEAN /\ notify \in BOOLEAN
  /\ decision = "pending" /\ rrdpAsked = FALSE /\ done = FALSE

RsyncOrNone == IF rsyncOn THEN "rsync" ELSE "none"

(* Run::repository, branch by branch *)
Repository ==
  /\ ~done /\ done' = TRUE
  /\ rrdpAsked' = (notify /\ rrdpOn)                                        \* base.rs:194-196
  /\ decision' =
       IF notify /\ rrdpOn
         THEN CASE outcome = "unavailable" -> IF policy = "never" THEN "none" ELSE RsyncOrNone   \* :198-208
                [] outcome = "stale"       -> IF policy = "stale" \/ (Variant = "mutant" /\ policy = "new")
                                              THEN RsyncOrNone ELSE "none"                        \* :209-219
                [] outcome = "current"     -> "none"                                             \* :220-224
                [] outcome = "updated"     -> "rrdp"                                             \* :225-228
         ELSE RsyncOrNone                                                                        \* :233-240
  /\ UNCHANGED <<policy, outcome, rrdpOn, rsyncOn, notify>>

Spec == Init /\ [][Repository]_vars

C29_FollowsTable == done => decision = Documented(policy, outcome, rrdpOn, rsyncOn, notify)
C29_RrdpOnlyIfAnnouncedAndEnabled == done => (rrdpAsked <=> (notify /\ rrdpOn))
=============================================================================
