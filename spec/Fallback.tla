------------------------------ MODULE Fallback ------------------------------
(***************************************************************************)
(* Which transport is asked for the objects of a CA:                       *)
(* collector::Run::repository (src/collector/base.rs:190-241) against the  *)
(* documented policy (doc/routinator.1, --rrdp-fallback).  Property C29.    *)
(*                                                                         *)
(* A row: fallback policy, outcome of the RRDP update (LoadResult of       *)
(* rrdp/base.rs:665: Updated / Current / Stale / Unavailable), RRDP and    *)
(* rsync enabled or not, CA with or without rpkiNotify.                     *)
(* Decision: "rrdp" (the updated copy), "rsync", or "none" (no repository: *)
(* the validation uses what it has stored).                                *)
(***************************************************************************)
(* "Current" is a matter of time: the copy carries a best-before time that *)
(* every successful update renews - a snapshot or delta update, but also a *)
(* 304 (not_modified, base.rs:884) and a notification with the serial the  *)
(* copy already has (delta_update with no deltas, base.rs:1066): the       *)
(* replay runs both after the copy expired and expects the next failed     *)
(* update to find a current copy.                                          *)
EXTENDS Naturals, Sequences

CONSTANTS Variant,   \* "as_documented" | "mutant" (the policy "new" also falls back from an expired copy)
                     \* | "snapshot_first_removes" (the copy is removed before the new snapshot has arrived)
          MaxRuns    \* validation runs in a row (the copy is what the runs share)

Policies == {"never", "stale", "new"}
Outcomes == {"updated", "current", "stale", "unavailable"}
(* What is on disk before a run, and how the run's update goes.  The outcome is not an input: try_update            *)
(* (rrdp/base.rs:771) derives it from these two.  A failing update may fail at the notification file (no further     *)
(* request is made) or later, after a good notification, at the snapshot it needs (new session: no deltas to try);   *)
(* a failing delta alone is no failure, the update goes on with the snapshot.  A successful update leaves a current  *)
(* copy, a failed one leaves the copy as it was: `ideal` is the copy as the property's reader thinks of it, `copy`   *)
(* is what the update procedure really leaves on disk (the same in the variant "as_documented").                     *)
Copies  == {"none", "current", "expired"}
Results == {"ok", "notify_fails", "snapshot_fails", "delta_fails"}

VARIABLES policy, rrdpOn, rsyncOn, notify,        \* configuration and CA, fixed
          copy, ideal,                            \* the local copy: on disk / as it should be
          phase, n, result, before, outcome, decision, rrdpAsked,
          hist                                    \* the runs so far (for the export)
vars == <<policy, rrdpOn, rsyncOn, notify, copy, ideal, phase, n, result, before, outcome, decision, rrdpAsked, hist>>
fixed == <<policy, rrdpOn, rsyncOn, notify>>

(* The documented table (the property). *)
Documented(p, o, rrdp, rsync, nt) ==
  IF ~nt THEN (IF rsync THEN "rsync" ELSE "none")
  ELSE IF ~rrdp THEN (IF rsync THEN "rsync" ELSE "none")
  ELSE IF o = "updated" THEN "rrdp"
  ELSE IF o = "current" THEN "none"
  ELSE IF /\ rsync
          /\ \/ (o = "unavailable" /\ p \in {"new", "stale"})
             \/ (o = "stale" /\ p = "stale")
       THEN "rsync"
  ELSE "none"

(* The outcome the property speaks of: what the copy was when the update failed. *)
OutcomeOf(c, r) ==
  IF r \in {"ok", "delta_fails"} THEN "updated"
  ELSE CASE c = "none" -> "unavailable" [] c = "current" -> "current" [] c = "expired" -> "stale"

Init ==
  /\ policy \in Policies /\ copy \in Copies /\ ideal = copy
  /\ rrdpOn \in BOOLEAN /\ rsyncOn \in BOOLEAN /\ notify \in BOOLEAN
  /\ phase = "idle" /\ n = 0 /\ result = "none" /\ before = "none"
  /\ outcome = "pending" /\ decision = "pending" /\ rrdpAsked = FALSE /\ hist = <<>>

RsyncOrNone == IF rsyncOn THEN "rsync" ELSE "none"

(* a validation run comes to the CA *)
StartRun(r) ==
  /\ phase = "idle" /\ n < MaxRuns
  /\ (r = "delta_fails" => ideal # "none")          \* deltas are only tried on top of a copy
  /\ result' = r /\ before' = ideal /\ phase' = "update" /\ n' = n + 1
  /\ outcome' = "pending" /\ decision' = "pending" /\ rrdpAsked' = FALSE
  /\ UNCHANGED <<fixed, copy, ideal, hist>>

(* try_update: classifies by the copy found when the update began (base.rs:789-837); a failed update leaves it alone *)
TryUpdate ==
  /\ phase = "update" /\ phase' = "decide"
  /\ IF notify /\ rrdpOn
       THEN /\ outcome' = OutcomeOf(copy, result)
            /\ ideal' = IF result \in {"ok", "delta_fails"} THEN "current" ELSE ideal
            /\ copy'  = IF result \in {"ok", "delta_fails"} THEN "current"
                        ELSE IF Variant = "snapshot_first_removes" /\ result = "snapshot_fails" THEN "none"
                        ELSE copy
       ELSE outcome' = "notasked" /\ UNCHANGED <<copy, ideal>>                \* base.rs:194-196: RRDP is not asked at all
  /\ UNCHANGED <<fixed, n, result, before, decision, rrdpAsked, hist>>

(* Run::repository, branch by branch *)
Repository ==
  /\ phase = "decide" /\ phase' = "idle"
  /\ rrdpAsked' = (notify /\ rrdpOn)                                        \* base.rs:194-196
  /\ decision' =
       IF notify /\ rrdpOn
         THEN CASE outcome = "unavailable" -> IF policy = "never" THEN "none" ELSE RsyncOrNone   \* :198-208
                [] outcome = "stale"       -> IF policy = "stale" \/ (Variant = "mutant" /\ policy = "new")
                                              THEN RsyncOrNone ELSE "none"                        \* :209-219
                [] outcome = "current"     -> "none"                                             \* :220-224
                [] outcome = "updated"     -> "rrdp"                                             \* :225-228
         ELSE RsyncOrNone                                                                        \* :233-240
  /\ hist' = Append(hist, [result |-> result, before |-> before, outcome |-> OutcomeOf(before, result),
                           decision |-> Documented(policy, OutcomeOf(before, result), rrdpOn, rsyncOn, notify)])
  /\ UNCHANGED <<fixed, copy, ideal, n, result, before, outcome>>

Next == (\E r \in Results : StartRun(r)) \/ TryUpdate \/ Repository
Spec == Init /\ [][Next]_vars

Decided == phase = "idle" /\ n > 0
C29_FollowsTable == Decided => decision = Documented(policy, OutcomeOf(before, result), rrdpOn, rsyncOn, notify)
C29_RrdpOnlyIfAnnouncedAndEnabled == Decided => (rrdpAsked <=> (notify /\ rrdpOn))
(* what the table silently relies on: a failed update does not touch the copy *)
CopyOnlyChangedBySuccess == copy = ideal
=============================================================================
