SPECIFICATION GSpec
CONSTANTS
  NO = 2
  NK = 1
  NC = 1
  NP = 2
INVARIANT Emit
CHECK_DEADLOCK FALSE
