\* every row: same/new session x local serial 1..5 x notified serial 1..5 (ahead, equal, behind) x 1..4 retained deltas x
\* list fault (none, newest missing, none listed, a gap / a duplicate at every listed serial) x rrdp-max-delta-count {1, 2, 4}
\* x rrdp-max-delta-list-len {2, 10}
SPECIFICATION Spec
CONSTANTS
  MaxSerial = 5
  Counts = {1, 2, 4}
  ListLens = {2, 10}
  Variant = "code"
INVARIANTS DeltasExactlyTheMissingOnes DeltasWheneverUsable NeverMoreThanConfigured NothingOnlyWhenEqual
CHECK_DEADLOCK FALSE
