\* exhaustive: 2 points in 2 rsync modules (+ the TA in m0), CA certificates with and without rpkiNotify, RRDP disabled
\* (what the replay realises), 3 manifest versions per point, 3 runs, <= 2 environment steps before each run, 1 expiry,
\* update and initial runs, every subset of unreachable modules, dirty on/off, corrupted TA point (failed run)
SPECIFICATION Spec
CONSTANTS
  NPoints = 2
  Modules = {"m1", "m2"}
  Transports = {FALSE, TRUE}
  Rrdp = FALSE
  MaxVer = 3
  MaxRuns = 3
  MaxEnv = 2
  MaxExpire = 1
  Kinds = {"update", "initial"}
  Corruptions = {FALSE, TRUE}
  Variant = "as_code"
INVARIANTS TypeOK C40_UnexpiredPointKept C40_UsedCopyKept C40_DirtyRemovesNothing C40_FailedRemovesNothing
           ProcessRemovesNothing Sanity_CleanupRemoves Sanity_CleanupOnlyWhenDue
PROPERTY TaKept
CHECK_DEADLOCK FALSE
