\* exhaustive: TA + 2 points in 2 rsync modules, no rpkiNotify, RRDP off (what the replay realises), 3 manifest versions,
\* 3 runs, 1 environment step before each run, 1 expiry, update/initial runs, every set of unreachable modules, dirty on/off,
\* corrupted TA point (failed run), both clock cases for LastAttempt records
SPECIFICATION Spec
CONSTANTS
  NPoints = 2
  Modules = {"m1", "m2"}
  Transports = {FALSE}
  Rrdp = FALSE
  MaxVer = 3
  MaxRuns = 3
  MaxEnv = 1
  MaxExpire = 1
  Kinds = {"update", "initial"}
  Corruptions = {FALSE, TRUE}
  Ticks = {FALSE, TRUE}
  Variant = "as_code"
INVARIANTS TypeOK C40_UnexpiredPointKept C40_UsedCopyKept C40_DirtyRemovesNothing C40_FailedRemovesNothing
           ProcessRemovesNothing Sanity_CleanupRemoves Sanity_CleanupOnlyWhenDue
PROPERTY TaKept
CHECK_DEADLOCK FALSE
