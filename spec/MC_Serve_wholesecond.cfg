\* exhaustive: 2 data sets, 3 validation runs (the first one included), 3 HTTP requests with any validators,
\* 2 RTR queries, one notify long-poll; every interleaving
SPECIFICATION Spec
CONSTANTS
  DataSets = {1, 2}
  MaxUpdates = 3
  MaxReq = 3
  MaxRtr = 2
  Variant = "intended"
  SubSecond = FALSE
INVARIANTS C15_HttpPaired C15_RtrPaired C15_NoDataBeforeFirstRun C16_NotModifiedOnlyIfCurrent C17_NoLostWakeup
CHECK_DEADLOCK FALSE
