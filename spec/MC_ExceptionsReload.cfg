\* every history: 4 states of the file at start-up x up to 2 edits (each to one of the 4 states), a run after each
SPECIFICATION MCSpec
CONSTANTS
  MaxEdits = 2
  Variant = "code"
INVARIANTS ServedExactly NeverWithoutExceptions RefusesToStartOnBrokenFile ServedIsLastGoodFile
CHECK_DEADLOCK FALSE
