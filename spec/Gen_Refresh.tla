---------------------------- MODULE Gen_Refresh ----------------------------
(* Behaviour export for Refresh: one line per world (time of every         *)
(* element, the faulty elements and the concrete kind of fault) with the    *)
(* declarative bound and the operational result for the file-name order    *)
(* of hook H8 and for the two extreme orders.                              *)
EXTENDS Refresh, Json

CONSTANT FaultKinds
VARIABLE fk
ShortTimes == {5, 9}
BadSigOnly == {"BadSig"}
BothKinds  == {"BadSig", "Expired"}

Line ==
  [times  |-> {[el |-> e, t |-> t[e]] : e \in Elements},
   faults |-> faults, fkind |-> fk,
   contributing |-> Contributing,
   bound  |-> Bound, sorted |-> Sorted, lo |-> Lo, hi |-> Hi,
   argmin |-> {e \in Elements : t[e] = Bound
                 /\ \E o \in Contributing : e \in ChainElements(o[1]) \cup {ObjEl(o)}}]

GInit == Init /\ fk \in (IF faults = {} THEN {"None"} ELSE FaultKinds)
GNext == UNCHANGED <<vars, fk>>
GSpec == GInit /\ [][GNext]_<<vars, fk>>
Emit == PrintT(<<"REPLAY", ToJson(Line)>>)
=============================================================================
