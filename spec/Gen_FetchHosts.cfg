\* export of the table rows
SPECIFICATION HSpec
CONSTANTS
  Threads = {"T1"}
  Keys = {"k1"}
  MaxCalls = 1
  Order = "insert_then_remove"
  Check2Removes = FALSE
  HostVariant = "intended"
INVARIANTS Emit
CHECK_DEADLOCK FALSE
