\* quick: every data set of <= 2 VRPs (5 461 sets), each with all 60 routes
SPECIFICATION GSpec
CONSTANTS
  MaxBits = 3
  Asns = {1, 2}
  MaxVrps = 2
  Variant = "code"
INVARIANT Emit
CHECK_DEADLOCK FALSE
