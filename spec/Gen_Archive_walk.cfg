\* thorough, part 2: 2500 pseudo random walks (Seed is replaced by VERIF_SEED by the driver) of 14
\* operations over the whole alphabet (duplicate publishes, missing names, rejecting checks, fetch,
\* fetch_if, reopen anywhere), 4 names (a, b colliding), data lengths {0,1,2,5,6,9} = 1 page padded /
\* 1 page full / 2 pages +1 unit / 2 pages full / 3 pages +1 unit / 3 pages full.
SPECIFICATION GSpec
CONSTANTS
  Names = {"a", "b", "c", "d"}
  NBuckets = 3
  BucketOf <- GBucketOf
  Lens = {0, 1, 2, 5, 6, 9}
  Metas = {1, 2}
  Page = 4
  Header = 2
  NameMeta = 1
  LongNames = {"b"}
  IndexEnd = 3
  MaxOps = 14
  MaxFile = 1000
  Variant = "code"
  Mode = "walk"
  MaxReopen = 0
  NWalks = 2500
  Seed = 1
INVARIANTS Emit C26_NoError C26_Results C26_Refinement C26_NoGhosts C26_Tiling C26_Accounted C26_VerifyOk CacheCoherent PageAligned
CHECK_DEADLOCK FALSE
