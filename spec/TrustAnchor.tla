---------------------------- MODULE TrustAnchor ----------------------------
(***************************************************************************)
(* Loading the trust anchor certificate of one TAL over consecutive        *)
(* validation runs (property C10):                                         *)
(*   src/engine.rs   Run::process_tal_task (509-572), Run::load_ta         *)
(*                   (578-597), Run::cleanup (408-420)                     *)
(*   src/store.rs    Run::load_ta / update_ta (487-502), cleanup_ta        *)
(*                   (585-595)                                             *)
(*   src/collector/base.rs load_ta (169-181), rsync.rs load_module         *)
(*                   (265-321), load_file (329-359), cleanup (365-395)     *)
(*                                                                         *)
(* A TAL lists 1..NUris certificate URIs and one public key.  In every run *)
(* the environment decides per URI what a download yields:                 *)
(*   good     the self-signed certificate with the TAL's key               *)
(*   wrongkey a valid self-signed certificate with a different key         *)
(*   garbage  bytes that do not decode as a certificate                    *)
(*   expired  the TAL's key, but notAfter has passed                       *)
(*   absent   the rsync module is reachable, the file is not there         *)
(*   unreach  the transfer of the rsync module fails                       *)
(* Cryptography is abstract: a certificate is one of the kinds above.      *)
(*                                                                         *)
(* Per URI the code keeps two copies: the rsync collector's working copy   *)
(* (`work`, cache/rsync/<host>/<module>/...; a failed transfer leaves it   *)
(* as it was) and the stored copy (`stored`, cache/stored/ta/...).         *)
(*                                                                         *)
(* A run is StartRun, then LoadTa per URI in TAL order until one passes,   *)
(* then Cleanup.  `Variant` selects the transcription of the code ("code") *)
(* or a mutant that the invariants must reject ("nokeycheck",              *)
(* "storefirst", "novalidate").                                            *)
(*                                                                         *)
(* What C10 does NOT demand and the model therefore allows: a decodable    *)
(* download with the wrong key or an expired one *replaces* a good stored  *)
(* copy (engine.rs:586-588 stores before the key check), so that a later   *)
(* failed download has no good copy to fall back to.                       *)
(***************************************************************************)
EXTENDS Naturals, FiniteSets, TLC

CONSTANTS NUris,        \* number of certificate URIs in the TAL (1 or 2)
          MaxRuns,
          Downloads,    \* download results the environment may choose from
          DirtyChoices, \* values of the `dirty` option a run may have (subset of BOOLEAN)
          Variant

URIs == 1..NUris
AllDownloads == {"good", "wrongkey", "garbage", "expired", "absent", "unreach"}
CertKinds    == {"good", "wrongkey", "expired"}          \* decode as a certificate
Kinds        == CertKinds \cup {"garbage", "none"}

Decodes(k)    == k \in CertKinds                          \* Cert::decode
KeyMatches(k) == k \in {"good", "expired"}                \* subject_public_key_info() = tal.key_info()
ValidatesTa(k) == k \in {"good", "wrongkey"}              \* Cert::validate_ta: self-signed, within validity

VARIABLES stored,    \* URI -> kind of the stored copy ("none": no file)
          work,      \* URI -> kind of the rsync working copy ("none": no file)
          phase,     \* "idle" | "loading" | "loaded"
          dl,        \* URI -> download result of the current run
          dirty,     \* the run leaves the cache dirty (no cleanup)
          cur,       \* next URI to try
          used,      \* 0, or the URI whose certificate became the trust anchor of this run
          usedKind,  \* kind of that certificate
          loaded,    \* URI -> kind that load_ta returned in this run ("none": nothing / not tried)
          tried,     \* URIs for which load_ta was called in this run
          before,    \* `stored` at the start of the run
          runs

vars == <<stored, work, phase, dl, dirty, cur, used, usedKind, loaded, tried, before, runs>>

NoneAll == [u \in URIs |-> "none"]

Init ==
  /\ stored = NoneAll /\ work = NoneAll
  /\ phase = "idle"
  /\ dl = [u \in URIs |-> "absent"] /\ dirty = FALSE
  /\ cur = 1 /\ used = 0 /\ usedKind = "none"
  /\ loaded = NoneAll /\ tried = {} /\ before = NoneAll
  /\ runs = 0

(* The environment publishes something at every URI; the run begins        *)
(* (engine.rs:447: one TalTask per TAL).                                   *)
StartRun(d, dy) ==
  /\ phase = "idle"
  /\ runs < MaxRuns
  /\ phase' = "loading"
  /\ dl' = d /\ dirty' = dy
  /\ cur' = 1 /\ used' = 0 /\ usedKind' = "none"
  /\ loaded' = NoneAll /\ tried' = {} /\ before' = stored
  /\ runs' = runs + 1
  /\ UNCHANGED <<stored, work>>

(* collector/base.rs:172-175: load_module, then load_file.  A failed       *)
(* transfer leaves the working copy of the previous run in place; a        *)
(* successful one mirrors the module (the file disappears if absent).      *)
Fetched(u) == IF dl[u] = "unreach" THEN work[u]
              ELSE IF dl[u] = "absent" THEN "none"
              ELSE dl[u]

(* One iteration of the loop in process_tal_task for URI `cur`.            *)
LoadTa ==
  /\ phase = "loading"
  /\ LET u == cur
         w == Fetched(u)
         \* engine.rs:584-596: the download if it decodes (then it is stored), else the stored copy
         storeIt == IF Variant = "storefirst" THEN w # "none" ELSE Decodes(w)
         st == IF storeIt THEN w ELSE stored[u]
         cert == IF Decodes(w) THEN w ELSE (IF Decodes(stored[u]) THEN stored[u] ELSE "none")
         \* engine.rs:519 key comparison, 525 validate_ta
         keyok == Variant = "nokeycheck" \/ KeyMatches(cert)
         valok == Variant = "novalidate" \/ ValidatesTa(cert)
         pass == cert # "none" /\ keyok /\ valok
     IN /\ work' = [work EXCEPT ![u] = w]
        /\ stored' = [stored EXCEPT ![u] = st]
        /\ loaded' = [loaded EXCEPT ![u] = cert]
        /\ tried' = tried \cup {u}
        /\ IF pass
             THEN /\ used' = u /\ usedKind' = cert /\ phase' = "loaded" /\ cur' = cur
             ELSE /\ UNCHANGED <<used, usedKind>>
                  /\ IF u = NUris THEN phase' = "loaded" /\ cur' = cur
                                  ELSE phase' = "loading" /\ cur' = cur + 1
  /\ UNCHANGED <<dl, dirty, before, runs>>

(* Run::cleanup: unless dirty, the store drops stored trust anchor files   *)
(* that do not decode or are expired (store.rs:585), and the rsync         *)
(* collector drops every module not updated in this run (rsync.rs:365).    *)
Cleanup ==
  /\ phase = "loaded"
  /\ phase' = "idle"
  /\ IF dirty
       THEN UNCHANGED <<stored, work>>
       ELSE /\ stored' = [u \in URIs |-> IF stored[u] \in {"good", "wrongkey"} THEN stored[u] ELSE "none"]
            /\ work' = [u \in URIs |-> IF u \in tried THEN work[u] ELSE "none"]
  /\ UNCHANGED <<dl, dirty, cur, used, usedKind, loaded, tried, before, runs>>

Next == \/ \E d \in [URIs -> Downloads], dy \in DirtyChoices : StartRun(d, dy)
        \/ LoadTa
        \/ Cleanup

Spec == Init /\ [][Next]_vars

-----------------------------------------------------------------------------
TypeOK ==
  /\ stored \in [URIs -> Kinds] /\ work \in [URIs -> Kinds]
  /\ phase \in {"idle", "loading", "loaded"}
  /\ used \in {0} \cup URIs /\ usedKind \in Kinds

Failed(d) == d \in {"garbage", "absent", "unreach"}     \* nothing that decodes was downloaded

(* C10, first sentence: a certificate is used as trust anchor only if it   *)
(* carries the TAL's key and validates as a trust anchor.                  *)
C10_UsedHasTalKeyAndValidates ==
  used # 0 => KeyMatches(usedKind) /\ ValidatesTa(usedKind)

(* C10: a download that does not decode never replaces the stored copy     *)
(* (checked before the end-of-run cleanup, which may remove an expired     *)
(* stored file on its own account).                                        *)
C10_UndecodableKeepsStored ==
  phase \in {"loading", "loaded"} =>
    \A u \in URIs : (dl[u] = "garbage" \/ ~Decodes(IF u \in tried THEN work[u] ELSE "none")) => stored[u] = before[u]

(* C10: when the download fails the stored copy is what is used: an        *)
(* existing stored copy is the certificate that is examined, and the URI   *)
(* yields the trust anchor exactly if that copy is a proper one.           *)
C10_FailedDownloadUsesStored ==
  \A u \in tried : Failed(dl[u]) =>
     /\ (before[u] # "none" => loaded[u] = before[u])
     /\ (used = u <=> before[u] = "good")

(* What the environment offers per URI in this run: the download if it     *)
(* decodes, else the copy stored before the run.                           *)
Effective(u) == IF Decodes(dl[u]) THEN dl[u] ELSE before[u]

(* C10, last sentence: if no URI offers a proper certificate the TAL       *)
(* contributes nothing.                                                    *)
C10_AllFailNothing ==
  (phase # "idle" \/ runs > 0) =>
    ((\A u \in URIs : Effective(u) # "good") => used = 0)

(* Model sanity: the operational result equals the declarative one -- the  *)
(* first URI in TAL order that offers a proper certificate wins.           *)
FirstGood == IF \E u \in URIs : Effective(u) = "good"
               THEN CHOOSE u \in URIs : Effective(u) = "good" /\ \A v \in URIs : v < u => Effective(v) # "good"
               ELSE 0
OperationalMatchesDeclarative ==
  (phase = "loaded" \/ (phase = "idle" /\ runs > 0)) => used = FirstGood

(* Model sanity: a decodable working copy is also the stored copy (so the  *)
(* stale working copy read after a failed transfer is "the stored copy"),  *)
(* unless the cleanup removed an expired stored file.                      *)
WorkIsStored ==
  phase = "idle" => \A u \in URIs : (Decodes(work[u]) /\ stored[u] # "none") => work[u] = stored[u]

=============================================================================
