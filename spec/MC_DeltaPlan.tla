---------------------------- MODULE MC_DeltaPlan ----------------------------
EXTENDS DeltaPlan, Json, TLC
Emit == done => PrintT(<<"REPLAY", ToJson([same |-> same, local |-> local, notified |-> notified, retain |-> retain,
                                           fault |-> fault[1], fault_serial |-> fault[2], list |-> list,
                                           maxc |-> maxc, maxl |-> maxl, plan |-> plan])>>)
=============================================================================
