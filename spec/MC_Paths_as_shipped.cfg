\* quick: all six kinds; every pair of accepted URIs one edit apart over
\*   rsync: hosts {h.test, g.test} x {lower, Mixed} x module {m, n}
\*   https: hosts {h.test, g.test, "..", ""} x case x port
\*   paths: <= 2 segments over {a, A, ""(trailing slash)}
\* as shipped (expected to FAIL): point files named by the URI path, F17.
SPECIFICATION Spec
CONSTANTS
  Variant = "as_shipped"
  Kinds = {"mft", "mftn", "mftr", "ta", "tah", "notify", "notify1"}
  Mode = "near"
  HostsR = {"h.test", "g.test"}
  HostsH = {"h.test", "g.test", "..", ""}
  HCases = {"lower", "mixed"}
  SCases = {"lower"}
  Ports = {""}
  Mods = {"m", "n"}
  Segs = {"a", "A", ""}
  SegsAll = {"a"}
  NearSpread = 5
  MaxSegs = 2
INVARIANTS C30_Distinct
CHECK_DEADLOCK FALSE
