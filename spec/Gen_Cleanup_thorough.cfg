\* as Gen_Cleanup.cfg with rpkiNotify on/off (RRDP disabled: rsync transport, stored under stored/rrdp)
SPECIFICATION GSpec
CONSTANTS
  NPoints = 2
  Modules = {"m1", "m2"}
  Transports = {FALSE, TRUE}
  Rrdp = FALSE
  MaxVer = 3
  MaxRuns = 2
  MaxEnv = 2
  MaxExpire = 1
  Kinds = {"update", "initial"}
  Corruptions = {FALSE, TRUE}
  Ticks = {FALSE}
  Variant = "as_code"
  PlainFirst = TRUE
  StakeOnly = TRUE
INVARIANT Emit
CHECK_DEADLOCK FALSE
