\* quick: 5 record types; C28 over every class vector in which at most two fields leave their base class
\* ("pairs": every pair of value classes occurs), each with and without trailing bytes; C27 over every single
\* corruption (truncation at every byte offset, every length/count prefix set to 0, len-1, len+1, remaining+1,
\* 2^31, 2^32-1, 2^40, 2^58, 2^63, 2^64-1, every version/tag/marker byte set to 0,1,2,3,255, invalid URI text,
\* out-of-range timestamps, negative serial, 12 arbitrary byte strings) of every class vector in which at most one
\* field leaves its base class, plus bits 0 and 7 of every byte of the base vector flipped.
SPECIFICATION Spec
CONSTANTS
  Variant = "intended"
  ValueMode = "pairs"
  CorrMode = "basic"
INVARIANTS C27_Alloc C27_Outcome C27_Terminates C28_RoundTrip PosInRange
CHECK_DEADLOCK TRUE
