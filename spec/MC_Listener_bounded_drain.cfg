\* Part A (C19), exhaustive: 1..4 connections, every subset failing its setup, up to 0 accept error(s) injected at any
\* point, every interleaving of arrivals, task steps and the back-off timer; seeded fault "bounded_drain" (gives up after 2 failed set-ups in one poll)
SPECIFICATION FairSpecA
CONSTANTS
  MaxConn = 4
  MaxAcceptErr = 0
  Variant = "bounded_drain"
  Threads = {1}
  Addrs = {1}
  PreLists = {{}}
  RegVariant = "as_coded"
INVARIANTS C19_NeverStuck

CHECK_DEADLOCK FALSE
