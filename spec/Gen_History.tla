---------------------------- MODULE Gen_History ----------------------------
(* Behaviour export for History.  The serial space is 2^30 here (TLC has   *)
(* 32-bit integers); the harness maps the symbolic anchors "zero"/"half"   *)
(* and offsets onto the real 2^32 space, where the same comparisons hold   *)
(* because every history is far shorter than half the space.               *)
EXTENDS History, Json

VARIABLE h          \* history variable: the steps taken with the expected observations

Offs == {0, 1, 2, 3, 4}

(* A serial as a symbolic (anchor, offset) pair. *)
Sym(s) == IF Dist(s, 0) < 1000 THEN [a |-> "zero", o |-> Dist(s, 0)]
          ELSE IF Dist(0, s) < 1000 THEN [a |-> "zero", o |-> 0 - Dist(0, s)]
          ELSE IF Dist(s, Half) < 1000 THEN [a |-> "half", o |-> Dist(s, Half)]
          ELSE [a |-> "half", o |-> 0 - Dist(Half, s)]

Point(s, own) ==
  LET r == Diff(own, s) IN
  \* [anchor, offset, own session, model result, issued, data set at s, in must-serve window, source set]
  <<Sym(s).a, Sym(s).o, own, r[1], IsIssued(s),
    IF IsIssued(s) THEN DataAt(s) ELSE NoSet,
    s \in Window,
    IF r[1] = "refuse" THEN NoSet ELSE SrcOf(r)>>

Points ==
  LET ss == {Add(serial, o) : o \in Offs} \cup {Sub(serial, o) : o \in Offs}
            \cup {Add(Add(serial, Half), o) : o \in Offs} \cup {Sub(Add(serial, Half), o) : o \in Offs}
            \cup {0, Half, M - 1}
  IN {Point(s, TRUE) : s \in ss} \cup {Point(s, FALSE) : s \in {serial, Sub(serial, 1)}}

Obs(act, arg) ==
  [act |-> act, arg |-> arg, serial |-> Sym(serial), ndeltas |-> Len(deltas), cur |-> cur,
   changed |-> (lastRun = "changed"),
   points |-> IF cur = NoSet THEN {} ELSE Points]

GInit == Init /\ h = <<>>

GNext ==
  \/ \E d \in Sets : FirstRun(d) /\ h' = Append(h, Obs("run", d)')
  \/ \E d \in Sets : Run(d) /\ h' = Append(h, Obs("run", d)')
  \/ \E b \in Bases : Seed(b) /\ h' = Append(h, Obs("seed", Sym(b))')

GSpec == GInit /\ [][GNext]_<<vars, h>>

RunBound == runs < MaxRuns
(* Print complete behaviours only. *)
Emit == (runs = MaxRuns) => PrintT(<<"REPLAY", ToJson([keep |-> keep, steps |-> h])>>)
=============================================================================
