\* pre_fix without the hash preconditions: still safe against kills alone (a re-applied delta sets every object it touches)
SPECIFICATION Spec
CONSTANTS
  NObj = 2
  Vals = {1, 2}
  MaxVer = 4
  MaxKills = 2
  MaxRuns = 4
  Caches = FALSE
  Variant = "pre_fix_no_precond"
INVARIANTS TypeOK C24_ReportedMeansEqual NoTornReported MarkedWhileDirty
CHECK_DEADLOCK FALSE
