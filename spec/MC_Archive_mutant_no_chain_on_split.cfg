\* seeded fault "no_chain_on_split" (see Archive.tla): TLC must reject it -- shows that the invariants bite.
SPECIFICATION MCSpec
CONSTANTS
  Names = {"a", "b", "c"}
  NBuckets = 2
  BucketOf <- MCBucketOf
  Lens = {1, 2}
  Metas = {1}
  Page = 4
  Header = 2
  NameMeta = 1
  LongNames = {"b"}
  IndexEnd = 3
  MaxOps = 6
  MaxFile = 1000
  Variant = "no_chain_on_split"
INVARIANTS C26_NoError C26_Results C26_Refinement C26_NoGhosts C26_Tiling C26_Accounted C26_VerifyOk
CHECK_DEADLOCK FALSE
