\* as shipped (expected to FAIL): same bound as MC_Rrdp.cfg
SPECIFICATION Spec
CONSTANTS
  Objs = {1, 2}
  MaxVer = 3
  MaxRuns = 3
  MaxFaults = 2
  EtagModes = {TRUE, FALSE}
  WithExpiry = FALSE
  Variant = "as_shipped"
INVARIANTS TypeOK VersionsDistinct C25_UpdatedIsSnapshotAtSerial C25_UpdatedIsAnnounced C25_FailureNotUsed C25_NoCopyUnavailable
CHECK_DEADLOCK FALSE
