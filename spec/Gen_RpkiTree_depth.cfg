\* quick and thorough: the shape "deep" (a chain of five CAs) under max-ca-depth 0, 1, 2, 3, 4, 5 and 32, without and with one fault;
\* the replay hands the depth to Routinator through its own option parser (command line and configuration file in turn)
SPECIFICATION GSpec
CONSTANTS
  Shapes <- DeepOnly
  MaxFaults = 1
  Configs <- DepthConfigs
  Threads = 2
  KindOk <- PointFaultsOnly
INVARIANT Emit
CHECK_DEADLOCK FALSE
