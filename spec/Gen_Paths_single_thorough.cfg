\* thorough export (3/4), singles: rsync kinds, every URI (accepted or not) with <= 3 segments over the whole alphabet
\* {a, A, ".", "..", "%2e%2e", "%2F", "a b", "", x200}.
SPECIFICATION Spec
CONSTANTS
  Variant = "as_shipped"
  Kinds = {"mft", "mftn", "ta"}
  Mode = "single"
  HostsR = {"h.test", "..", ""}
  HostsH = {"h.test"}
  HCases = {"lower", "mixed"}
  SCases = {"lower"}
  Ports = {""}
  Mods = {"m", "..", ""}
  Segs = {"a"}
  SegsAll = {"a", "A", ".", "..", "%2e%2e", "%2F", "a b", "", "x200"}
  NearSpread = 5
  MaxSegs = 3
INVARIANT Emit
CHECK_DEADLOCK FALSE
