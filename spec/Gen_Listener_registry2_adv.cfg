\* registry schedules (GSpecBK), threads {1, 2}, addresses {1, 2}, pre-registered {{}, {0}, {3}}, registry variant no_lock
SPECIFICATION GSpecBK
CONSTANTS
  MaxConn = 1
  MaxAcceptErr = 0
  Variant = "intended"
  Threads = {1, 2}
  Addrs = {1, 2}
  PreLists = {{}, {0}, {3}}
  RegVariant = "no_lock"
INVARIANT EmitB
CHECK_DEADLOCK FALSE
