\* seeded fault "past_start_waits_refresh" (C34): a data set that has already expired makes the server wait a whole refresh interval; TLC must reject
SPECIFICATION Spec
CONSTANTS
  MaxLen = 1
  Variant = "past_start_waits_refresh"
  Times = {1, 2, 3, 4}
INVARIANTS C34_Table
CHECK_DEADLOCK FALSE
