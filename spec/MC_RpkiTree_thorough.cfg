\* thorough: as MC_RpkiTree.cfg with three validation threads
SPECIFICATION Spec
CONSTANTS
  Shapes <- AllShapes
  MaxFaults = 1
  Configs <- ConfigSet
  Threads = 3
INVARIANTS
  C01_OnlyValid C02_NothingLost OperationalMatchesDeclarative C02_Siblings
  C06_StaleReject C06_StaleTolerated C06_Premature C06_Descendants
  C07_DepthAndLoops C08_NoUnsafeUnderReject C08_NothingRemovedOtherwise C41_Isolation
PROPERTIES C07_Terminates
