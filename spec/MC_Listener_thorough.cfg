\* Part A (C19), exhaustive: 1..6 connections, every subset failing its setup, up to 2 accept error(s) injected at any
\* point, every interleaving of arrivals, task steps and the back-off timer; variant "intended"
SPECIFICATION FairSpecA
CONSTANTS
  MaxConn = 6
  MaxAcceptErr = 2
  Variant = "intended"
  Threads = {1}
  Addrs = {1}
  PreLists = {{}}
  RegVariant = "as_coded"
INVARIANTS TypeA C19_NeverStuck C19_WakeSourceWhenParked C19_OutcomeMatchesSetup
PROPERTIES C19_EveryoneAccepted C19_HealthyServed
CHECK_DEADLOCK FALSE
