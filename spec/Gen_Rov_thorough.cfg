\* thorough: every data set of <= 2 VRPs with all 60 routes, plus every 3-element data set
\* within one address family (2 x 22 100 sets) with the 30 routes of that family
SPECIFICATION GSpec
CONSTANTS
  MaxBits = 3
  Asns = {1, 2}
  MaxVrps = 3
  Variant = "code"
INVARIANT Emit
CHECK_DEADLOCK FALSE
