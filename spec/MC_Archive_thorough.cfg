\* thorough, part 1: all sequences of <= 6 operations, data lengths {0, 1, 2, 5} (one page padded / full,
\* two pages padded / full), 3 names (a, b colliding), 2 meta values.
SPECIFICATION MCSpec
CONSTANTS
  Names = {"a", "b", "c"}
  NBuckets = 2
  BucketOf <- MCBucketOf
  Lens = {0, 1, 2, 5}
  Metas = {1, 2}
  Page = 4
  Header = 2
  NameMeta = 1
  LongNames = {"b"}
  IndexEnd = 3
  MaxOps = 6
  MaxFile = 1000
  Variant = "code"
INVARIANTS TypeOK C26_NoError C26_Results C26_Refinement C26_NoGhosts C26_Tiling C26_Accounted C26_VerifyOk
           CacheCoherent PageAligned FitsIsGe
CHECK_DEADLOCK FALSE
