--------------------------- MODULE Gen_RpkiTree ---------------------------
(* Behaviour export for RpkiTree: one line per world (shape, faults,       *)
(* configuration) with the expected result of a validation run on a fresh  *)
(* cache.                                                                  *)
EXTENDS RpkiTree, Json

ObjJson(o) ==
  IF o.kind = "roa"  THEN [ca |-> o.ca, n |-> o.n, kind |-> "roa", p |-> o.p, asn |-> o.asn]
  ELSE IF o.kind = "rtr" THEN [ca |-> o.ca, n |-> o.n, kind |-> "rtr", asn |-> o.asn, rk |-> o.rk]
  ELSE [ca |-> o.ca, n |-> o.n, kind |-> "aspa", cust |-> o.cust, prov |-> o.prov]

Line ==
  [shape    |-> shape,
   cas      |-> [c \in CAs |-> [parent |-> W.cas[c].parent, key |-> W.cas[c].key, repo |-> W.cas[c].repo,
                                res |-> W.cas[c].res]],
   objs     |-> {ObjJson(o) : o \in Objs},
   faults   |-> faults,
   config   |-> config,
   certok   |-> {c \in CAs : CertOk(c)},
   accepted |-> {c \in CAs : Accepted(c)},
   rejected |-> RejectedCAs,
   valid    |-> {<<o.ca, o.n>> : o \in ValidObjs},
   expected |-> {<<o.ca, o.n>> : o \in ExpectedObjs},
   unsafe   |-> {<<o.ca, o.n>> : o \in {o \in ValidObjs : IsUnsafe(o)}},
   payload  |-> ExpectedPayload,
   affected |-> {c \in CAs : Affected(c)},
   clean    |-> {<<o.ca, o.n>> : o \in CleanValidObjs}]

(* Only initial states are expanded: the export does not need the          *)
(* operational part.                                                       *)
GNext == UNCHANGED vars
GSpec == Init /\ [][GNext]_vars
Emit == PrintT(<<"REPLAY", ToJson(Line)>>)
=============================================================================
