\* sensitivity of C28 (expected to FAIL on C28_RoundTrip): None of an Option<Bytes> written as length 0
\* collides with Some(empty).
SPECIFICATION Spec
CONSTANTS
  Variant = "none_as_len0"
  ValueMode = "star"
  CorrMode = "none"
INVARIANTS C28_RoundTrip
CHECK_DEADLOCK TRUE
