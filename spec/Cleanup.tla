------------------------------ MODULE Cleanup ------------------------------
(***************************************************************************)
(* C40 -- cleanup keeps everything still needed.                           *)
(*                                                                         *)
(* Code transcribed:                                                       *)
(*   src/payload/validation.rs:96-113  ValidationReport::process           *)
(*        start -> run.process()? -> run.cleanup()? -> done                *)
(*        (cleanup is reached only when process() returned Ok)             *)
(*   src/engine.rs:408-420   Run::cleanup: dirty => return; retain set;    *)
(*        store.cleanup(&mut retain); collector.cleanup(&mut retain)       *)
(*        (collector only if the run has one: not in an initial run)       *)
(*   src/store.rs:544-553    Run::cleanup = cleanup_ta, cleanup_points     *)
(*        (rrdp tree, rsync tree), cleanup_tmp                             *)
(*   src/store.rs:560-579    cleanup_points: keep iff StoredPoint::retain; *)
(*        kept point with rpkiNotify -> retain.add_rrdp_repository,        *)
(*        otherwise retain.add_rsync_module(manifest uri)                  *)
(*   src/store.rs:1089-1103  StoredPoint::retain: manifest stored =>       *)
(*        not_after(manifest EE) > now; never stored => LastAttempt >=     *)
(*        start of this run                                                *)
(*   src/collector/base.rs:260-268  Run::cleanup (rsync, then rrdp)        *)
(*   src/collector/rsync.rs:375-403 cleanup: retain += modules updated in  *)
(*        this run (failed updates included); everything else is deleted   *)
(*   src/collector/rrdp/base.rs:493-526 cleanup: retain += repositories    *)
(*        tried in this run; every other archive is deleted                *)
(*   src/engine.rs:689-720, store.rs:780-919 what a run does to a stored   *)
(*        point before cleanup (create / touch LastAttempt / update)       *)
(*                                                                         *)
(* World: one trust anchor (module "m0", always reachable, never expiring) *)
(* whose publication point lists the CA certificates of the points         *)
(* 1..NPoints.  A point lives at a home = (rsync module, does its CA       *)
(* certificate carry rpkiNotify).  The stored copy of a point is keyed by  *)
(* (point, home): the module is part of the manifest URI, rpkiNotify       *)
(* decides between stored/rsync/.. and stored/rrdp/<host>/<hash>/..        *)
(* Every module doubles as the RRDP server of the same name.               *)
(*                                                                         *)
(* Environment between runs: a point is (un)listed by the TA, publishes a  *)
(* new manifest (long lived or with a short lived EE certificate), moves   *)
(* to another home; time passes so that all short lived manifests issued   *)
(* so far are expired.  Per run: modules / RRDP servers unreachable, the   *)
(* dirty option, a normal or an initial (collector-less) run, a corrupted  *)
(* stored file of the TA point (fatal failure of the run).                 *)
(*                                                                         *)
(* LastAttempt and the clock.  store::Run::new takes `started` with         *)
(* sub-second precision, a LastAttempt time is written to the file in whole *)
(* seconds (utils/binio.rs:336).  `when >= update_start` (store.rs:1096) is *)
(* therefore true for a record written in this run only if a second         *)
(* boundary was crossed between the start of the run and the attempt.  The  *)
(* run configuration carries that as `tick` (one flag per run).  Such a     *)
(* record holds no manifest; C40 says nothing about it.                     *)
(*                                                                         *)
(* Variant: "as_code" = the pinned code.  The others are seeded faults the *)
(* invariants must reject (the driver asserts that):                       *)
(*   "mut_expiry"  retain keeps a stored manifest iff it HAS expired       *)
(*   "mut_retain"  kept points are not registered with the collector       *)
(*   "mut_dirty"   the dirty option is ignored                             *)
(*   "mut_failed"  cleanup also runs after a failed process()              *)
(*   "mut_touched" modules updated in this run are not added to retain     *)
(*   "mut_next_update" retain looks at the earlier of the EE certificate's  *)
(*        notAfter and the manifest's nextUpdate, in a world where every    *)
(*        manifest is past its nextUpdate when it is stored (the stale      *)
(*        policy accepts it)                                                *)
(*                                                                         *)
(* The manifest's nextUpdate.  StoredPoint::retain reads the EE            *)
(* certificate's notAfter only (store.rs:1370-1373), so the model has no   *)
(* variable for nextUpdate.  The replay runs a third of the histories in   *)
(* exactly the world of "mut_next_update": all runs with stale = accept    *)
(* (as always) and every CA manifest issued with a nextUpdate that has     *)
(* already passed; the expectations are the same.                          *)
(***************************************************************************)
EXTENDS Naturals, FiniteSets, TLC

CONSTANTS NPoints,      \* points 1..NPoints; the TA lists them in this order
          Modules,      \* rsync modules of the points (strings), "m0" is the TA's
          Transports,   \* subset of BOOLEAN: values rpkiNotify-present may take
          Rrdp,         \* RRDP collector enabled (FALSE = disable-rrdp)
          MaxVer,       \* manifest versions per point
          MaxRuns,      \* validation runs per history
          MaxEnv,       \* environment steps between two runs
          MaxExpire,    \* "time passes" steps per history
          Kinds,        \* subset of {"update", "initial"}
          Corruptions,  \* subset of BOOLEAN: may the TA's stored file be corrupted
          Ticks,        \* subset of BOOLEAN: does a run cross a wall-clock second boundary (see below)
          Variant

ASSUME Variant \in {"as_code", "mut_expiry", "mut_retain", "mut_dirty", "mut_failed", "mut_touched", "mut_next_update"}

Points == 1..NPoints
Homes  == [mod : Modules, notify : Transports]
NoHome == [mod |-> "none", notify |-> FALSE]
Keys   == Points \X Homes
NoRec  == [st |-> "none", v |-> 0, fresh |-> FALSE]
AllMods == Modules \cup {"m0"}
(* initially point i lives in the i-th module (round robin), without rpkiNotify *)
ModSeq == CHOOSE f \in [1..Cardinality(Modules) -> Modules] : \A i, j \in DOMAIN f : i # j => f[i] # f[j]
InitHomes == {[p \in Points |-> [mod |-> ModSeq[((p - 1) % Cardinality(Modules)) + 1],
                                  notify |-> CHOOSE b \in Transports : b = FALSE \/ Transports = {TRUE}]]}

VARIABLES
  \* ---- the world
  listed,    \* points whose certificate the TA's manifest lists
  home,      \* [Points -> Homes] where a point publishes
  pver,      \* [Points -> 1..MaxVer] version of the manifest it publishes there
  short,     \* {<<p, v>>} versions whose manifest EE certificate is short lived
  dead,      \* {<<p, v>>} versions whose manifest EE certificate has expired
  \* ---- the cache
  stored,    \* [Keys -> [st : {"none","att","ok"}, v, fresh]]  (att = LastAttempt only)
  taStored,  \* the TA's certificate and publication point are in the store
  taView,    \* [Points -> Homes \cup {NoHome}]: child certificates in the stored TA point
  copies,    \* rsync module copies in <cache>/rsync
  copyVer,   \* [Modules -> [Points -> 0..MaxVer]] manifest version of p inside the copy
  archives,  \* RRDP archives in <cache>/rrdp (named by module)
  archVer,
  \* ---- the run
  phase,     \* "env" | "validate" | "cleanup_store" | "cleanup_collector" | "done"
  cfg,       \* [kind, dirty, down, rdown, corrupt, tick]
  outcome,   \* "none" | "ok" | "failed"
  touched,   \* rsync modules load_module was called for in this run (Run::updated)
  touchedN,  \* RRDP repositories tried in this run
  retR, retN,\* collector::Cleanup: rsync modules / RRDP repositories to retain
  start,     \* cache at the start of the run      [st, cp, ar]
  pre,       \* cache after process(), before cleanup
  cleaned,   \* did Run::cleanup get past the dirty test in this run
  runs, envN, expN

env   == <<listed, home, pver, short, dead>>
cache == <<stored, taStored, taView, copies, copyVer, archives, archVer>>
run   == <<phase, cfg, outcome, touched, touchedN, retR, retN, start, pre, cleaned>>
vars  == <<env, cache, run, runs, envN, expN>>

Snap == [st |-> stored, cp |-> copies, ar |-> archives]
NoCfg == [kind |-> "update", dirty |-> FALSE, down |-> {}, rdown |-> {}, corrupt |-> FALSE, tick |-> FALSE]

PubAt(m) == [p \in Points |-> IF home[p].mod = m THEN pver[p] ELSE 0]
Expired(p, v) == <<p, v>> \in dead

Init ==
  /\ listed \in SUBSET Points
  /\ home \in InitHomes
  /\ pver = [p \in Points |-> 1]
  /\ short = {} /\ dead = {}
  /\ stored = [k \in Keys |-> NoRec]
  /\ taStored = FALSE
  /\ taView = [p \in Points |-> NoHome]
  /\ copies = {} /\ copyVer = [m \in Modules |-> [p \in Points |-> 0]]
  /\ archives = {} /\ archVer = [m \in Modules |-> [p \in Points |-> 0]]
  /\ phase = "env" /\ cfg = NoCfg /\ outcome = "none"
  /\ touched = {} /\ touchedN = {} /\ retR = {} /\ retN = {}
  /\ start = Snap /\ pre = Snap /\ cleaned = FALSE
  /\ runs = 0 /\ envN = 0 /\ expN = 0

(* ------------------------------------------------------------------ *)
(* Environment                                                        *)
(* ------------------------------------------------------------------ *)
EnvStep == phase = "env" /\ runs < MaxRuns /\ envN < MaxEnv /\ envN' = envN + 1
           /\ UNCHANGED <<cache, run, runs>>

Appear(p) ==
  /\ EnvStep /\ p \notin listed
  /\ listed' = listed \cup {p}
  /\ UNCHANGED <<home, pver, short, dead, expN>>

(* the parent stops listing the child's certificate; the child keeps publishing *)
Disappear(p) ==
  /\ EnvStep /\ p \in listed
  /\ listed' = listed \ {p}
  /\ UNCHANGED <<home, pver, short, dead, expN>>

(* a new manifest; s = its EE certificate is valid for a few seconds only *)
Renew(p, s) ==
  /\ EnvStep /\ pver[p] < MaxVer
  /\ pver' = [pver EXCEPT ![p] = @ + 1]
  /\ short' = IF s THEN short \cup {<<p, pver[p] + 1>>} ELSE short
  /\ UNCHANGED <<listed, home, dead, expN>>

(* the point moves: new CA certificate (sia), new manifest at the new place,  *)
(* the old place is withdrawn                                                 *)
Move(p, h) ==
  /\ EnvStep /\ h # home[p] /\ pver[p] < MaxVer
  /\ home' = [home EXCEPT ![p] = h]
  /\ pver' = [pver EXCEPT ![p] = @ + 1]
  /\ UNCHANGED <<listed, short, dead, expN>>

(* time passes: every short lived manifest issued so far has expired *)
Expire ==
  /\ EnvStep /\ expN < MaxExpire /\ short \ dead # {}
  /\ dead' = dead \cup short
  /\ expN' = expN + 1
  /\ UNCHANGED <<listed, home, pver, short>>

StartRun(kind, dirty, down, rdown, corrupt, tick) ==
  /\ phase = "env" /\ runs < MaxRuns
  /\ corrupt => taStored
  /\ phase' = "validate"
  /\ cfg' = [kind |-> kind, dirty |-> dirty, down |-> down, rdown |-> rdown, corrupt |-> corrupt, tick |-> tick]
  \* store::Run::new takes `started`; LastAttempt marks of earlier runs are older
  /\ stored' = [k \in Keys |-> [stored[k] EXCEPT !.fresh = FALSE]]
  /\ start' = [st |-> stored', cp |-> copies, ar |-> archives]
  /\ outcome' = "none" /\ touched' = {} /\ touchedN' = {} /\ retR' = {} /\ retN' = {}
  /\ cleaned' = FALSE
  /\ UNCHANGED <<env, taStored, taView, copies, copyVer, archives, archVer, pre, runs, envN, expN>>

(* ------------------------------------------------------------------ *)
(* process(): what a run does to the cache before cleanup             *)
(* ------------------------------------------------------------------ *)
AfterProcess(ok) ==
  /\ outcome' = IF ok THEN "ok" ELSE "failed"
  /\ phase' = IF (ok \/ Variant = "mut_failed") /\ (~cfg.dirty \/ Variant = "mut_dirty")
              THEN "cleanup_store" ELSE "done"

(* The TA's stored point cannot be read (store.rs:856-865): fatal.  An update  *)
(* run has fetched the TA certificate (module m0) before that.                 *)
ValidateCorrupt ==
  /\ phase = "validate" /\ cfg.corrupt
  /\ IF cfg.kind = "update"
       THEN copies' = copies \cup {"m0"} /\ touched' = {"m0"}
       ELSE UNCHANGED <<copies, touched>>
  /\ pre' = [st |-> stored, cp |-> copies', ar |-> archives]
  /\ AfterProcess(FALSE)
  /\ UNCHANGED <<env, stored, taStored, taView, copyVer, archives, archVer, cfg, touchedN,
                 retR, retN, start, cleaned, runs, envN, expN>>

RrdpTry(p) == Rrdp /\ home[p].notify
(* collector/base.rs:183-240 Run::repository *)
Trans(p) == IF RrdpTry(p)
              THEN IF home[p].mod \notin cfg.rdown THEN "rrdp"        \* Updated
                   ELSE IF home[p].mod \in archives THEN "none"      \* Current: no fallback
                   ELSE "rsync"                                      \* Unavailable: fall back
              ELSE "rsync"

ValidateUpdate ==
  /\ phase = "validate" /\ ~cfg.corrupt /\ cfg.kind = "update"
  /\ LET rsyncMods == {home[p].mod : p \in {q \in listed : Trans(q) = "rsync"}}
         rrdpMods  == {home[p].mod : p \in {q \in listed : RrdpTry(q)}}
         fetched   == rsyncMods \ cfg.down
         afetched  == rrdpMods \ cfg.rdown
         cv2 == [m \in Modules |-> IF m \in fetched THEN PubAt(m) ELSE copyVer[m]]
         av2 == [m \in Modules |-> IF m \in afetched THEN PubAt(m) ELSE archVer[m]]
         Cv(p) == CASE Trans(p) = "rsync" -> cv2[home[p].mod][p]
                    [] Trans(p) = "rrdp"  -> av2[home[p].mod][p]
                    [] OTHER -> 0
         \* engine.rs:689-720: open (create / touch LastAttempt), process_collected
         \* (valid, unexpired, newer than stored => update), else the stored point
         NewRec(p) == LET cur == stored[<<p, home[p]>>]
                          c == Cv(p)
                      IN IF c # 0 /\ ~Expired(p, c) /\ (cur.st # "ok" \/ c > cur.v)
                           THEN [st |-> "ok", v |-> c, fresh |-> FALSE]
                         ELSE IF cur.st = "ok" THEN cur
                         ELSE [st |-> "att", v |-> 0, fresh |-> cfg.tick]
     IN /\ stored' = [k \in Keys |-> IF k[1] \in listed /\ k[2] = home[k[1]]
                                       THEN NewRec(k[1]) ELSE stored[k]]
        /\ copies' = copies \cup fetched \cup {"m0"}
        /\ copyVer' = cv2
        /\ archives' = archives \cup afetched
        /\ archVer' = av2
        /\ touched' = rsyncMods \cup {"m0"}
        /\ touchedN' = rrdpMods
  /\ taStored' = TRUE
  /\ taView' = [p \in Points |-> IF p \in listed THEN home[p] ELSE NoHome]
  /\ pre' = [st |-> stored', cp |-> copies', ar |-> archives']
  /\ AfterProcess(TRUE)
  /\ UNCHANGED <<env, cfg, retR, retN, start, cleaned, runs, envN, expN>>

(* Initial run (engine.rs:322-341 start(.., initial = true)): no collector.  *)
(* It walks what the store has; the first point it has never seen makes it   *)
(* fail with "retry" (engine.rs:694-702); nothing is fetched or updated, but *)
(* opening a point creates / touches its LastAttempt record.                 *)
ValidateInitial ==
  /\ phase = "validate" /\ ~cfg.corrupt /\ cfg.kind = "initial"
  /\ LET view == {p \in Points : taView[p] # NoHome}
         K(p) == <<p, taView[p]>>
         new  == {p \in view : stored[K(p)].st = "none"}
         stop == IF new = {} THEN NPoints + 1 ELSE CHOOSE p \in new : \A q \in new : p <= q
         opened == {p \in view : p <= stop}
     IN /\ stored' = [k \in Keys |->
                        IF k[1] \in opened /\ k = K(k[1]) /\ stored[k].st # "ok"
                          THEN [st |-> "att", v |-> 0, fresh |-> cfg.tick] ELSE stored[k]]
        /\ AfterProcess(taStored /\ new = {})
  /\ pre' = [st |-> stored', cp |-> copies, ar |-> archives]
  /\ UNCHANGED <<env, taStored, taView, copies, copyVer, archives, archVer, cfg, touched, touchedN,
                 retR, retN, start, cleaned, runs, envN, expN>>

(* ------------------------------------------------------------------ *)
(* Run::cleanup (engine.rs:408-420)                                   *)
(* ------------------------------------------------------------------ *)
(* StoredPoint::retain, store.rs:1089 *)
Retain(p, r) ==
  CASE r.st = "ok"  -> IF Variant = "mut_expiry" THEN Expired(p, r.v)
                       ELSE IF Variant = "mut_next_update" THEN FALSE
                       ELSE ~Expired(p, r.v)
    [] r.st = "att" -> r.fresh
    [] OTHER -> FALSE

(* store.rs:544 store::Run::cleanup; the TA certificate and the TA's point are *)
(* long lived and always kept                                                  *)
CleanupStore ==
  /\ phase = "cleanup_store"
  /\ cleaned' = TRUE
  /\ LET kept == {k \in Keys : Retain(k[1], stored[k])}
     IN /\ stored' = [k \in Keys |-> IF k \in kept THEN stored[k] ELSE NoRec]
        /\ retR' = IF Variant = "mut_retain" THEN {}
                   ELSE {k[2].mod : k \in {x \in kept : ~x[2].notify}}
                        \cup (IF taStored THEN {"m0"} ELSE {})
        /\ retN' = IF Variant = "mut_retain" THEN {}
                   ELSE {k[2].mod : k \in {x \in kept : x[2].notify}}
  \* engine.rs:416: `if let Some(collector)`: an initial run has none
  /\ phase' = IF cfg.kind = "update" THEN "cleanup_collector" ELSE "done"
  /\ UNCHANGED <<env, taStored, taView, copies, copyVer, archives, archVer, cfg, outcome,
                 touched, touchedN, start, pre, runs, envN, expN>>

(* collector/base.rs:260, rsync.rs:375, rrdp/base.rs:493 *)
CleanupCollector ==
  /\ phase = "cleanup_collector"
  /\ copies' = copies \cap (retR \cup (IF Variant = "mut_touched" THEN {} ELSE touched))
  /\ archives' = IF Rrdp THEN archives \cap (retN \cup touchedN) ELSE archives
  /\ phase' = "done"
  /\ UNCHANGED <<env, stored, taStored, taView, copyVer, archVer, cfg, outcome, touched, touchedN,
                 retR, retN, start, pre, cleaned, runs, envN, expN>>

EndRun ==
  /\ phase = "done"
  /\ phase' = "env" /\ runs' = runs + 1 /\ envN' = 0
  \* forget the bookkeeping of the finished run (keeps the state space small)
  /\ cfg' = NoCfg /\ outcome' = "none" /\ touched' = {} /\ touchedN' = {} /\ retR' = {} /\ retN' = {}
  /\ start' = Snap /\ pre' = Snap /\ cleaned' = FALSE
  /\ UNCHANGED <<env, cache, expN>>

EnvNext ==
  \/ \E p \in Points : Appear(p) \/ Disappear(p)
  \/ \E p \in Points, s \in BOOLEAN : Renew(p, s)
  \/ \E p \in Points, h \in Homes : Move(p, h)
  \/ Expire
(* unreachable servers only matter to a run that gets as far as fetching *)
RunConfigs == {c \in [kind : Kinds, dirty : BOOLEAN, down : SUBSET Modules,
                      rdown : IF Rrdp THEN SUBSET Modules ELSE {{}}, corrupt : Corruptions, tick : Ticks] :
                 /\ (c.corrupt \/ c.kind = "initial") => (c.down = {} /\ c.rdown = {})
                 /\ c.corrupt => ~c.tick}
StartNext == \E c \in RunConfigs : StartRun(c.kind, c.dirty, c.down, c.rdown, c.corrupt, c.tick)
RunNext == ValidateCorrupt \/ ValidateUpdate \/ ValidateInitial \/ CleanupStore \/ CleanupCollector \/ EndRun

Next == EnvNext \/ StartNext \/ RunNext
Spec == Init /\ [][Next]_vars

(* ------------------------------------------------------------------ *)
(* C40                                                                *)
(* ------------------------------------------------------------------ *)
Done == phase = "done"
HasData(r) == r.st = "ok"
Unexpired(k, r) == r.st = "ok" /\ ~Expired(k[1], r.v)

(* an unexpired stored point is never removed by cleanup *)
C40_UnexpiredPointKept ==
  Done => \A k \in Keys : Unexpired(k, pre.st[k]) => stored[k] = pre.st[k]

(* The collector copy a stored point uses is named by its header: the RRDP *)
(* archive of its rpkiNotify, else the rsync module of its manifest.  The  *)
(* copies this run used are the ones it tried to update.                   *)
KeptPointsAt(m, notify) == \E k \in Keys : stored[k].st # "none" /\ k[2].mod = m /\ k[2].notify = notify
C40_UsedCopyKept ==
  Done => /\ \A m \in pre.cp : (m \in touched \/ KeptPointsAt(m, FALSE) \/ (m = "m0" /\ taStored)) => m \in copies
          /\ \A m \in pre.ar : (m \in touchedN \/ KeptPointsAt(m, TRUE)) => m \in archives

(* Observation, not part of C40 as read above.  With RRDP disabled (or after *)
(* a fall-back) a point whose CA certificate carries rpkiNotify is fetched   *)
(* through its rsync module, yet cleanup_points registers only the RRDP      *)
(* repository for it (store.rs:568-573).  If such a point is kept but was    *)
(* not visited in this run, its rsync module is deleted although the module  *)
(* of a point without rpkiNotify is kept in the same situation.  The pinned  *)
(* code violates this stricter reading (MC_Cleanup_strict.cfg is rejected;   *)
(* the replayer counts the cases in notes.observation_rrdp_filed_...).       *)
Strict_FetchedCopyKept ==
  Done => \A m \in pre.cp :
            (\E k \in Keys : stored[k].st = "ok" /\ k[2].mod = m /\ (~k[2].notify \/ ~Rrdp)) => m \in copies

(* dirty: nothing is removed *)
C40_DirtyRemovesNothing ==
  (Done /\ cfg.dirty) => stored = pre.st /\ copies = pre.cp /\ archives = pre.ar /\ ~cleaned

(* failed run: no cleanup, and nothing the cache held at the start is gone *)
C40_FailedRemovesNothing ==
  (Done /\ outcome = "failed") =>
      /\ ~cleaned /\ stored = pre.st /\ copies = pre.cp /\ archives = pre.ar
      /\ \A k \in Keys : start.st[k].st # "none" => stored[k].st # "none"
      /\ start.cp \subseteq copies /\ start.ar \subseteq archives

(* process() itself never removes anything (so whatever is missing after a  *)
(* run was removed by cleanup)                                              *)
ProcessRemovesNothing ==
  phase \in {"cleanup_store", "done"} =>
      /\ \A k \in Keys : start.st[k].st # "none" => pre.st[k].st # "none"
      /\ \A k \in Keys : HasData(start.st[k]) => HasData(pre.st[k])
      /\ start.cp \subseteq pre.cp /\ start.ar \subseteq pre.ar

(* The TA's own data is never touched *)
TaKept == [][taStored => taStored']_vars

(* What cleanup does remove (so that the model is not vacuous): after a      *)
(* completed cleanup no expired point, no stale LastAttempt record and, in a *)
(* run with a collector, no unreferenced copy is left.                       *)
Sanity_CleanupRemoves ==
  (Done /\ cleaned) =>
      /\ \A k \in Keys : stored[k].st = "ok" => ~Expired(k[1], stored[k].v)
      /\ \A k \in Keys : stored[k].st = "att" => stored[k].fresh
      /\ cfg.kind = "update" =>
           /\ \A m \in copies : m \in touched \/ KeptPointsAt(m, FALSE) \/ m = "m0"
           /\ Rrdp => \A m \in archives : m \in touchedN \/ KeptPointsAt(m, TRUE)
Sanity_CleanupOnlyWhenDue ==
  cleaned => (outcome = "ok" /\ ~cfg.dirty)

(* Reachability probes: each must be VIOLATED (checked by MC_Cleanup_probe.cfg) *)
Probe_NoPointRemoved == Done => \A k \in Keys : HasData(pre.st[k]) => HasData(stored[k])
Probe_NoCopyRemoved  == Done => pre.cp \subseteq copies
Probe_NoAttRemoved   == Done => \A k \in Keys : pre.st[k].st = "att" => stored[k].st = "att"
Probe_NoArchiveRemoved == Done => pre.ar \subseteq archives

TypeOK ==
  /\ listed \subseteq Points /\ home \in [Points -> Homes] /\ pver \in [Points -> 1..MaxVer]
  /\ stored \in [Keys -> [st : {"none", "att", "ok"}, v : 0..MaxVer, fresh : BOOLEAN]]
  /\ copies \subseteq AllMods /\ archives \subseteq Modules
  /\ phase \in {"env", "validate", "cleanup_store", "cleanup_collector", "done"}
=============================================================================
