--------------------------- MODULE Gen_ConfigRT ---------------------------
(* Behaviour export for ConfigRT.  One behaviour = the settings of the     *)
(* initial config file and of the command line, abstractly as (option,     *)
(* class, source), followed by PrintCfg and ReadCfg.  Exported with it:    *)
(* whether the parsers are expected to accept the settings, and which      *)
(* options the model of the PINNED code (Variant = "as_shipped") expects   *)
(* not to survive the round trip (`lost`, `rejected`).  These are          *)
(* predictions used to validate the model against the code; the replayer's *)
(* oracle is the property itself (everything must survive).                *)
(*                                                                         *)
(* target   number of settings of the behaviour (chosen in the initial     *)
(*          state, so that breadth-first export lists every combination    *)
(*          exactly once and -simulate draws the size at random);          *)
(* Combine  "typical": a behaviour with more than one setting uses the     *)
(*          typical non-default class of each option; with more than two   *)
(*          settings it uses the command line wherever the option has a    *)
(*          flag.  "free": any class, any source.                          *)
(* A single setting outside the accepted domain is exported as a `bad`     *)
(* behaviour (accept = FALSE): the replayer counts it as "not a test case" *)
(* and logs a model divergence if the real parser accepts it.              *)
EXTENDS ConfigRT, Json

CONSTANTS Targets, Combine

VARIABLES target, bad
gvars == <<vars, target, bad>>

GInit == Init /\ target \in Targets /\ bad = <<>>

FileOK(o, c) ==
  \/ Combine = "free"
  \/ target = 1
  \/ target = 2 /\ c = TypFile(o)
  \/ target > 2 /\ c = TypFile(o) /\ Table[o].flag = ""
CliOK(o, c) ==
  \/ Combine = "free"
  \/ target = 1
  \/ target > 1 /\ c = TypCli(o)

GSet ==
  /\ phase = "set" /\ nset < target
  /\ \E o \in Opts : \/ \E c \in FileCls[o] : FileOK(o, c) /\ SetFile(o, c)
                     \/ \E d \in CliCls[o] : CliOK(o, d) /\ SetCli(o, d)
  /\ UNCHANGED <<target, bad>>

(* A single setting that the parser is expected to refuse. *)
GBad ==
  /\ phase = "set" /\ target = 1 /\ nset = 0
  /\ \E o \in Opts :
       \/ \E c \in FileCls[o] : ~FileAccepts(o, c) /\ bad' = <<[o |-> o, c |-> c, src |-> "file"]>>
       \/ \E d \in CliCls[o] : ~CliAccepts(o, d) /\ bad' = <<[o |-> o, c |-> d, src |-> "cli"]>>
  /\ phase' = "bad"
  /\ UNCHANGED <<fin, cli, nset, out, back, rejected, target>>

GNext ==
  \/ GSet
  \/ GBad
  \/ nset = target /\ PrintCfg /\ UNCHANGED <<target, bad>>
  \/ ReadCfg /\ UNCHANGED <<target, bad>>

GSpec == GInit /\ [][GNext]_gvars

Describe(o, c, src) ==
  [o |-> o, c |-> c, src |-> src, kind |-> Kind(o), flag |-> Table[o].flag, pos |-> Table[o].pos]

Settings ==
  IF phase = "bad" THEN {Describe(bad[1].o, bad[1].c, bad[1].src)}
  ELSE {Describe(o, fin[o], "file") : o \in {x \in Opts : fin[x] # "unset"}}
       \cup {Describe(o, cli[o], "cli") : o \in {x \in Opts : cli[x] # "unset"}}

Line ==
  [sets     |-> Settings,
   accept   |-> (phase = "read"),
   rejected |-> rejected,
   lost     |-> IF phase = "read" THEN Lost ELSE {}]

Emit == (phase \in {"read", "bad"}) => PrintT(<<"REPLAY", ToJson(Line)>>)
=============================================================================
