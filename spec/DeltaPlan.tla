----------------------------- MODULE DeltaPlan -----------------------------
(***************************************************************************)
(* How an RRDP update decides between "nothing to do", a run of deltas and *)
(* the snapshot: RepositoryUpdate::delta_update and calc_deltas            *)
(* (src/collector/rrdp/base.rs:1000-1165), the limits                      *)
(* rrdp-max-delta-count and rrdp-max-delta-list-len (doc/routinator.1) and *)
(* the delta list as rpki::rrdp::NotificationFile::parse_limited hands it  *)
(* over (sorted by serial, update.rs:121; "oversized" when more deltas are *)
(* listed than the limit allows).                                          *)
(*                                                                         *)
(* Not one of the listed properties: C25 says that whatever is chosen ends *)
(* in the server's state or in a reported failure.  This module says what  *)
(* is chosen, which is what an operator sees in the metrics                *)
(* (snapshot_reason) and on the wire (a snapshot of a large repository is  *)
(* expensive).  The replay runs every row against the server double and    *)
(* compares the requests made and the reason reported.  The notification   *)
(* file has been fetched and parsed when this starts: a request answered   *)
(* "304 Not Modified" never gets here (Rrdp.tla, not_modified), the replay *)
(* runs the server double without validators.                              *)
(***************************************************************************)
EXTENDS Naturals, Sequences, FiniteSets

CONSTANTS MaxSerial,   \* serials 1..MaxSerial
          Counts,      \* values of rrdp-max-delta-count
          ListLens,    \* values of rrdp-max-delta-list-len
          Variant      \* "code" | "count_off_by_one" (one delta more than configured is still applied)
                       \* | "no_first_check" (a first delta that is too new is not noticed)

Serials == 1..MaxSerial

(* ---- the delta list of the notification file ---- *)
(* A server that retains k deltas lists the serials N-k+1..N (the delta with serial s leads from s-1 to s; the  *)
(* first version of a session has none).  Then one thing may be wrong with the list.                             *)
Range(a, b) == [i \in 1..(IF b >= a THEN b - a + 1 ELSE 0) |-> a + i - 1]
Retained(n, k) == Range(IF n - k + 1 > 2 THEN n - k + 1 ELSE 2, n)

RECURSIVE Without(_, _)
Without(s, x) == IF s = <<>> THEN <<>>
                 ELSE IF Head(s) = x THEN Tail(s) ELSE <<Head(s)>> \o Without(Tail(s), x)
RECURSIVE Doubled(_, _)
Doubled(s, x) == IF s = <<>> THEN <<>>
                 ELSE IF Head(s) = x THEN <<x, x>> \o Tail(s) ELSE <<Head(s)>> \o Doubled(Tail(s), x)

ListFaults == {<<"none", 0>>, <<"drop_last", 0>>, <<"drop_all", 0>>}
                \cup {<<"gap", s>> : s \in Serials} \cup {<<"dup", s>> : s \in Serials}

Listed(n, k, f) ==
  LET base == Retained(n, k)
  IN CASE f[1] = "none"      -> base
       [] f[1] = "drop_last" -> IF base = <<>> THEN base ELSE SubSeq(base, 1, Len(base) - 1)
       [] f[1] = "drop_all"  -> <<>>
       [] f[1] = "gap"       -> Without(base, f[2])
       [] f[1] = "dup"       -> Doubled(base, f[2])

Elems(s) == {s[i] : i \in 1..Len(s)}

VARIABLES same,     \* the notification names the session of the local copy
          local,    \* serial of the local copy
          notified, \* serial of the notification file
          retain, fault, list,
          maxc, maxl,
          plan, done
vars == <<same, local, notified, retain, fault, list, maxc, maxl, plan, done>>

Snapshot(reason) == [kind |-> "snapshot", reason |-> reason, deltas |-> <<>>]
Deltas(s)        == [kind |-> "deltas", reason |-> "-", deltas |-> s]
Nothing          == [kind |-> "nothing", reason |-> "-", deltas |-> <<>>]

Init ==
  /\ same \in BOOLEAN /\ local \in Serials /\ notified \in Serials
  /\ retain \in 1..(MaxSerial - 1) /\ fault \in ListFaults
  /\ (fault[1] \in {"gap", "dup"} => fault[2] \in Elems(Retained(notified, retain)))
  /\ (~same => fault[1] = "none" /\ retain = 1)          \* a new session: the list plays no role
  /\ list = Listed(notified, retain, fault)
  /\ maxc \in Counts /\ maxl \in ListLens
  /\ plan = Nothing /\ done = FALSE

(* calc_deltas, base.rs:1089-1165, on the sorted list *)
RECURSIVE SkipOlder(_, _)
SkipOlder(s, from) == IF s # <<>> /\ Head(s) < from THEN SkipOlder(Tail(s), from) ELSE s     \* :1125-1143

Contiguous(s) == \A i \in 1..(Len(s) - 1) : s[i] + 1 = s[i + 1]                               \* :1146-1153

Calc ==
  IF ~same THEN Snapshot("new-session")                                                       \* :1094-1099
  ELSE IF notified = local THEN Nothing                                                       \* :1103-1105
  ELSE IF list = <<>> \/ list[Len(list)] # notified THEN Snapshot("inconsistent-delta-set")   \* :1111-1118
  ELSE LET rest == SkipOlder(list, local + 1)
       IN IF rest = <<>> THEN Snapshot("inconsistent-delta-set")                              \* :1128-1131
          ELSE IF Head(rest) > local + 1 /\ Variant # "no_first_check" THEN Snapshot("outdate-local")   \* :1134-1139
          ELSE IF ~Contiguous(rest) THEN Snapshot("inconsistent-delta-set")
          ELSE IF Len(rest) > maxc + (IF Variant = "count_off_by_one" THEN 1 ELSE 0)
                 THEN Snapshot("too-many-deltas")                                             \* :1155-1160
          ELSE Deltas(rest)

(* delta_update, base.rs:1000-1025: the oversized list is looked at first *)
Decide ==
  /\ ~done /\ done' = TRUE
  /\ plan' = IF Len(list) > maxl THEN Snapshot("large-delta-set") ELSE Calc
  /\ UNCHANGED <<same, local, notified, retain, fault, list, maxc, maxl>>

Spec == Init /\ [][Decide]_vars

(* ---- what a reader of the manual expects ---- *)
(* Deltas are usable when the notification is of the same session, is ahead, and lists every serial from the one *)
(* after the local copy up to its own exactly once as the tail of the list - and the limits allow it.             *)
Needed == Range(local + 1, notified)
Usable ==
  /\ same /\ notified > local
  /\ Len(list) <= maxl
  /\ Len(Needed) <= maxc
  /\ Len(list) >= Len(Needed)
  /\ SubSeq(list, Len(list) - Len(Needed) + 1, Len(list)) = Needed
  /\ \A i \in 1..(Len(list) - Len(Needed)) : list[i] < local + 1

DeltasExactlyTheMissingOnes == (done /\ plan.kind = "deltas") => plan.deltas = Needed
DeltasWheneverUsable        == done => (plan.kind = "deltas" <=> Usable)
NeverMoreThanConfigured     == (done /\ plan.kind = "deltas") => Len(plan.deltas) <= maxc
NothingOnlyWhenEqual        == (done /\ plan.kind = "nothing") => (same /\ notified = local)
(* an observation, not a requirement: an oversized list costs a snapshot even when the copy is up to date *)
UpToDateCopyNeedsNoSnapshot == (done /\ same /\ notified = local) => plan.kind = "nothing"
=============================================================================
