\* thorough, part 2: every pair of faults in the two multi-repository shapes
SPECIFICATION GSpec
CONSTANTS
  Shapes <- TwoShapes
  MaxFaults = 2
  Configs <- OneConfig
  Threads = 2
INVARIANT Emit
CHECK_DEADLOCK FALSE
