\* the dubious-host filter applied to repositories seen for the first time only (a cache left by a run with the option on): TLC must reject C31_NoDubiousFetch
SPECIFICATION HSpec
CONSTANTS
  Threads = {"T1"}
  Keys = {"k1"}
  MaxCalls = 1
  Order = "insert_then_remove"
  Check2Removes = FALSE
  HostVariant = "unknown_only"
INVARIANTS C31_NoDubiousFetch TableOK
CHECK_DEADLOCK FALSE
