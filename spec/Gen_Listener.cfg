\* connection sequences: 1..4 connections, every subset failing setup, every quiet/burst arrival pattern
SPECIFICATION GSpecA
CONSTANTS
  MaxConn = 4
  MaxAcceptErr = 0
  Variant = "intended"
  Threads = {1}
  Addrs = {1}
  PreLists = {{}}
  RegVariant = "as_coded"
INVARIANT EmitA
CHECK_DEADLOCK FALSE
