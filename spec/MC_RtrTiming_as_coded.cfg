\* the code as it is: TLC reports the zero interval (expected, recorded as an observation)
SPECIFICATION Spec
CONSTANTS
  Refresh = 8
  MaxDur = 3
  Horizon = 20
  Variant = "as_coded"
INVARIANTS RefreshHintInRange
CHECK_DEADLOCK FALSE
