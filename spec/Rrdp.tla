-------------------------------- MODULE Rrdp --------------------------------
(***************************************************************************)
(* Updating the local copy of an RRDP repository:                          *)
(* src/collector/rrdp/base.rs (RepositoryUpdate::try_update, update,       *)
(* not_modified, delta_update, calc_deltas, snapshot_update),               *)
(* src/collector/rrdp/update.rs (Notification::get, check_deltas,           *)
(* DeltaUpdate, SnapshotUpdate), src/collector/rrdp/archive.rs              *)
(* (RepositoryState), src/collector/base.rs (Run::repository).              *)
(*                                                                         *)
(* Server: every version ever published (session, serial, object map,      *)
(* parent version); the notification file announces version `cur`, which   *)
(* may move backwards and forwards (an old notification served again).     *)
(* An object map gives per object 0 (absent) or the index of the version   *)
(* that wrote its content, so contents of different versions differ.       *)
(* The delta of a version lists its changed objects in object order.       *)
(* Faults are chosen where they take effect (notification request, delta   *)
(* list, listed hashes, every delta file at every element, snapshot file)  *)
(* and are paid from a budget.                                             *)
(*                                                                         *)
(* Client: the archive (object map) and its state record (session,         *)
(* serial, listed delta hashes, ETag, expired or not); one action per step *)
(* of the code.  Property C25.                                              *)
(*                                                                         *)
(* Variant "as_shipped" is what the pinned tree does:                      *)
(*  - calc_deltas (base.rs:1054-1118) takes the listed deltas from         *)
(*    serial+1 to the end without looking for gaps or repetitions;         *)
(*  - delta_update (base.rs:1013-1030) applies delta elements to the       *)
(*    archive in place while its state record still carries the old        *)
(*    serial/ETag; when the delta fails half-way and the snapshot fails    *)
(*    too, a later notification with that old serial (or a 304 for the     *)
(*    old ETag) reports the modified archive as up to date.                *)
(* "intended" refuses non-contiguous delta lists and invalidates the state *)
(* record before the first element is applied.  "no_gap_check" and         *)
(* "no_dirty_mark" each keep one of the two defects.                        *)
(***************************************************************************)
EXTENDS Naturals, Sequences, FiniteSets, SequencesExt, TLC

CONSTANTS Objs,        \* object identifiers (naturals)
          MaxVer,      \* server versions per history
          MaxRuns,     \* client runs per history
          MaxFaults,   \* fault budget per history
          EtagModes,   \* subset of BOOLEAN: does the server send an ETag
          WithExpiry,  \* BOOLEAN: may the local copy expire between runs
          Variant      \* "intended" | "as_shipped" | "no_gap_check" | "no_dirty_mark"

GapCheck  == Variant \in {"intended", "no_dirty_mark"}
DirtyMark == Variant \in {"intended", "no_gap_check"}

Serials  == 1..MaxVer
Sessions == 1..MaxVer
NilSession == 0                              \* never used by a server
MinObj == CHOOSE o \in Objs : \A p \in Objs : o <= p

VARIABLES
  vers,      \* server: sequence of [sess, serial, objs, parent]
  cur,       \* server: index of the announced version
  etagOn,    \* server: sends ETag (and honours If-None-Match)
  moved,     \* server: the announced version was moved since the last run
  local,     \* client: [present, sess, serial, objs, dstate, etag, expired]
  pc,        \* client: control state
  notif,     \* client: the notification file of this run
  todo,      \* client: deltas still to apply
  df,        \* fault of the delta file being applied: number of elements that still work, or NoFault
  ei,        \* client: elements of the current delta applied so far
  had,       \* client: a local copy existed when the run started
  wasExp,    \* client: ... and it was expired
  upd,       \* client: RepositoryUpdate::update returned true
  via,       \* how: "notmodified" | "current" | "deltas" | "snapshot" | "none"
  result,    \* LoadResult of the last run
  used,      \* the copy was handed to the validation (Run::repository returned it)
  runs, faults

vars == <<vers, cur, etagOn, moved, local, pc, notif, todo, df, ei, had, wasExp, upd, via, result, used, runs, faults>>

NoFault == 99
OkList == [k |-> "ok", s |-> 0]
NoEtag == [v |-> 0, lf |-> OkList, mut |-> 0]
NoDState == [s \in Serials |-> 0]
NoObjs == [o \in Objs |-> 0]
NoNotif == [sess |-> 0, serial |-> 0, snapv |-> 0, deltas |-> <<>>, etag |-> NoEtag]

InitObjs == [o \in Objs |-> IF o = MinObj THEN 1 ELSE 0]

-----------------------------------------------------------------------------
(* Server side helpers *)

Head1 == Len(vers)
V(i) == vers[i]

RECURSIVE DChain(_)
(* versions whose deltas lead to version i within its session, oldest first *)
DChain(i) == IF V(i).parent = 0 \/ V(V(i).parent).sess # V(i).sess THEN <<>>
             ELSE Append(DChain(V(i).parent), i)

Changed(i) == {o \in Objs : V(i).objs[o] # V(V(i).parent).objs[o]}
(* delta file of version i: [o, from, to] in object order *)
Elems(i) == LET s == SetToSortSeq(Changed(i), LAMBDA a, b : a < b)
            IN [n \in 1..Len(s) |-> [o |-> s[n], from |-> V(V(i).parent).objs[s[n]], to |-> V(i).objs[s[n]]]]

SerOf(c) == [n \in 1..Len(c) |-> V(c[n]).serial]

(* delta list faults applicable to chain c *)
ListFaults(c) ==
  {OkList}
  \cup (IF Len(c) >= 1 THEN {[k |-> "trunc", s |-> 0]} ELSE {})
  \cup (IF Len(c) >= 2 THEN {[k |-> "nodeltas", s |-> 0], [k |-> "nolast", s |-> 0]} ELSE {})
  \cup {[k |-> "gap", s |-> V(c[i]).serial] : i \in 2..(Len(c) - 1)}
  \cup {[k |-> "dup", s |-> V(c[i]).serial] : i \in 1..Len(c)}

RECURSIVE Dup(_, _)
Dup(c, s) == IF c = <<>> THEN <<>>
             ELSE IF V(Head(c)).serial = s THEN <<Head(c), Head(c)>> \o Tail(c)
             ELSE <<Head(c)>> \o Dup(Tail(c), s)

ApplyListFault(c, lf) ==
  CASE lf.k = "ok"       -> c
    [] lf.k = "trunc"    -> Tail(c)
    [] lf.k = "nodeltas" -> <<>>
    [] lf.k = "nolast"   -> SubSeq(c, 1, Len(c) - 1)
    [] lf.k = "gap"      -> SelectSeq(c, LAMBDA i : V(i).serial # lf.s)
    [] lf.k = "dup"      -> Dup(c, lf.s)

(* the notification file for the announced version under list fault lf, *)
(* with the listed hash of serial mut differing from the file's (hash 2) *)
Notification(lf, mut) ==
  LET c == ApplyListFault(DChain(cur), lf)
  IN [sess |-> V(cur).sess, serial |-> V(cur).serial, snapv |-> cur,
      deltas |-> [n \in 1..Len(c) |-> [serial |-> V(c[n]).serial, ver |-> c[n],
                                        hash |-> IF V(c[n]).serial = mut THEN 2 ELSE 1]],
      etag |-> [v |-> cur, lf |-> lf, mut |-> mut]]

ListedSerials(lf) == {V(i).serial : i \in ToSet(ApplyListFault(DChain(cur), lf))}

(* the object map the server published as (sess, serial); 0 objects if never *)
ObjectsAt(sess, serial) ==
  IF \E i \in 1..Len(vers) : V(i).sess = sess /\ V(i).serial = serial
    THEN V(CHOOSE i \in 1..Len(vers) : V(i).sess = sess /\ V(i).serial = serial).objs
    ELSE [o \in Objs |-> MaxVer + 1]       \* matches nothing

-----------------------------------------------------------------------------
Init ==
  /\ vers = << [sess |-> 1, serial |-> 1, objs |-> InitObjs, parent |-> 0] >>
  /\ cur = 1
  /\ etagOn \in EtagModes
  /\ moved = FALSE
  /\ local = [present |-> FALSE, sess |-> NilSession, serial |-> 0, objs |-> NoObjs,
              dstate |-> NoDState, etag |-> NoEtag, expired |-> FALSE]
  /\ pc = "idle" /\ notif = NoNotif /\ todo = <<>> /\ df = NoFault /\ ei = 0
  /\ had = FALSE /\ wasExp = FALSE /\ upd = FALSE /\ via = "none" /\ result = "none" /\ used = FALSE
  /\ runs = 0 /\ faults = 0

cvars == <<local, pc, notif, todo, df, ei, had, wasExp, upd, via, result, used, runs, faults>>

(* The server publishes: the objects in S change; those in W (present ones) *)
(* are withdrawn, the others get new content.                                *)
EnvPublish(S, W) ==
  /\ pc = "idle" /\ Len(vers) < MaxVer /\ cur = Len(vers) /\ ~moved
  /\ S # {} /\ W \subseteq S /\ \A o \in W : V(cur).objs[o] # 0
  /\ LET n == Len(vers) + 1
         objs == [o \in Objs |-> IF o \in W THEN 0 ELSE IF o \in S THEN n ELSE V(cur).objs[o]]
     IN /\ vers' = Append(vers, [sess |-> V(cur).sess, serial |-> V(cur).serial + 1, objs |-> objs, parent |-> cur])
        /\ cur' = n
  /\ UNCHANGED <<etagOn, moved>> /\ UNCHANGED cvars

(* A new session: serial kept or back to 1, object o (0: none) rewritten. *)
EnvNewSession(keep, o) ==
  /\ pc = "idle" /\ Len(vers) < MaxVer /\ cur = Len(vers) /\ ~moved
  /\ o \in Objs \cup {0}
  /\ LET n == Len(vers) + 1
         objs == [p \in Objs |-> IF p = o THEN n ELSE V(cur).objs[p]]
     IN /\ vers' = Append(vers, [sess |-> V(cur).sess + 1, serial |-> IF keep THEN V(cur).serial ELSE 1,
                                  objs |-> objs, parent |-> cur])
        /\ cur' = n
  /\ UNCHANGED <<etagOn, moved>> /\ UNCHANGED cvars

(* An older (or, later, the newest) notification file is served again. *)
EnvAnnounce(v) ==
  /\ pc = "idle" /\ ~moved /\ v \in 1..Len(vers) /\ v # cur
  /\ cur' = v /\ moved' = TRUE
  /\ UNCHANGED <<vers, etagOn>> /\ UNCHANGED cvars

(* Time passes: best-before of the local copy is over. *)
EnvExpire ==
  /\ WithExpiry /\ pc = "idle" /\ local.present /\ ~local.expired
  /\ local' = [local EXCEPT !.expired = TRUE]
  /\ UNCHANGED <<vers, cur, etagOn, moved, pc, notif, todo, df, ei, had, wasExp, upd, via, result, used, runs, faults>>

-----------------------------------------------------------------------------
(* The client: RepositoryUpdate::try_update (base.rs:781) *)

svars == <<vers, cur, etagOn>>

StartRun ==
  /\ pc = "idle" /\ runs < MaxRuns
  /\ pc' = "notify" /\ had' = local.present /\ wasExp' = local.expired
  /\ upd' = FALSE /\ via' = "none" /\ result' = "none" /\ used' = FALSE
  /\ notif' = NoNotif /\ todo' = <<>> /\ df' = NoFault /\ ei' = 0 /\ moved' = FALSE
  /\ UNCHANGED svars /\ UNCHANGED <<local, runs, faults>>

Cost(nf, lf, mut) == (IF nf # "ok" THEN 1 ELSE 0) + (IF lf # OkList THEN 1 ELSE 0) + (IF mut # 0 THEN 1 ELSE 0)

(* Notification::get (update.rs:52): conditional request, HTTP error, 304, parse.  *)
(* nf: "ok" | "err" (request fails) | "xml" (not parseable); lf: delta list fault; *)
(* mut: serial whose listed hash is mutated.                                        *)
GetNotify(nf, lf, mut) ==
  /\ pc = "notify"
  /\ nf \in {"ok", "err", "xml"} /\ lf \in ListFaults(DChain(cur)) /\ mut \in {0} \cup ListedSerials(lf)
  /\ nf # "ok" => (lf = OkList /\ mut = 0)
  /\ faults + Cost(nf, lf, mut) <= MaxFaults
  /\ faults' = faults + Cost(nf, lf, mut)
  /\ LET n == Notification(lf, mut) IN
     IF nf # "ok"
       THEN /\ pc' = "classify"                                  \* update.rs:69-88,111: Err -> Ok(false)
            /\ UNCHANGED <<local, notif, upd, via>>
     ELSE IF local.present /\ etagOn /\ local.etag = n.etag
       THEN /\ pc' = "classify"                                  \* 304: not_modified (base.rs:878): touch
            /\ local' = [local EXCEPT !.expired = FALSE]
            /\ upd' = TRUE /\ via' = "notmodified"
            /\ UNCHANGED notif
     ELSE /\ notif' = n
          /\ pc' = IF local.present THEN "check" ELSE "snapshot"  \* base.rs:861-874
          /\ UNCHANGED <<local, upd, via>>
  /\ UNCHANGED svars /\ UNCHANGED <<moved, todo, df, ei, had, wasExp, result, used, runs>>

(* Notification::check_deltas (update.rs:152): hashes listed now against those stored *)
CheckDeltas ==
  /\ pc = "check"
  /\ pc' = IF \E n \in 1..Len(notif.deltas) :
                 local.dstate[notif.deltas[n].serial] \notin {0, notif.deltas[n].hash}
             THEN "snapshot" ELSE "calc"
  /\ UNCHANGED svars /\ UNCHANGED <<moved, local, notif, todo, df, ei, had, wasExp, upd, via, result, used, runs, faults>>

RECURSIVE DropBelow(_, _)
DropBelow(ds, s) == IF ds = <<>> \/ Head(ds).serial >= s THEN ds ELSE DropBelow(Tail(ds), s)

Contiguous(ds) == \A n \in 1..(Len(ds) - 1) : ds[n + 1].serial = ds[n].serial + 1

(* calc_deltas (base.rs:1054) *)
CalcDeltas ==
  /\ pc = "calc"
  /\ LET ds == notif.deltas                          \* sorted by serial (update.rs:121)
         rest == DropBelow(ds, local.serial + 1)
         ToSnapshot == pc' = "snapshot" /\ UNCHANGED <<todo, local, via>>
     IN IF notif.sess # local.sess THEN ToSnapshot                               \* NewSession
        ELSE IF notif.serial = local.serial                                      \* nothing to do: state only
          THEN pc' = "state" /\ via' = "current" /\ UNCHANGED <<todo, local>>
        ELSE IF ds = <<>> \/ ds[Len(ds)].serial # notif.serial THEN ToSnapshot    \* BadDeltaSet
        ELSE IF rest = <<>> THEN ToSnapshot                                      \* ran out of deltas
        ELSE IF Head(rest).serial > local.serial + 1 THEN ToSnapshot             \* OutdatedLocal
        ELSE IF GapCheck /\ ~Contiguous(rest) THEN ToSnapshot                    \* (intended only)
        ELSE /\ todo' = rest /\ pc' = "delta" /\ via' = "deltas"
             /\ local' = IF DirtyMark
                           THEN [local EXCEPT !.sess = NilSession, !.etag = NoEtag, !.dstate = NoDState]
                           ELSE local
  /\ UNCHANGED svars /\ UNCHANGED <<moved, notif, df, ei, had, wasExp, upd, result, used, runs, faults>>

(* DeltaUpdate::try_update (update.rs:332): request the file of the next delta.     *)
(* f: NoFault, or the number of elements that are processed before the file fails   *)
(* (0: request error / wrong session or serial / first element bad; number of       *)
(* elements: everything applies but the hash of the file differs).                  *)
FetchDelta(f) ==
  /\ pc = "delta" /\ todo # <<>>
  /\ f \in {NoFault} \cup 0..Len(Elems(Head(todo).ver))
  /\ faults + (IF f = NoFault THEN 0 ELSE 1) <= MaxFaults
  /\ faults' = faults + (IF f = NoFault THEN 0 ELSE 1)
  /\ df' = f /\ ei' = 0 /\ pc' = "elem"
  /\ UNCHANGED svars /\ UNCHANGED <<moved, local, notif, todo, had, wasExp, upd, via, result, used, runs>>

ElemOk(e) == IF e.from = 0 THEN local.objs[e.o] = 0        \* publish: must not exist (update.rs:406)
             ELSE local.objs[e.o] = e.from                 \* update / withdraw: must exist with that hash

(* ProcessDelta::publish / withdraw (update.rs:379-439) on the archive in place, *)
(* then verify_hash (update.rs:353).                                             *)
ApplyElem ==
  /\ pc = "elem"
  /\ LET d == Head(todo)
         es == Elems(d.ver)
     IN IF df = ei THEN pc' = "snapshot" /\ UNCHANGED <<local, todo, ei>>               \* the file fails here
        ELSE IF ei = Len(es)
          THEN IF d.hash # 1 THEN pc' = "snapshot" /\ UNCHANGED <<local, todo, ei>>      \* DeltaHashMismatch
               ELSE /\ todo' = Tail(todo) /\ ei' = 0
                    /\ pc' = IF Tail(todo) = <<>> THEN "state" ELSE "delta"
                    /\ UNCHANGED local
        ELSE IF ~ElemOk(es[ei + 1]) THEN pc' = "snapshot" /\ UNCHANGED <<local, todo, ei>>
        ELSE /\ local' = [local EXCEPT !.objs[es[ei + 1].o] = es[ei + 1].to]
             /\ ei' = ei + 1 /\ UNCHANGED <<pc, todo>>
  /\ UNCHANGED svars /\ UNCHANGED <<moved, notif, df, had, wasExp, upd, via, result, used, runs, faults>>

DStateOf(n) == [s \in Serials |-> IF \E k \in 1..Len(n.deltas) : n.deltas[k].serial = s
                                   THEN n.deltas[CHOOSE k \in 1..Len(n.deltas) : n.deltas[k].serial = s].hash
                                   ELSE 0]

(* archive.update_state(notify.to_repository_state()) (base.rs:1035) *)
UpdateState ==
  /\ pc = "state"
  /\ local' = [local EXCEPT !.sess = notif.sess, !.serial = notif.serial, !.dstate = DStateOf(notif),
                            !.etag = notif.etag, !.expired = FALSE]
  /\ upd' = TRUE /\ pc' = "classify"
  /\ UNCHANGED svars /\ UNCHANGED <<moved, notif, todo, df, ei, had, wasExp, via, result, used, runs, faults>>

(* snapshot_update (base.rs:898) + SnapshotUpdate::try_update (update.rs:198): the   *)
(* snapshot goes into a temporary archive; only a complete, hash-verified one        *)
(* replaces the archive (remove + rename).  sf: "ok" | "fail" (any failure).          *)
Snapshot(sf) ==
  /\ pc = "snapshot" /\ sf \in {"ok", "fail"}
  /\ faults + (IF sf = "fail" THEN 1 ELSE 0) <= MaxFaults
  /\ faults' = faults + (IF sf = "fail" THEN 1 ELSE 0)
  /\ IF sf = "ok"
       THEN /\ local' = [present |-> TRUE, sess |-> notif.sess, serial |-> notif.serial,
                         objs |-> V(notif.snapv).objs, dstate |-> DStateOf(notif),
                         etag |-> notif.etag, expired |-> FALSE]
            /\ upd' = TRUE /\ via' = "snapshot"
       ELSE via' = "none" /\ UNCHANGED <<local, upd>>
  /\ pc' = "classify"
  /\ UNCHANGED svars /\ UNCHANGED <<moved, notif, todo, df, ei, had, wasExp, result, used, runs>>

(* try_update (base.rs:815-832) and Run::repository (collector/base.rs:190) *)
Classify ==
  /\ pc = "classify"
  /\ result' = IF upd THEN "Updated" ELSE IF had /\ ~wasExp THEN "Current"
               ELSE IF had THEN "Stale" ELSE "Unavailable"
  /\ used' = upd
  /\ runs' = runs + 1 /\ pc' = "done"
  /\ notif' = NoNotif /\ todo' = <<>> /\ df' = NoFault /\ ei' = 0      \* scratch state of the run
  /\ UNCHANGED svars /\ UNCHANGED <<moved, local, had, wasExp, upd, via, faults>>

Finish ==
  /\ pc = "done" /\ pc' = "idle"
  /\ had' = FALSE /\ wasExp' = FALSE /\ upd' = FALSE /\ via' = "none" /\ used' = FALSE /\ result' = "none"
  /\ UNCHANGED svars /\ UNCHANGED <<moved, local, notif, todo, df, ei, runs, faults>>

-----------------------------------------------------------------------------
Env == \/ \E S \in SUBSET Objs : \E W \in SUBSET S : Cardinality(S) <= 2 /\ EnvPublish(S, W)
       \/ \E keep \in BOOLEAN, o \in Objs \cup {0} : EnvNewSession(keep, o)
       \/ \E v \in 1..MaxVer : EnvAnnounce(v)
       \/ EnvExpire

Client == \/ StartRun
          \/ \E nf \in {"ok", "err", "xml"}, lf \in ListFaults(DChain(cur)), mut \in {0} \cup Serials : GetNotify(nf, lf, mut)
          \/ CheckDeltas \/ CalcDeltas
          \/ \E f \in {NoFault} \cup 0..Cardinality(Objs) : FetchDelta(f)
          \/ ApplyElem \/ UpdateState
          \/ \E sf \in {"ok", "fail"} : Snapshot(sf)
          \/ Classify \/ Finish

Next == Env \/ Client
Spec == Init /\ [][Next]_vars

-----------------------------------------------------------------------------
TypeOK ==
  /\ cur \in 1..Len(vers) /\ Len(vers) <= MaxVer
  /\ \A i \in 1..Len(vers) : V(i).sess \in Sessions /\ V(i).serial \in Serials /\ V(i).parent \in 0..(i - 1)
  /\ local.sess \in Sessions \cup {NilSession} /\ local.serial \in Serials \cup {0}
  /\ pc \in {"idle", "notify", "check", "calc", "delta", "elem", "state", "snapshot", "classify", "done"}
  /\ result \in {"none", "Updated", "Current", "Stale", "Unavailable"}
  /\ faults <= MaxFaults /\ runs <= MaxRuns

(* (session, serial) names one version *)
VersionsDistinct ==
  \A i, j \in 1..Len(vers) : (V(i).sess = V(j).sess /\ V(i).serial = V(j).serial) => i = j

(* C25, first half, as stated: an update reported successful leaves the local *)
(* copy equal to the server's snapshot at the notified serial.                 *)
C25_UpdatedIsSnapshotAtSerial ==
  (pc = "done" /\ result = "Updated") =>
     /\ local.present
     /\ local.sess = V(cur).sess
     /\ local.objs = ObjectsAt(local.sess, local.serial)

(* ... and the notified serial is the one the server announces now. *)
C25_UpdatedIsAnnounced ==
  (pc = "done" /\ result = "Updated") =>
     /\ local.serial = V(cur).serial /\ local.objs = V(cur).objs

(* C25, second half: otherwise the repository is reported as not updated and *)
(* its copy is not used in that run.                                         *)
C25_FailureNotUsed ==
  (pc = "done" /\ result # "Updated") => (~used /\ result \in {"Current", "Stale", "Unavailable"})

(* A failed run with nothing stored before reports Unavailable. *)
C25_NoCopyUnavailable ==
  (pc = "done" /\ ~had /\ ~upd) => result = "Unavailable"
=============================================================================
