\* as shipped (expected to FAIL): modulus 16 (undefined comparison at distance 8), every start serial,
\* history sizes 0..3, 3 data sets, <= 5 runs (incl. failed runs); every client serial
\* and own/foreign session is evaluated in every reachable state.
SPECIFICATION Spec
CONSTANTS
  M = 16
  Keeps = {0, 1, 2, 3}
  Sets = {0, 1, 2}
  MaxRuns = 5
  Bases = {0,1,2,3,4,5,6,7,8,9,10,11,12,13,14,15}
  Variant = "as_shipped"
CONSTRAINT RunBound
INVARIANTS C13 C14_Bounded C14_Consecutive C14_SerialCarried C14_FirstIsZero
PROPERTIES C14_Step C33_FailedRunChangesNothing
CHECK_DEADLOCK FALSE
