\* quick and thorough: shape "halves" with every set of at most two rejected publication points
\* (manifest missing / expired / hash mismatch / stale), for each unsafe-vrps policy
SPECIFICATION GSpec
CONSTANTS
  Shapes <- UnsafeShapes
  MaxFaults = 2
  Configs <- UnsafeConfigs
  Threads = 2
  KindOk <- PointFaultsOnly
INVARIANT Emit
CHECK_DEADLOCK FALSE
