\* export of every row
SPECIFICATION Spec
CONSTANTS
  Production = {"afrinic", "apnic", "arin", "lacnic", "ripe"}
  OtherBundled = {"nlnetlabs-testbed"}
  Unknown = "no-such-tal"
  Variant = "code"
INVARIANT Emit
CHECK_DEADLOCK FALSE
