\* seeded fault fault_sep_keeps_first: TLC must reject this configuration (teeth of the model)
\* bound: both streams, per payload type at most one item (announced or withdrawn), every threshold
SPECIFICATION Spec
CONSTANTS
  Shapes <- ShapesTiny
  Modes = {"delta", "reset"}
  SzHdr = 2
  SzSep = 2
  SzFoot = 1
  SzO = 1
  SzK = 2
  SzA = 3
  Variant = "fault_sep_keeps_first"
INVARIANTS TypeOK Counter C18_Prefix C18_Exact C18_Progress Chunking
CHECK_DEADLOCK TRUE
