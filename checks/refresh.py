"""C39 — Refresh.tla (refresh deadline of the served data set) against the real engine on generated trees."""
import lib

MUTANTS = ["nocrl", "noobj", "noinherit", "nomftee"]


def _run(ctx):
    lib.tlc(ctx, "mc", "MC_Refresh.tla", "MC_Refresh_thorough.cfg" if ctx.thorough else "MC_Refresh.cfg",
            workers=4, timeout=1800)
    for name in MUTANTS:
        bad = lib.tlc(ctx, "mc_" + name, "MC_Refresh.tla", "MC_Refresh_%s.cfg" % name, workers=2, timeout=600,
                      expect_ok=False, count=False)
        with open(bad["out"], errors="replace") as f:
            if "Invariant C39_RefreshWithinBound is violated" not in f.read():
                raise lib.ToolError("mutant %s of Refresh.tla is not rejected by C39_RefreshWithinBound" % name)
    gens = ["Gen_Refresh_thorough.cfg", "Gen_Refresh_thorough2.cfg"] if ctx.thorough else ["Gen_Refresh.cfg", "Gen_Refresh_pairs.cfg"]
    results, total = [], 0
    for i, cfg in enumerate(gens):
        gen = lib.tlc(ctx, "gen%d" % i, "Gen_Refresh.tla", cfg, workers=4, timeout=2400, count=False)
        beh = ctx.path("refresh%d.ndjson" % i)
        n = lib.extract_replays(gen["out"], beh)
        if n == 0:
            raise lib.ToolError("no behaviours exported by %s" % cfg)
        total += n
        res = lib.vh(ctx, "refresh", beh, out_name="refresh%d" % i, cacheable=True, timeout=3000)
        results.append(res["per_property"]["C39"])
    r = lib.merge_results(*results)
    ctx.extra["worlds_exported"] = total
    ctx.assumptions += [
        "abstract times are hours from the factory's now (5 / 9 / 30 h), so every object is valid with >= 5 h slack",
        "the bound is evaluated on what the run really served (VRP -> ROA -> chain), not on the model's prediction",
        "each world is validated twice on a fresh cache: manifest entries in file-name order (hook H8) and in the real shuffled "
        "order; validation-threads in {1, 2, 4}; the thread schedule is not controlled",
        "in the model the per-point refresh value depends on the entry order, the minimum over the committed points does not "
        "(TLC invariant SnapshotOrderIndependent); the replay therefore expects the same value in both passes and would log "
        "an order-dependent value inside the model's window as no divergence",
        "the deadline of what is served: pairs of fault-free worlds with the same payload, the second expiring earlier, are "
        "validated one after the other and installed in one SharedHistory (the Install step of RunLoop.tla, which replaces the "
        "snapshot also when the payload did not change); the snapshot the history hands out afterwards must carry the second "
        "world's deadline (24 pairs, thorough 120, per exported set)",
    ]
    rule = ("every exported world (TA -> CA2 -> {CA3, CA4}, 5 ROAs; 21 timed elements: 4 CA certificates, per CA manifest EE "
            "notAfter / manifest nextUpdate / CRL nextUpdate, per ROA EE notAfter; up to two of them short; none, one or two "
            "faulty ROAs / CA certificates, BadSig or Expired) is built as real signed objects and validated twice; oracle: "
            "snapshot.refresh() <= now + Min over served ROAs of Min(times on its chain, its own time); non-trivial = the bound "
            "is set by a short element, distinct by (short elements, faults, fault kind)")
    return lib.finish(ctx, r, rule, exhaustive=True)


_NOTE = ("TLC checks Refresh.tla: the operational model (task queue, point_validity, manifest entries in every order, "
         "update_refresh per contributing ROA, new_ca inheriting the parent's current value, commit only with payload, minimum "
         "over committed points) never exceeds the declarative bound, per point and for the snapshot, and four mutants (CRL "
         "nextUpdate ignored, manifest EE ignored, ROA EE ignored, no inheritance from the parent) are rejected. Every world is "
         "replayed through the unmodified engine; the observed refresh equals the model value in all worlds. Not covered: router "
         "certificates and ASPA objects (same update_refresh call), RRDP, SLURM. The stored-data path after an aborted update "
         "and the snapshot served after a second run with unchanged payload are replayed as two-run histories.")
_TECH = ("TLA+ model of the refresh-time computation (Refresh.tla) checked by TLC against a declarative bound; every exported world "
         "replayed as real signed objects through the engine")

CHECKS = {
    "C39": {"run": _run, "engine": "Refresh", "technique": _TECH, "design_ref": "4/C39", "level_note": _NOTE,
            "level_text": "All worlds within the bound: every single and every pair of the 21 expiry-carrying elements shortened "
                          "(values 5 h / 9 h against 30 h), with and without objects / CAs that contribute nothing; quick: single "
                          "short element x faults, plus all fault-free pairs; thorough: all pairs x faults."},
}
