"""C24 — RrdpCrash.tla: the RRDP client killed at every write step of a snapshot or delta update; later runs."""
import lib


def _run(ctx):
    th = ctx.thorough
    # 1. the design under kills
    lib.tlc(ctx, "mc_rrdpcrash", "MC_RrdpCrash.tla", "MC_RrdpCrash_thorough.cfg" if th else "MC_RrdpCrash.cfg",
            workers=8, timeout=3000)
    if th:
        lib.tlc(ctx, "mc_rrdpcrash_3obj", "MC_RrdpCrash.tla", "MC_RrdpCrash_thorough3.cfg", workers=8, timeout=3000)
        lib.tlc(ctx, "mc_rrdpcrash_pre_fix", "MC_RrdpCrash.tla", "MC_RrdpCrash_pre_fix.cfg", workers=8, timeout=1500)
        lib.tlc(ctx, "mc_rrdpcrash_no_precond", "MC_RrdpCrash.tla", "MC_RrdpCrash_no_precond.cfg", workers=8, timeout=1500)
    for v in ("state_first", "in_place", "keeps_lm"):
        bad = lib.tlc(ctx, "mc_rrdpcrash_bad_" + v, "MC_RrdpCrash.tla", "MC_RrdpCrash_bad_%s.cfg" % v, workers=4,
                      timeout=900, expect_ok=False, count=False)
        with open(bad["out"], errors="replace") as f:
            if "Invariant C24_ReportedMeansEqual is violated" not in f.read():
                raise lib.ToolError("the seeded fault %s of RrdpCrash.tla is not rejected by TLC" % v)
    # 2. scenarios
    gen = lib.tlc(ctx, "gen_rrdpcrash", "Gen_RrdpCrash.tla", "Gen_RrdpCrash.cfg", workers=4, timeout=900, count=False)
    beh = ctx.path("rrdpcrash.ndjson")
    n = lib.extract_replays(gen["out"], beh)
    if n == 0:
        raise lib.ToolError("no scenarios exported by Gen_RrdpCrash")
    # 3. replay: crash states of every kill point (observer copies, a share cross-checked with real kills), follow-up runs
    per_shape = 6 if th else 2
    res = lib.vh(ctx, "rrdpcrash", beh, opts={"per_shape": per_shape, "real_kills": 40 if th else 12, "jobs": 12}, timeout=6000)
    r = res["per_property"]["C24"]
    notes = r.get("notes", {})
    if r.get("evaluations", 0) == 0 or notes.get("kill_points", 0) == 0:
        raise lib.ToolError("no kill point was exercised: " + "; ".join(r.get("divergences", [])[:3]))
    if notes.get("real_kill_differs_from_observed", 0):
        raise lib.ToolError("the observer's copies do not show what a killed process leaves behind (%d cases): the crash states "
                            "of this run cannot be trusted" % notes["real_kill_differs_from_observed"])
    if notes.get("crash_states_outside_model", 0) or notes.get("model_states_never_seen", 0):
        lib.log("C24: %d crash states outside the model, %d model states never seen at a kill point (see evidence)"
                % (notes.get("crash_states_outside_model", 0), notes.get("model_states_never_seen", 0)))
    ctx.extra["scenarios_exported"] = n
    ctx.assumptions += [
        "kill points (hook H2): before every piece written to archive storage (header fields, name, meta data, data, padding; "
        "memory-mapped overwrites and appends alike), before every truncate, before the remove and the rename of the snapshot "
        "update, before and after the state write of the delta update; power loss / write-back ordering is out of scope",
        "the crash state of kill point k is the cache directory copied by a kill point observer at that point of one "
        "uninterrupted run (what the file system shows is what a killed process leaves); for a share of the scenarios "
        "(notes.scenarios_with_real_kills) a forked child really sends itself SIGKILL at its k-th kill point and the result "
        "must classify the same, otherwise the check stops as a tool error",
        "the server is honest and reachable after the kill (RRDP server double through hook H1); dishonest servers are C25",
        "a client run is collector::Run::repository(ca)",
    ]
    rule = ("scenarios = server histories of 2..3 versions over 2 objects x 2 contents with and without new sessions x the "
            "version the client is synced to, %d per shape (sequence of model steps and element kinds); per scenario the client "
            "run is killed at every kill point it passes; after each kill the archive is read back (conformance with the crash "
            "states of RrdpCrash.tla, in order) and follow-up runs on copies of the crashed cache (same version, one more "
            "version, new session, a cache presenting the old notification again with and without ETag%s) must, when they report the repository as updated, leave the archive at the announced "
            "(session, serial) with exactly the server's objects; evaluations = crash states + follow-up runs; distinct by "
            "(shape, kill point name)") % (per_shape, ", a second kill then another run" if th else "")
    return lib.finish(ctx, r, rule, exhaustive=False,
                      explanation="the scenario list is exhaustive for the bounds (%d); %d per shape are replayed, chosen by VERIF_SEED" % (n, per_shape))


CHECKS = {
    "C24": {"run": _run, "engine": "RrdpCrash",
            "technique": "TLA+ model of the snapshot and delta update of one RRDP repository with Kill between (and inside) the "
                         "write steps (RrdpCrash.tla) checked by TLC; the real collector killed at every numbered kill point in a "
                         "forked child against an RRDP server double, crash states validated against the model, follow-up runs judged",
            "level_text": "TLC: 2 objects x 2 contents, 3 server versions with new sessions and stale caches, 2 kills, 4 client runs "
                          "(thorough: 4 versions; 3 objects, 3 kills, 5 runs), all interleavings; three seeded faults (state written first, "
                          "snapshot in place, mark keeps Last-Modified) rejected. Replay: every kill point of sampled runs of every shape, "
                          "five follow-up histories each.",
            "level_note": "TLC also shows that the tree before the dirty mark (and even without hash preconditions) is safe against "
                          "kills alone; the preconditions and the mark matter for dishonest servers (C25). Trusted: the server double, "
                          "the read-back of the archive through RrdpArchive::open/objects, the placement of the kill points (a write "
                          "step without a kill point shows up as a model state never seen).",
            "design_ref": "4/C24"},
}
