"""C32, C33, C34 — RunLoop.tla against the real command loops, Server::process_once and refresh_wait."""
import lib


def _validate_trace(ctx, r, trace):
    """The events recorded by the H4 hooks during the C33 runs (RunStart, RunFailed, Install, MarkDone, Notify and every
    HTTP / RTR read) must be a behaviour of Trace_Serve.tla: nothing is installed, marked or notified between RunStart and
    RunFailed, and every read sees the serial of the last Install."""
    import os
    import re
    import shutil
    if not os.path.exists(trace) or os.path.getsize(trace) == 0:
        raise lib.ToolError("the C33 runs recorded no trace")
    env = {"TRACE": trace, "JAVA_TOOL_OPTIONS": "-Xss1g -Dtlc2.tool.queue.IStateQueue=StateDeque"}
    t = lib.tlc(ctx, "trace_c33", "Trace_Serve.tla", "Trace_Serve.cfg", workers=1, timeout=1500, env_extra=env,
                expect_ok=False, count=False, cacheable=False)
    with open(t["out"], errors="replace") as f:
        out = f.read()
    accepted = t["rc"] == 0 and "No error has been found" in out and "TRACE-REJECTED" not in out
    if not accepted and "TRACE-REJECTED" not in out:
        raise lib.ToolError("TLC could not validate the trace (rc=%s): %s" % (t["rc"], out[-300:].replace("\n", " ")))
    with open(trace) as f:
        lines = f.read().splitlines()
    notes = r.setdefault("notes", {})
    notes["trace_events"] = len(lines)
    notes["trace_failed_runs"] = sum(1 for l in lines if '"ev":"RunFailed"' in l)
    notes["trace_accepted"] = accepted
    if notes["trace_failed_runs"] == 0:
        raise lib.ToolError("the recorded trace holds no failed run")
    if not accepted:
        m = re.search(r"TRACE-REJECTED.*", out)
        keep = os.path.join(lib.REPLAYS, "C33-trace-%d.ndjson" % ctx.seed)
        os.makedirs(lib.REPLAYS, exist_ok=True)
        shutil.copyfile(trace, keep)
        r.setdefault("violations", []).append({
            "sig": "trace-rejected", "detail": "the recorded execution of the update cycles is not a behaviour of Trace_Serve.tla: "
            + (m.group(0)[:400] if m else out[-400:]), "behaviour": {"trace_file": keep}, "observed": {}})
        return
    # teeth: an Install smuggled into a failed run must be rejected
    bad = ctx.path("c33_trace_corrupt.ndjson")
    done = False
    with open(bad, "w") as f:
        for l in lines:
            if not done and '"ev":"RunFailed"' in l:
                f.write(re.sub(r'"ev":"RunFailed"', '"ev":"Install","serial":9,"ndeltas":1,"changed":1', l) + "\n")
                done = True
            f.write(l + "\n")
    t2 = lib.tlc(ctx, "trace_c33_corrupt", "Trace_Serve.tla", "Trace_Serve.cfg", workers=1, timeout=600, env_extra=dict(env, TRACE=bad),
                 expect_ok=False, count=False, cacheable=False)
    with open(t2["out"], errors="replace") as f:
        if "TRACE-REJECTED" not in f.read():
            raise lib.ToolError("a trace with an Install inside a failed run is accepted by Trace_Serve.tla: no teeth")
    notes["corrupted_trace_rejected"] = True


def _run(ctx):
    pid = ctx.pid
    lib.tlc(ctx, "mc_runloop", "MC_RunLoop.tla", "MC_RunLoop_thorough.cfg" if ctx.thorough else "MC_RunLoop.cfg", workers=2, timeout=1200)
    if pid == "C34":
        b3 = lib.tlc(ctx, "mc_runloop_bad_keep_snapshot", "MC_RunLoop.tla", "MC_RunLoop_bad_keep_snapshot.cfg", workers=2, timeout=600,
                     expect_ok=False, count=False)
        with open(b3["out"], errors="replace") as f:
            txt = f.read()
            # a constant-level invariant: TLC evaluates it before the first state ("is equal to FALSE")
            if "Invariant C34_LatestRunCounts is violated" not in txt and "invariant of C34_LatestRunCounts is equal to FALSE" not in txt:
                raise lib.ToolError("the seeded fault keep_unchanged_snapshot of RunLoop.tla is not rejected by TLC")
        b4 = lib.tlc(ctx, "mc_runloop_bad_past_start", "MC_RunLoop.tla", "MC_RunLoop_bad_past_start.cfg", workers=2, timeout=600,
                     expect_ok=False, count=False)
        with open(b4["out"], errors="replace") as f:
            txt = f.read()
            if "Invariant C34_Table is violated" not in txt and "invariant of C34_Table is equal to FALSE" not in txt:
                raise lib.ToolError("the seeded fault past_start_waits_refresh of RunLoop.tla is not rejected by TLC")
    if pid == "C32":
        b5 = lib.tlc(ctx, "mc_runloop_bad_sanitize", "MC_RunLoop.tla", "MC_RunLoop_bad_sanitize.cfg", workers=2, timeout=600,
                     expect_ok=False, count=False)
        with open(b5["out"], errors="replace") as f:
            if "is violated" not in f.read():
                raise lib.ToolError("the seeded fault retry_despite_failed_sanitize of RunLoop.tla is not rejected by TLC")
    bad = lib.tlc(ctx, "mc_runloop_as_shipped", "MC_RunLoop.tla", "MC_RunLoop_as_shipped.cfg", workers=2, timeout=600,
                  expect_ok=False, count=False)
    with open(bad["out"], errors="replace") as f:
        if "Invariant C32_OneShotTerminates is violated" not in f.read():
            raise lib.ToolError("the as_shipped variant of RunLoop.tla is not rejected by TLC")
    if pid == "C33":
        # the update cycle at the grain of its calls, with failures at the start, at any publication point and in the cleanup
        lib.tlc(ctx, "mc_processonce", "MC_ProcessOnce.tla", "MC_ProcessOnce.cfg", workers=2, timeout=600)
        for v, inv in (("flags_split", "ServedIsComplete"), ("install_first", "C33_FailedRunChangesNothing")):
            b2 = lib.tlc(ctx, "mc_processonce_bad_" + v, "MC_ProcessOnce.tla", "MC_ProcessOnce_bad_%s.cfg" % v, workers=2, timeout=600,
                         expect_ok=False, count=False)
            with open(b2["out"], errors="replace") as f:
                if ("Invariant %s is violated" % inv) not in f.read():
                    raise lib.ToolError("the seeded fault %s of ProcessOnce.tla is not rejected by TLC" % v)
    if pid == "C32":
        # the wait between runs and the user signals (not a listed property; the replay records mismatches as divergences)
        lib.tlc(ctx, "mc_serversignals", "MC_ServerSignals.tla", "MC_ServerSignals.cfg", workers=2, timeout=600)
        for v, inv in (("rotate_restarts_wait", "DeadlineKept"), ("reload_ignored_while_running", "ReloadNotLost")):
            b4 = lib.tlc(ctx, "mc_serversignals_bad_" + v, "MC_ServerSignals.tla", "MC_ServerSignals_bad_%s.cfg" % v, workers=2,
                         timeout=600, expect_ok=False, count=False)
            with open(b4["out"], errors="replace") as f:
                if ("Invariant %s is violated" % inv) not in f.read():
                    raise lib.ToolError("the seeded fault %s of ServerSignals.tla is not rejected by TLC" % v)
    gen = lib.tlc(ctx, "gen_runloop", "MC_RunLoop.tla", "Gen_RunLoop_thorough.cfg" if ctx.thorough else "Gen_RunLoop.cfg",
                  workers=1, timeout=1200, count=False)
    beh = ctx.path("runloop.ndjson")
    n = lib.extract_replays(gen["out"], beh)
    if n == 0:
        raise lib.ToolError("no behaviours exported by Gen_RunLoop")
    trace = ctx.path("c33_trace.ndjson")
    res = lib.vh(ctx, "runloop", beh, props=[pid], opts={"trace": trace} if pid == "C33" else None, timeout=3000)
    r = res["per_property"][pid]
    if pid == "C33":
        _validate_trace(ctx, r, trace)
    if pid == "C34" and r.get("distinct_nontrivial", 0) == 0:
        raise lib.ToolError("no non-trivial row of the refresh table was realised: " + "; ".join(r.get("divergences", [])[:2]))
    if r.get("notes", {}).get("child_errors", 0) > 0:
        raise lib.ToolError("child processes could not run the command")
    ctx.assumptions += [
        "hook H5 forces the outcome of every validation run at the start of ValidationReport::process; failures inside the "
        "run (C33) come from the world: a truncated (fatal) or missing (initial run: retry) stored publication point on a real "
        "repository, with one and three validation threads; a failure in the cleanup is in the model only",
        "the commands run through Operation::run in a child process of the harness (what main.rs does), with an empty TAL directory",
        "C34 tolerates +-10 s on waits given in units of 100 s",
    ]
    rules = {
        "C32": "every outcome sequence (ok / retryable / fatal) of length <= 4 (thorough 5) for vrps, validate, update and server: the real "
               "command runs in a child process; observed number of validation runs, exit status, termination (a command reaching 50 "
               "runs counts as looping forever); non-trivial = sequence with a retryable failure",
        "C33": "every outcome sequence with at least one failure on a real server fixture: around each failed run the serial, ETag, "
               "served /json data, RTR reset answer are compared and a pending notify long-poll must stay pending; the same around "
               "runs that fail after part of the tree has been validated (damaged store on a real repository)",
        "C34": "full table refresh x min-refresh (or unset) x data-set expiry (or none) in units of 100 s: a real run over a generated "
               "repository whose manifest expires at the chosen time, then mark_update_done and refresh_wait; every row with min-refresh "
               "also after an earlier run with the same payload whose data set expired at another time; non-trivial = min-refresh "
               "set and different from refresh, or expiry before the refresh point",
    }
    return lib.finish(ctx, r, rules[pid], exhaustive=True)


_NOTE = ("TLC checks the transcribed loops for every outcome sequence within the bound and rejects the as_shipped vrps loop; "
         "every exported sequence is replayed on the real code. Trusted: hook H5, child-process plumbing.")
_TECH = "TLA+ model of the command run loops and the refresh schedule (RunLoop.tla) checked by TLC; every outcome sequence / table row replayed on the real code"

CHECKS = {
    "C32": {"run": _run, "engine": "RunLoop", "technique": _TECH, "design_ref": "4/C32", "level_note": _NOTE,
            "level_text": "All sequences of run outcomes up to the bound for all four commands, replayed with the real command code."},
    "C33": {"run": _run, "engine": "RunLoop", "technique": _TECH, "design_ref": "4/C33", "level_note": _NOTE,
            "level_text": "All interleavings of successful and failed runs up to the bound against a real server; every observable compared around each failed run. "
                          "ProcessOnce.tla: failure at the start, at every publication point (any worker order) and in the cleanup, two seeded faults rejected."},
    "C34": {"run": _run, "engine": "RunLoop", "technique": _TECH, "design_ref": "4/C34", "level_note": _NOTE,
            "level_text": "Complete refresh / min-refresh / expiry table (100 rows) against the real history with real data-set expiry times."},
}
