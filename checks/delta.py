"""C11, C12 — Delta.tla / DeltaOps.tla against routinator::payload::PayloadDelta."""
import lib


def _run(ctx):
    pid = ctx.pid
    cfg = "MC_Delta_thorough.cfg" if ctx.thorough else "MC_Delta.cfg"
    lib.tlc(ctx, "mc", "MC_Delta.tla", cfg, workers=4, timeout=1500)
    if ctx.replay:
        import json
        with open(ctx.replay) as f:
            r = json.load(f)
        beh = ctx.path("behaviours.ndjson")
        with open(beh, "w") as f:
            f.write(json.dumps(r["behaviour"]["behaviour"]) + "\n")
        n = 1
    else:
        gen = lib.tlc(ctx, "gen", "Gen_Delta.tla",
                      "Gen_Delta_thorough.cfg" if ctx.thorough else "Gen_Delta.cfg",
                      workers=4, timeout=1500, count=False)
        beh = ctx.path("behaviours.ndjson")
        n = lib.extract_replays(gen["out"], beh)
    if n == 0:
        raise lib.ToolError("no behaviours exported by Gen_Delta")
    res = lib.vh(ctx, "delta", beh, props=[pid],
                 opts={"all_dicts": "1"} if (ctx.thorough or ctx.replay) else None, cacheable=True)
    r = res["per_property"][pid]
    if not ctx.replay:
        # several ASPA customers: change sets with more than one ASPA item at either end of the customer order
        gen3 = lib.tlc(ctx, "gen_aspa", "Gen_Delta.tla", "Gen_Delta_aspa.cfg", workers=4, timeout=1500, count=False)
        beh3 = ctx.path("behaviours_aspa.ndjson")
        n3 = lib.extract_replays(gen3["out"], beh3)
        if n3 == 0:
            raise lib.ToolError("no behaviours exported by Gen_Delta_aspa.cfg")
        res3 = lib.vh(ctx, "delta", beh3, props=[pid], out_name="delta_aspa", cacheable=True)
        r = lib.merge_results(r, res3["per_property"][pid])
        ctx.extra["behaviours_exported_aspa"] = n3
    if pid == "C12" and not ctx.replay:
        # longer histories: merged deltas are merged again (hidden ASPA bookkeeping)
        gen2 = lib.tlc(ctx, "genseq", "Gen_DeltaSeq.tla", "Gen_DeltaSeq.cfg", workers=4, timeout=2400, count=False)
        beh2 = ctx.path("sequences.ndjson")
        n2 = lib.extract_replays(gen2["out"], beh2)
        if n2 == 0:
            raise lib.ToolError("no sequences exported by Gen_DeltaSeq")
        res2 = lib.vh(ctx, "delta", beh2, props=[pid], out_name="deltaseq", cacheable=True,
                      opts={"all_dicts": "1"} if ctx.thorough else None)
        r = lib.merge_results(r, res2["per_property"][pid])
        ctx.extra["sequences_exported"] = n2
    ctx.assumptions += [
        "abstract items are ranks into three concrete dictionaries sorted with the real Ord "
        "(mixed address families, same-prefix items differing in max-length/ASN, extreme ASNs)",
        "PayloadInfo (provenance) is irrelevant to change sets and fixed",
    ]
    ctx.extra["behaviours_exported"] = n
    if pid == "C11":
        rule = ("every triple (a,b,c) of data sets of the Gen_Delta universe is replayed: construct(a,b) and "
                "construct(b,c) on real PayloadSnapshots; oracle: empty iff equal, apply(old,delta)=new, counts, "
                "serial+1; non-trivial = pair with a != b, distinct by (dictionary, old, new)")
    else:
        rule = ("every triple (a,b,c): real merge(construct(a,b), construct(b,c)) compared with real construct(a,c) "
                "(same actions, same order), applied to a must give c; non-trivial = both deltas touch a common "
                "item/customer, distinct by (dictionary, a, b, c)")
    return lib.finish(ctx, r, rule, exhaustive=True)


_NOTE = ("TLC checks the transcription of construct/merge (incl. the 3x3 ASPA table) against the declarative "
         "meaning for all histories within the bound; the replay pushes every exported triple through the real "
         "PayloadDelta code. Assumes the rank<->item dictionaries are representative of item ordering.")

CHECKS = {
    "C11": {
        "run": _run, "engine": "Delta",
        "technique": "TLA+ model (Delta.tla) checked exhaustively by TLC; all exported behaviours replayed into PayloadDelta::construct",
        "level_text": "Exhaustive over all pairs of data sets of a small universe (2 origins, 1 key, 1-2 ASPA customers with "
                      "provider subsets): TLC proves the transcribed algorithm meets the declarative delta semantics, and "
                      "every pair is replayed through the real construct() with a property-level oracle (apply, emptiness, counts).",
        "level_note": _NOTE, "design_ref": "4/C11",
    },
    "C12": {
        "run": _run, "engine": "Delta",
        "technique": "TLA+ model (Delta.tla) checked exhaustively by TLC; all exported triples replayed into PayloadDelta::merge",
        "level_text": "Exhaustive over all triples of data sets of the universe (covers add-then-remove, remove-then-re-add, ASPA "
                      "change-and-change-back) and over all sequences of five data sets of a ten-set universe (merges of merged deltas, "
                      "which exercise the hidden ASPA bookkeeping); TLC shows merged deltas internally equal constructed ones.",
        "level_note": _NOTE, "design_ref": "4/C12",
    },
}
