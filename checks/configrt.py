"""C35 — ConfigRT.tla (option table) against routinator's real command line / config file / to_toml code."""
import json
import lib


def _teeth(ctx):
    """The as-shipped variant (deviations D1-D5 of the pinned code) must be rejected by TLC."""
    bad = lib.tlc(ctx, "mc_as_shipped", "MC_ConfigRT.tla", "MC_ConfigRT_as_shipped.cfg", workers=2, timeout=600,
                  expect_ok=False, count=False)
    with open(bad["out"], errors="replace") as f:
        txt = f.read()
    if "is violated" not in txt:
        raise lib.ToolError("the as_shipped variant of ConfigRT.tla is not rejected by TLC: the model lost its teeth")


def _run(ctx):
    pid = ctx.pid
    lib.tlc(ctx, "mc", "MC_ConfigRT.tla", "MC_ConfigRT.cfg", workers=4, timeout=600)
    lib.tlc(ctx, "mc_pairs", "MC_ConfigRT.tla", "MC_ConfigRT_pairs.cfg", workers=4, timeout=600)
    if ctx.thorough:
        lib.tlc(ctx, "mc_all_pairs", "MC_ConfigRT.tla", "MC_ConfigRT_thorough.cfg", workers=4, timeout=1500)
        lib.tlc(ctx, "mc_triples", "MC_ConfigRT.tla", "MC_ConfigRT_triples_thorough.cfg", workers=4, timeout=1500)
    _teeth(ctx)

    beh = ctx.path("behaviours.ndjson")
    if ctx.replay:
        with open(ctx.replay) as f:
            r = json.load(f)
        with open(beh, "w") as f:
            f.write(json.dumps(r["behaviour"]) + "\n")
        n = 1
    else:
        gen = lib.tlc(ctx, "gen", "Gen_ConfigRT.tla",
                      "Gen_ConfigRT_thorough.cfg" if ctx.thorough else "Gen_ConfigRT.cfg",
                      workers=4, timeout=1500, count=False)
        n = lib.extract_replays(gen["out"], beh)
        if n == 0:
            raise lib.ToolError("no behaviours exported by Gen_ConfigRT")
        if ctx.thorough:
            # random combinations of 2..6 settings over all classes and both sources (num is per worker: 4 x 5000 traces)
            sim = lib.tlc(ctx, "gen_sim", "Gen_ConfigRT.tla", "Gen_ConfigRT_sim_thorough.cfg", workers=4, timeout=1500,
                          extra=["-simulate", "num=5000", "-depth", "12", "-seed", str(ctx.seed)], count=False)
            beh2 = ctx.path("behaviours_sim.ndjson")
            m = lib.extract_replays(sim["out"], beh2)
            if m == 0:
                raise lib.ToolError("no behaviours exported by the simulation run of Gen_ConfigRT")
            with open(beh, "a") as f, open(beh2) as g:
                for line in g:
                    f.write(line)
            ctx.extra["behaviours_simulated"] = m
            n += m
    res = lib.vh(ctx, "configrt", beh, props=[pid])
    r = res["per_property"][pid]
    ctx.extra["behaviours_exported"] = n
    if r.get("evaluations", 0) == 0:
        raise lib.ToolError("no configuration was accepted by the real code: nothing was checked")
    ctx.assumptions += [
        "the configuration is built as in main.rs: clap Command from Operation::config_args(Config::config_args(..)), "
        "try_get_matches_from instead of get_matches (no process exit), Config::from_arg_matches, "
        "Operation::from_arg_matches for the `config` sub-command; printing is format!(\"{}\\n\", config) as in PrintConfig::run",
        "HOME points to an empty directory, so the default configuration does not pick up a ~/.routinator.conf",
        "abstract classes are concretised by one fixed dictionary (integers at 0, 1, typical, 65535, 65536, 2^31, i64::MAX, "
        "i64::MAX+1, u64::MAX, u64::MAX+1; strings with quotes, backslashes, non-ASCII, control characters; non-UTF-8 paths)",
        "equality is Config's own field equality (paths compare component-wise); config_file and the command-line-only "
        "one-shot switch `fresh` are outside the comparison (DESIGN section 4, C35)",
        "`--tal list` (prints the bundled TALs and exits) is not a configuration and is not generated",
    ]
    rule = ("every exported behaviour (default configuration; every option x every boundary class x {command line, "
            "initial config file}; all pairs of settings at typical non-default values%s) is concretised to an argv and an "
            "initial config file and run through the real parsers; a refused command line / initial file is not a test case; "
            "oracle: the printed file is accepted by `-c` and every field of the two Configs is equal; non-trivial = accepted "
            "behaviour whose configuration differs from the default, distinct by the resulting configuration (changed fields "
            "and their values), not by the way it was entered"
            % ("; all triples at typical values; 20000 random combinations of 2-6 settings over all classes" if ctx.thorough else ""))
    rc = lib.finish(ctx, r, rule, exhaustive=True)
    # Violations come first.  Without one, an acceptance mismatch between model and code is a model-fidelity
    # error: those settings would silently drop out of the test set.
    mism = r.get("notes", {}).get("accept_mismatch") or []
    if rc == 0 and mism and not ctx.replay:
        raise lib.ToolError("the model expects settings to be accepted that the real parsers refuse (not a test case "
                            "for the property, but the model must be brought in line): " + "; ".join(mism[:5]))
    return rc


_NOTE = ("ConfigRT.tla is an option table model (kind, command-line domain, file range, printing rule per key) used for "
         "exhaustive boundary-class generation and as a prediction of the pinned code's deviations; TLC checks "
         "Read(Print(cfg)) = cfg on the intended variant and rejects the as_shipped variant. It proves nothing about "
         "bytes (TOML escaping, number formatting): that assurance rests on the replay through the real clap / "
         "toml_edit / config code. Trusted: the class dictionary of the replayer, Config's PartialEq.")

CHECKS = {
    "C35": {
        "run": _run, "engine": "ConfigRT",
        "technique": "TLA+ option-table model (ConfigRT.tla) checked by TLC; exported settings replayed through the real "
                     "command line parser, to_toml printer and config file reader",
        "level_text": "All 61 config-file keys x all boundary classes x both sources one at a time, all pairs (thorough: "
                      "triples and random 2-6 combinations) of settings: argv -> Config -> printed file -> Config, compared "
                      "field by field against the property itself.",
        "level_note": _NOTE, "design_ref": "4/C35",
    },
}
