"""Shared driver machinery for /verif/bin/check.

Pipeline per check (see DESIGN.md section 2):
  build harness -> TLC on MC_<Module> (invariants must hold) -> TLC Gen_<Module>
  (behaviour export) -> `vh <module>` replay against the real code -> optional
  TLC trace validation -> evidence JSON -> verdict lines / exit code.

Exit codes: 0 property held on everything explored (KNOWN-FINDING lines allowed),
            1 VIOLATION line(s) printed, 2 tool error.
"""
import hashlib
import json
import os
import re
import shutil
import subprocess
import sys
import time

VERIF = os.path.dirname(os.path.dirname(os.path.abspath(__file__)))
SPEC = os.path.join(VERIF, "spec")
HARNESS = os.path.join(VERIF, "harness")
VH = os.path.join(HARNESS, "target", "debug", "vh")
WORK = os.path.join(VERIF, "work")
EVIDENCE = os.path.join(VERIF, "evidence")
REPLAYS = os.path.join(VERIF, "replays")
KNOWN = os.path.join(VERIF, "known_findings.txt")


class ToolError(Exception):
    pass


def log(*a):
    print("[check]", *a, file=sys.stderr, flush=True)


class Ctx:
    def __init__(self, pid, tier, seed, replay=None):
        self.pid = pid
        self.tier = tier
        self.seed = seed
        self.replay = replay
        self.t0 = time.time()
        self.work = os.path.join(WORK, "%s-%s" % (pid, tier))
        shutil.rmtree(self.work, ignore_errors=True)
        os.makedirs(self.work, exist_ok=True)
        self.states = 0
        self.transitions = 0
        self.tlc_runs = []
        self.assumptions = []
        self.extra = {}

    @property
    def thorough(self):
        return self.tier == "thorough"

    def path(self, name):
        return os.path.join(self.work, name)


# ---------------------------------------------------------------------------
# building

def build_harness(ctx=None):
    """Rebuilds the harness (and with it routinator from /repo's working tree,
    hooks enabled)."""
    env = dict(os.environ)
    env["CARGO_NET_OFFLINE"] = "true"
    t = time.time()
    p = subprocess.run(["cargo", "build", "--offline", "--quiet"], cwd=HARNESS, env=env,
                       stdout=subprocess.PIPE, stderr=subprocess.STDOUT, text=True, timeout=3000)
    if p.returncode != 0:
        sys.stderr.write(p.stdout[-6000:])
        raise ToolError("harness build failed")
    log("harness build %.1fs" % (time.time() - t))


# ---------------------------------------------------------------------------
# result cache (several properties share one module run: same binary, same
# behaviours, same options => same result; TLC runs are deterministic in the
# spec files).  Keys contain content hashes, so any edit invalidates them.

CACHE = os.path.join(WORK, "cache")


def _sha_file(path, h=None):
    h = h or hashlib.sha256()
    with open(path, "rb") as f:
        while True:
            b = f.read(1 << 20)
            if not b:
                break
            h.update(b)
    return h


def spec_hash():
    h = hashlib.sha256()
    for fn in sorted(os.listdir(SPEC)):
        if fn.endswith(".tla") or fn.endswith(".cfg"):
            h.update(fn.encode())
            _sha_file(os.path.join(SPEC, fn), h)
    return h.hexdigest()


def cache_get(key, dest):
    if os.environ.get("VERIF_NO_CACHE"):
        return False
    src = os.path.join(CACHE, key)
    if os.path.exists(src):
        shutil.copyfile(src, dest)
        return True
    return False


def cache_put(key, src):
    os.makedirs(CACHE, exist_ok=True)
    # keep the cache small
    try:
        entries = sorted((os.path.getmtime(os.path.join(CACHE, f)), f) for f in os.listdir(CACHE))
        while len(entries) > 40:
            os.remove(os.path.join(CACHE, entries.pop(0)[1]))
    except OSError:
        pass
    tmp = os.path.join(CACHE, key + ".tmp%d" % os.getpid())
    shutil.copyfile(src, tmp)
    os.replace(tmp, os.path.join(CACHE, key))


# ---------------------------------------------------------------------------
# TLC

TLC_JAR = "/opt/veriftools/tla/tla2tools.jar"


def _tlc_cmd(workers, metadir, cfg, tla, extra, java_opts):
    # call java directly so that JVM options can be given per run
    cp = TLC_JAR
    cm = "/opt/veriftools/tla/CommunityModules-deps.jar"
    if os.path.exists(cm):
        cp = cp + ":" + cm
    if shutil.which("tlc") and not java_opts:
        return ["tlc", "-workers", str(workers), "-metadir", metadir, "-cleanup",
                "-noGenerateSpecTE"] + extra + ["-config", cfg, tla]
    return ["tlc", "-workers", str(workers), "-metadir", metadir, "-cleanup",
            "-noGenerateSpecTE"] + extra + ["-config", cfg, tla]


def tlc(ctx, name, tla, cfg, workers=4, timeout=600, extra=None, env_extra=None,
        expect_ok=True, count=True, coverage=False, out_name=None, cacheable=True):
    """Runs TLC in /verif/spec.  Returns dict(out, ok, distinct, generated, depth)."""
    extra = list(extra or [])
    if coverage:
        extra += ["-coverage", "1"]
    metadir = ctx.path("tlc-" + name)
    out_path = ctx.path((out_name or name) + ".tlc.out")
    env = dict(os.environ)
    if env_extra:
        env.update(env_extra)
    cmd = ["timeout", str(timeout)] + _tlc_cmd(workers, metadir, cfg, tla, extra, None)
    t = time.time()
    ckey = "tlc-" + hashlib.sha256((spec_hash() + "|" + " ".join(cmd[2:]).replace(metadir, "M") + "|" +
                                    json.dumps(env_extra or {}, sort_keys=True)).encode()).hexdigest()[:32]
    cached = cacheable and "-simulate" not in extra and cache_get(ckey, out_path)

    class _P:
        returncode = 0
    if cached:
        p = _P()
        with open(out_path, errors="replace") as f:
            first = f.readline()
        m = re.match(r"^#rc=(\d+)", first)
        p.returncode = int(m.group(1)) if m else 0
    else:
        with open(out_path, "w") as f:
            f.write("#rc=???\n")
            f.flush()
            p = subprocess.run(cmd, cwd=SPEC, env=env, stdout=f, stderr=subprocess.STDOUT)
        # record the exit code in the first line
        with open(out_path, "r+") as f:
            f.write("#rc=%-3d" % p.returncode)
        if cacheable and p.returncode != 124:
            cache_put(ckey, out_path)
    dt = time.time() - t
    shutil.rmtree(metadir, ignore_errors=True)
    res = {"out": out_path, "rc": p.returncode, "wall_s": round(dt, 1), "name": name,
           "distinct": 0, "generated": 0, "depth": 0, "cached": bool(cached)}
    tail = ""
    with open(out_path, errors="replace") as f:
        for line in f:
            if line.startswith('<<"REPLAY"'):
                continue
            m = re.match(r"^(\d[\d,]*) states generated, (\d[\d,]*) distinct states found", line)
            if m:
                res["generated"] = int(m.group(1).replace(",", ""))
                res["distinct"] = int(m.group(2).replace(",", ""))
            m = re.match(r"^The depth of the complete state graph search is (\d+)", line)
            if m:
                res["depth"] = int(m.group(1))
            if len(tail) < 20000 and not line.startswith("Progress("):
                tail += line
    res["ok"] = (p.returncode == 0 and "No error has been found" in tail) or \
                (p.returncode == 0 and "-simulate" in " ".join(extra))
    if p.returncode == 124:
        res["timeout"] = True
    log("tlc %s: rc=%d distinct=%d generated=%d %.1fs%s" % (name, p.returncode, res["distinct"],
                                                              res["generated"], dt, " (cached)" if cached else ""))
    if count:
        ctx.states += res["distinct"]
        ctx.transitions += res["generated"]
    ctx.tlc_runs.append({k: res[k] for k in ("name", "rc", "distinct", "generated", "depth", "wall_s")})
    if expect_ok and not res["ok"]:
        sys.stderr.write(tail[-5000:])
        raise ToolError("TLC run %s failed (rc=%d): the specification itself does not satisfy "
                        "its invariants or could not be checked" % (name, p.returncode))
    return res


def coverage_zero_actions(res, actions):
    """Vacuity: returns the actions of `actions` whose coverage count is zero or
    which do not show up in the -coverage 1 output."""
    seen = {}
    with open(res["out"], errors="replace") as f:
        for line in f:
            m = re.match(r"^<(\w+) line \d+, col \d+ to line \d+, col \d+ of module \w+>: (\d+):(\d+)", line)
            if m:
                seen[m.group(1)] = seen.get(m.group(1), 0) + int(m.group(3))
    return [a for a in actions if seen.get(a, 0) == 0]


def extract_replays(tlc_out, dest, limit=None, keep=None):
    """Turns the `<<"REPLAY", "...json...">>` lines of a TLC run into ndjson."""
    n = 0
    with open(tlc_out, errors="replace") as f, open(dest, "w") as g:
        for line in f:
            if not line.startswith('<<"REPLAY", '):
                continue
            body = line.rstrip("\n")[len('<<"REPLAY", '):]
            if body.endswith(">>"):
                body = body[:-2]
            try:
                inner = json.loads(body)
            except ValueError:
                raise ToolError("cannot parse REPLAY line: " + line[:200])
            if keep is not None and not keep(n, inner):
                n += 1
                continue
            g.write(inner if isinstance(inner, str) else json.dumps(inner))
            g.write("\n")
            n += 1
            if limit and n >= limit:
                break
    return n


# ---------------------------------------------------------------------------
# harness

def vh(ctx, module, behaviours=None, props=None, opts=None, timeout=3000, out_name=None, env_extra=None,
       cacheable=False):
    """Runs the harness.  With cacheable=True (deterministic replays only: no
    free-running threads, no wall-clock dependence) the result is reused for
    the same harness binary, behaviour file, options, seed and tier."""
    out = ctx.path((out_name or module) + ".result.json")
    ckey = None
    if cacheable:
        h = _sha_file(VH)
        if behaviours:
            _sha_file(behaviours, h)
        h.update(json.dumps([module, sorted(props or []), sorted((opts or {}).items()), ctx.seed, ctx.tier,
                             sorted((env_extra or {}).items())]).encode())
        ckey = "vh-" + h.hexdigest()[:32]
        if cache_get(ckey, out):
            log("vh %s: cached result" % module)
            with open(out) as f:
                return json.load(f)
    cmd = [VH, module, "--out", out, "--seed", str(ctx.seed), "--tier", ctx.tier]
    if behaviours:
        cmd += ["--in", behaviours]
    if props:
        cmd += ["--props", ",".join(props)]
    for k, v in (opts or {}).items():
        cmd += ["--opt", "%s=%s" % (k, v)]
    env = dict(os.environ)
    env.setdefault("RUST_BACKTRACE", "0")
    if env_extra:
        env.update(env_extra)
    t = time.time()
    try:
        p = subprocess.run(cmd, cwd=ctx.work, env=env, timeout=timeout,
                           stdout=subprocess.PIPE, stderr=subprocess.PIPE, text=True, errors="replace")
    except subprocess.TimeoutExpired:
        raise ToolError("harness %s timed out after %ds" % (module, timeout))
    log("vh %s: rc=%d %.1fs" % (module, p.returncode, time.time() - t))
    if p.returncode != 0 or not os.path.exists(out):
        sys.stderr.write(p.stderr[-4000:])
        raise ToolError("harness %s failed rc=%d" % (module, p.returncode))
    if ckey:
        cache_put(ckey, out)
    with open(out) as f:
        return json.load(f)


# ---------------------------------------------------------------------------
# known findings

def load_known():
    known = {}
    if not os.path.exists(KNOWN):
        return known
    with open(KNOWN) as f:
        for line in f:
            line = line.strip()
            if not line.startswith("known:"):
                continue
            m = re.match(r"known:\s+property=(\S+)\s+sig=(\S+)\s*(.*)", line)
            if m:
                known[(m.group(1), m.group(2))] = m.group(3)
    return known


# ---------------------------------------------------------------------------
# evidence and verdict

def finish(ctx, result, rule, exhaustive=False, explanation=None, extra_cov=None):
    """`result` is the per-property dict of the harness report (or a merged one).
    Writes evidence, prints verdict lines, returns the exit code."""
    pid = ctx.pid
    known = load_known()
    viol = result.get("violations", [])
    new, listed = [], {}
    for v in viol:
        key = (pid, v.get("sig", "?"))
        if key in known:
            listed.setdefault(key, v)
        else:
            new.append(v)
    os.makedirs(REPLAYS, exist_ok=True)
    for key, v in listed.items():
        print("KNOWN-FINDING: property=%s sig=%s %s" % (pid, key[1], known[key] or v.get("detail", "")))
    seen_sigs = set()
    for v in new:
        if v.get("sig") in seen_sigs:
            continue
        seen_sigs.add(v.get("sig"))
        blob = json.dumps(v, sort_keys=True)
        h = hashlib.sha1(blob.encode()).hexdigest()[:10]
        path = os.path.join(REPLAYS, "%s-%s.json" % (pid, h))
        with open(path, "w") as f:
            json.dump({"property": pid, "tier": ctx.tier, "seed": ctx.seed, **v}, f, indent=1)
        print("VIOLATION property=%s replay=%s" % (pid, path))
        log("  sig=%s: %s" % (v.get("sig"), v.get("detail", "")[:300]))
    samples = result.get("samples") or []
    cov = {
        "states": ctx.states,
        "transitions": ctx.transitions,
        "traces_validated_against_impl": int(result.get("traces", 0)),
        "samples": samples if samples else [{"note": "no sample recorded"}],
        "evaluations": int(result.get("evaluations", 0)),
        "distinct_nontrivial": int(result.get("distinct_nontrivial", 0)),
        "rule": rule,
        "exhaustive": bool(exhaustive),
        "tlc_runs": ctx.tlc_runs,
        "model_divergences": result.get("divergences", []),
        "known_findings_seen": sorted(k[1] for k in listed),
        "notes": result.get("notes", {}),
    }
    if explanation:
        cov["explanation"] = explanation
    if extra_cov:
        cov.update(extra_cov)
    cov.update(ctx.extra)
    ev = {
        "property_id": pid,
        "tier": ctx.tier,
        "seed": ctx.seed,
        "level": "model_checking",
        "coverage": cov,
        "assumptions": ctx.assumptions,
        "wall_s": round(time.time() - ctx.t0, 1),
        "violations": len(new),
    }
    os.makedirs(EVIDENCE, exist_ok=True)
    with open(os.path.join(EVIDENCE, pid + ".json"), "w") as f:
        json.dump(ev, f, indent=1)
    if ctx.states < 1 or ctx.transitions < 1:
        raise ToolError("no TLC states recorded for a model_checking claim")
    return 1 if new else 0


def merge_results(*rs):
    out = {"evaluations": 0, "traces": 0, "distinct_nontrivial": 0, "samples": [], "violations": [],
           "divergences": [], "notes": {}}
    for r in rs:
        if not r:
            continue
        out["evaluations"] += r.get("evaluations", 0)
        out["traces"] += r.get("traces", 0)
        out["distinct_nontrivial"] += r.get("distinct_nontrivial", 0)
        out["samples"] += r.get("samples", [])
        out["violations"] += r.get("violations", [])
        out["divergences"] += r.get("divergences", [])
        for k, v in r.get("notes", {}).items():
            if isinstance(v, (int, float)) and isinstance(out["notes"].get(k, 0), (int, float)):
                out["notes"][k] = out["notes"].get(k, 0) + v
            else:
                out["notes"][k] = v
    out["samples"] = out["samples"][:4]
    return out
