"""C21, C22 — Output.tla against routinator::output and the status / metrics documents of the HTTP server."""
import json
import lib

_ACTIONS = ["Header", "BeforeOrigins", "Origins", "AfterOrigins", "BeforeKeys", "Keys", "AfterKeys",
            "BeforeAspas", "Aspas", "AfterAspas"]


def _as_shipped_rejected(ctx, cfg, invariant_prefix):
    """Sensitivity of the model: the as-shipped escaping must be rejected by TLC."""
    bad = lib.tlc(ctx, "mc_as_shipped", "MC_Output.tla", cfg, workers=2, timeout=600, expect_ok=False, count=False)
    with open(bad["out"], errors="replace") as f:
        txt = f.read()
    if "Invariant " + invariant_prefix not in txt or "is violated" not in txt:
        raise lib.ToolError("the as_shipped variant of Output.tla (%s) is not rejected by TLC: the model lost its teeth" % cfg)


def _replay_filter(ctx):
    """--replay FILE: keep the universe, the strings (needed to attribute a failure to a character class)
    and, for a selection case, all cases (their concretisation depends on the position in the file)."""
    if not ctx.replay:
        return None
    with open(ctx.replay) as f:
        r = json.load(f)
    beh = r.get("behaviour", {})
    case = beh.get("case", beh)
    label_case = "label_classes" in case or "string_classes" in case
    if label_case:
        return lambda n, inner: '"kind":"case"' not in inner
    return None


def _run_c21(ctx):
    t = ctx.thorough
    lib.tlc(ctx, "mc", "MC_Output.tla", "MC_Output_thorough.cfg" if t else "MC_Output.cfg", workers=4, timeout=2400)
    # vacuity: a small instance with -coverage 1 (periodic coverage dumps of a long run would bury TLC's verdict)
    cov = lib.tlc(ctx, "mc_cov", "MC_Output.tla", "MC_Output_cov.cfg", workers=2, timeout=600, coverage=True, count=False)
    dead = lib.coverage_zero_actions(cov, _ACTIONS)
    if dead:
        raise lib.ToolError("vacuous model: actions never taken in MC_Output: %s" % ", ".join(dead))
    _as_shipped_rejected(ctx, "MC_Output_as_shipped_C21.cfg", "C21_")
    gen = lib.tlc(ctx, "gen", "Gen_Output.tla", "Gen_Output_thorough.cfg" if t else "Gen_Output.cfg",
                  workers=4, timeout=2400, count=False)
    beh = ctx.path("behaviours.ndjson")
    n = lib.extract_replays(gen["out"], beh, keep=_replay_filter(ctx))
    if n == 0:
        raise lib.ToolError("no cases exported by Gen_Output")
    res = lib.vh(ctx, "output", beh, props=["C21"], opts={"http_every": 97 if t else 23}, timeout=2400)
    r = res["per_property"]["C21"]
    ctx.extra["cases_exported"] = n
    ctx.assumptions += [
        "abstract prefixes are bit strings below 10.0.0.0/8 and 2001:db8::/32, abstract ASNs 1..3 are AS64501..AS64503; "
        "one origin has no explicit max-length, one has max-length = prefix length + 8",
        "router keys and ASPAs are 'related to an ASN' through the key's ASN and the customer ASN (the man page only "
        "speaks of VRPs); with only prefix selectors none of them is listed",
        "item identity per format: (prefix, max-length, ASN) / (ASN, SKI, key) / (customer, providers); RPSL has no "
        "max-length; trust-anchor and comment columns are not part of the identity",
        "csv: last column = rest of the row (no quoting rule); csvcompat: RFC 4180 with every field quoted; "
        "summary: line structure only, with plain trust-anchor names",
        "selection cases carry benign provenance labels (letters, non-ASCII); every label string of the escaping model is "
        "put into the TAL name resp. the SLURM comment of all 7 items and rendered in all 13 formats without selection",
        "hook H7 (re-export of payload::PublishInfo) is needed to build payload with a TAL provenance",
    ]
    rule = ("every exported (data set, selection, exclusion) case is rendered in all 13 formats through Output::write "
            "(Selection API) and through Output::from_query + Output::stream (query strings in all spellings of the man "
            "page), every %s case with origins/keys only also by GET from the real HTTP server; each output is parsed "
            "with a per-format parser (serde_json, rpki::slurm::SlurmFile, line grammars) and the listed items are "
            "compared as a multiset with the items the documented selection admits; non-trivial = non-empty data set "
            "with a selector or an exclusion, or a label string with a special character; distinct by (data set, "
            "selection) resp. (field, string)" % ("97th" if t else "23rd"))
    return lib.finish(ctx, r, rule, exhaustive=True)


def _run_c22(ctx):
    t = ctx.thorough
    lib.tlc(ctx, "mc", "MC_Output.tla", "MC_Output_C22_thorough.cfg" if t else "MC_Output_C22.cfg",
            workers=4, timeout=2400)
    _as_shipped_rejected(ctx, "MC_Output_as_shipped_C22.cfg", "C22_")
    gen = lib.tlc(ctx, "gen", "Gen_Output.tla", "Gen_Output_C22_thorough.cfg" if t else "Gen_Output_C22.cfg",
                  workers=4, timeout=2400, count=False)
    beh = ctx.path("behaviours.ndjson")
    n = lib.extract_replays(gen["out"], beh)
    if n == 0:
        raise lib.ToolError("no strings exported by Gen_Output")
    res = lib.vh(ctx, "output", beh, props=["C22"], timeout=2400)
    r = res["per_property"]["C22"]
    ctx.extra["lines_exported"] = n
    ctx.assumptions += [
        "character classes are concretised as a, \", \\, LF, TAB, 0x01 and U+00E9; the model's escaped text is read back "
        "with serde_json and with the Prometheus parser of the harness before anything else (binds the model's grammars)",
        "reachability: TAL names (TAL file names, tal-labels) may hold any class; rsync log lines any class but LF and "
        "control characters other than TAB (rsync rewrites those); RRDP and publication point log messages no control "
        "characters; repository / rsync module / rpkiNotify URIs none of the special classes (rpki::uri) - those stay plain",
        "Prometheus text format: HELP/TYPE once per metric and before its samples, label values with the escapes "
        "\\\\, \\\" and \\n only, blanks allowed between tokens",
    ]
    rule = ("every exported string is put, one field at a time, into the TAL name, an rsync log line, an RRDP log line "
            "and a publication point log line of a real Metrics value, installed through SharedHistory::update, and "
            "/api/v1/status (serde_json) and, for TAL names, /metrics (Prometheus text format parser) are fetched from "
            "the real http_listener over loopback; oracle: the document parses; non-trivial = string with a non-plain "
            "character; distinct by (field, string)")
    return lib.finish(ctx, r, rule, exhaustive=True)


_NOTE21 = ("TLC checks the stream state machine of output.rs (one action per StreamState) for every data set, selection, "
           "exclusion and format family within the bound against the documented selection and a token grammar, and the "
           "escaping transducers for every label string; it rejects the as_shipped variant. This proves nothing about "
           "bytes: the assurance rests on the replay, which renders every exported case with the real Output API in all "
           "13 formats and parses the result. Trusted: the per-format parsers of the harness, the item dictionaries.")
_NOTE22 = ("The TLA+ part is an escaping model (JsonEscape, PromLabelEscape, read back with the grammar of the document) "
           "checked for all strings within the bound and rejected for the as_shipped variant; it is the generator of "
           "boundary strings and proves nothing about bytes. The replay starts the real HTTP server "
           "(routinator::http::http_listener on 127.0.0.1, tokio runtime in the harness) and fetches /api/v1/status and "
           "/metrics over loopback; the handlers are not called directly (they are private). Trusted: serde_json, the "
           "Prometheus text-format parser of the harness, the reachability table of the string fields.")

CHECKS = {
    "C21": {
        "run": _run_c21, "engine": "Output",
        "technique": "TLA+ model of Selection and the OutputStream state machine (Output.tla) checked by TLC; all exported "
                     "cases rendered through Output::write / from_query+stream / HTTP in all 13 formats and parsed back",
        "level_text": "Exhaustive over data sets of <= 3 (thorough 5) items out of 3 origins (nested prefixes, two ASNs, two "
                      "families), 2 router keys, 2 ASPAs; all selections of <= 2 (3) selectors over 3 ASNs and 7 query "
                      "prefixes with/without more-specifics; all 8 type exclusions; all 13 formats; trust-anchor names and "
                      "SLURM comments over all strings of <= 3 (4) character classes.",
        "level_note": _NOTE21, "design_ref": "4/C21",
    },
    "C22": {
        "run": _run_c22, "engine": "Output",
        "technique": "TLA+ escaping model (Output.tla, part b) checked by TLC; exported strings placed into real Metrics and "
                     "read through the real HTTP server's /api/v1/status and /metrics",
        "level_text": "All strings of <= 3 (thorough 5; TLC 4 resp. 6) characters over {plain, quote, backslash, newline, "
                      "tab, other control, non-ASCII} in every externally controlled string field of the metrics that can "
                      "hold them (TAL name, rsync / RRDP / publication point log messages).",
        "level_note": _NOTE22, "design_ref": "4/C22",
    },
}
