"""C19, C36 — Listener.tla against the real RTR listener (loopback connections, forced / kernel-made setup failures)
and the real client-address registry (threads parked at the metrics-* preemption points, stress, real connections)."""
import json
import os
import subprocess
import lib

SHARDS = 8


def _reject(ctx, cfg, needle):
    bad = lib.tlc(ctx, cfg[:-4].lower(), "MC_Listener.tla", cfg, workers=2, timeout=900, expect_ok=False, count=False)
    with open(bad["out"], errors="replace") as f:
        txt = f.read()
    if needle not in txt:
        raise lib.ToolError("%s is not rejected by TLC (expected: %s): the model lost its teeth" % (cfg, needle))


def _shards(ctx, beh, pid, shards, timeout):
    """The H6 override, the trace sink and the schedule controller are process-global: shard across processes."""
    procs = []
    for i in range(shards):
        out = ctx.path("listener%d.result.json" % i)
        cmd = [lib.VH, "listener", "--in", beh, "--out", out, "--seed", str(ctx.seed), "--tier", ctx.tier,
               "--props", pid, "--opt", "shard=%d/%d" % (i, shards)]
        procs.append((out, subprocess.Popen(cmd, cwd=ctx.work, stdout=subprocess.PIPE, stderr=subprocess.PIPE, text=True)))
    results = []
    for out, p in procs:
        try:
            so, se = p.communicate(timeout=timeout)
        except subprocess.TimeoutExpired:
            for _, q in procs:
                q.kill()
            raise lib.ToolError("listener replay shard timed out")
        if p.returncode != 0 or not os.path.exists(out):
            lib.log(se[-2000:])
            raise lib.ToolError("listener replay shard failed rc=%s" % p.returncode)
        with open(out) as f:
            results.append(json.load(f))
    return lib.merge_results(*[x["per_property"][pid] for x in results])


def _c19(ctx):
    lib.tlc(ctx, "mc_listener", "MC_Listener.tla", "MC_Listener_thorough.cfg" if ctx.thorough else "MC_Listener.cfg",
            workers=4, timeout=1800)
    _reject(ctx, "MC_Listener_as_shipped.cfg", "Invariant C19_NeverStuck is violated")
    _reject(ctx, "MC_Listener_bounded_drain.cfg", "Invariant C19_NeverStuck is violated")
    gen = lib.tlc(ctx, "gen_listener", "Gen_Listener.tla", "Gen_Listener_thorough.cfg" if ctx.thorough else "Gen_Listener.cfg",
                  workers=1, timeout=1800, count=False)
    beh = ctx.path("conns.ndjson")
    n = lib.extract_replays(gen["out"], beh)
    if n == 0:
        raise lib.ToolError("no connection sequences exported by Gen_Listener")
    ctx.extra["sequences_exported"] = n
    r = _shards(ctx, beh, "C19", SHARDS, 3000)
    unreal = r.get("notes", {}).get("unrealised_sequences", 0)
    if unreal and unreal > 0.1 * n:
        raise lib.ToolError("%d connection sequences could not be realised against the server: harness problem" % unreal)
    if not r.get("notes", {}).get("kernel_rejects_keepalive_40000"):
        ctx.assumptions.append("this kernel accepts a keepalive time of 40000 s: the hook-free failure variant was skipped")
    ctx.assumptions += [
        "per-connection setup failure is produced by hook H6 (first line of RtrStream::new) for chosen connection numbers and, "
        "hook-free, by rtr-tcp-keepalive = 40000 which this kernel rejects (EINVAL) for every connection",
        "the arrival pattern (connection arrives while the listener task is parked / while it is busy) is approximated by "
        "opening connections back to back resp. after a 40 ms pause; the verdict does not depend on it",
        "a connection counts as not served when its Reset Query is unanswered after 2.5 s and again after 4 s and 6 s on "
        "fresh servers (later sequences of an already confirmed signature: 0.7 s, one attempt)",
        "accept() errors (Listener.tla AcceptError) are outside the statement of C19; an EMFILE probe is recorded as a note only",
    ]
    rule = ("every exported sequence (1..4 connections, thorough 1..5, every subset failing setup, every quiet/burst arrival "
            "pattern; plus random sequences of 5..8 connections) is opened against a fresh real rtr_listener with data, under three "
            "configurations (no keepalive + H6, accepted keepalive + H6, kernel-rejected keepalive); oracle per connection: healthy => "
            "Reset Query answered up to End of Data, failing => closed by the server; one evaluation per connection; non-trivial = "
            "sequence with a failing connection followed by another connection, distinct by (configuration, fail set, arrival pattern)")
    return lib.finish(ctx, r, rule, exhaustive=True)


def _c36(ctx):
    lib.tlc(ctx, "mc_registry", "MC_Listener.tla",
            "MC_Listener_registry_thorough.cfg" if ctx.thorough else "MC_Listener_registry.cfg", workers=4, timeout=2400)
    for cfg in ("MC_Listener_registry_no_lock.cfg", "MC_Listener_registry_no_reload.cfg", "MC_Listener_registry_unsorted.cfg",
                "MC_Listener_registry_dec_load_store.cfg"):
        _reject(ctx, cfg, "is violated")
    beh = ctx.path("registry.ndjson")
    total = 0
    with open(beh, "w") as out:
        for name, cfg, sim in (("gen_reg2", "Gen_Listener_registry2.cfg", 0),
                               ("gen_reg2_adv", "Gen_Listener_registry2_adv.cfg", 0),
                               ("gen_reg3", "Gen_Listener_registry3.cfg", 3000 if ctx.thorough else 300),
                               ("gen_reg3_adv", "Gen_Listener_registry3_adv.cfg", 3000 if ctx.thorough else 300)):
            extra = ["-simulate", "num=%d" % sim, "-depth", "30", "-seed", str(3600 + ctx.seed)] if sim else None
            gen = lib.tlc(ctx, name, "Gen_Listener.tla", cfg, workers=1, timeout=1800, count=False, extra=extra,
                          cacheable=not sim)
            part = ctx.path(name + ".ndjson")
            k = lib.extract_replays(gen["out"], part)
            if k == 0:
                raise lib.ToolError("no registry schedules exported by %s" % cfg)
            ctx.extra["schedules_" + name] = k
            total += k
            with open(part) as f:
                out.write(f.read())
    r = _shards(ctx, beh, "C36", SHARDS, 3000)
    unreal = r.get("notes", {}).get("unrealised_schedules", 0)
    if unreal and unreal > 0.1 * total:
        raise lib.ToolError("%d registry schedules could not be realised against the code: model fidelity problem" % unreal)
    if r.get("notes", {}).get("unrealised_connection_rounds", 0) > 2:
        raise lib.ToolError("the real-connection rounds failed on the client side: harness problem")
    ctx.assumptions += [
        "threads are parked at the preemption points metrics-after-load / metrics-after-lock / metrics-before-store (hook H3); "
        "schedules from the no_lock variant of the model try to push a second thread past the write mutex: on the real code "
        "that thread must block (counted as steps_deferred_by_the_mutex)",
        "two-thread schedules are enumerated exhaustively (registry steps; inc after get, dec at the end), three-thread schedules "
        "including inc/dec interleavings are sampled by TLC simulation seeded by VERIF_SEED; the full three-thread interleaving "
        "space is checked by TLC only",
        "real connections come from several 127.0.x.y source addresses; gauges are polled for up to 8 s after closing",
        "RtrMetricsData objects are identified by their address (Arc::as_ptr / the reference handed to RtrClientMetrics::update)",
    ]
    rule = ("each schedule is driven through RtrServerMetrics::get_client with one named thread per connection; after every step the "
            "real list (clients()) is checked: strictly sorted, one entry per address, every address ever listed or handed out still "
            "there with the same object, per-address gauge = number of open connections of that address, global gauge = open "
            "connections, all zero after the last close; plus free-running rounds (4..12 threads x 8..64 addresses, list checked "
            "with everything open and after closing, insert trace 1..M) and rounds of real RTR connections from 2..4 source "
            "addresses opened/closed concurrently; non-trivial = schedule with two threads inside get() at once, or a free round")
    return lib.finish(ctx, r, rule, exhaustive=False)


_NOTE_19 = ("TLC checks the accept loop of Listener.tla exhaustively (safety: never parked on a non-empty queue without waker/timer; "
            "liveness under weak fairness: every connection accepted, healthy ones served) and rejects the as_shipped variant; every "
            "exported sequence is replayed on a real listener. Trusted: hook H6, the minimal RTR client of the harness, timeouts as "
            "the observation of 'not served'.")
_NOTE_36 = ("TLC checks the registry of Listener.tla exhaustively for 3 (thorough 4) processes x 2 addresses x 4 pre-registered sets "
            "and rejects three design mutants (no mutex, no re-load, append instead of sorted insert); schedules are replayed with "
            "real threads. Trusted: preemption hooks, pointer identity of metrics objects.")

CHECKS = {
    "C19": {"run": _c19, "engine": "Listener", "design_ref": "4/C19", "level_note": _NOTE_19,
            "technique": "TLA+ model of the accept loop with the waker discipline (Listener.tla part A) checked by TLC; exported "
                         "connection sequences replayed over loopback against the real rtr_listener",
            "level_text": "All sequences of up to 4 (thorough 5) connections with every subset failing setup and every arrival pattern, "
                          "for no keepalive, an accepted keepalive and a kernel-rejected keepalive; every later connection must be "
                          "served (healthy) or closed (failing)."},
    "C36": {"run": _c36, "engine": "Listener", "design_ref": "4/C36", "level_note": _NOTE_36,
            "technique": "TLA+ model of the address registry and gauges (Listener.tla part B) checked by TLC; schedules replayed with "
                         "threads parked at preemption points, free-running stress, real concurrent RTR connections",
            "level_text": "All interleavings of 3 (thorough 4) connection processes over 2 new and up to 2 existing addresses in TLC; "
                          "all two-thread and sampled three-thread schedules (legal and adversarial) on the real registry; gauges "
                          "return to zero after real connections close."},
}
