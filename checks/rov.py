"""C20 — Rov.tla / RovOps.tla against routinator::validity, the validity HTTP endpoints and `routinator validate`."""
import json
import lib


def _run(ctx):
    pid = ctx.pid
    lib.tlc(ctx, "mc", "MC_Rov.tla", "MC_Rov_thorough.cfg" if ctx.thorough else "MC_Rov.cfg",
            workers=4, timeout=1500)
    # sensitivity of the model: a seeded mutant of the transcription (`>=` for `>` on the max length)
    # must be rejected by the same invariants
    bad = lib.tlc(ctx, "mc_mutant", "MC_Rov.tla", "MC_Rov_mutant.cfg", workers=2, timeout=300,
                  expect_ok=False, count=False)
    with open(bad["out"], errors="replace") as f:
        if "is violated" not in f.read():
            raise lib.ToolError("the seeded mutant of RovOps.tla is not rejected by TLC: the invariants lost their teeth")
    beh = ctx.path("behaviours.ndjson")
    opts = {}
    if ctx.replay:
        with open(ctx.replay) as f:
            r = json.load(f)
        b = r["behaviour"]
        with open(beh, "w") as f:
            f.write(json.dumps(b["line"]) + "\n")
        opts["base"] = b["base"]
        n = 1
    else:
        gen = lib.tlc(ctx, "gen", "Gen_Rov.tla", "Gen_Rov_thorough.cfg" if ctx.thorough else "Gen_Rov.cfg",
                      workers=4, timeout=1500, count=False)
        n = lib.extract_replays(gen["out"], beh)
    if n == 0:
        raise lib.ToolError("no behaviours exported by Gen_Rov")
    res = lib.vh(ctx, "rov", beh, props=[pid], opts=opts or None)
    r = res["per_property"][pid]
    ctx.extra["behaviours_exported"] = n
    ctx.assumptions += [
        "a prefix is a bit string of length <= 3 appended to a concrete base prefix; six bases are used "
        "(10.0.0.0/8 + 2001:db8::/32; 0.0.0.0/0 + ::/0; /29 + /125 reaching the host lengths /32 and /128; "
        "two bases mapping the model's largest max-length onto 32/128; one straddling the octet / 64-bit boundary), "
        "two per data set in the quick tier (rotating), all six in the thorough tier; the replayer re-derives covering "
        "and matching VRPs from the concrete values with its own arithmetic and stops with a tool error if a base "
        "does not preserve the model",
        "two abstract AS numbers stand for equal / different origin (concrete values include 0, 2^32-1 and 4-byte ASNs)",
        "HTTP and CLI paths get their data set through SLURM prefix assertions on an empty validation report "
        "(public API; the installed snapshot is read back and compared)",
        "`routinator validate` is run as main.rs runs it (clap -> Config -> Operation::run) in a child process of the "
        "harness binary, not as the installed `routinator` executable",
    ]
    rule = ("one behaviour = one data set with all route queries (60; 30 for one-family triples); every query is answered "
            "by RouteValidity::new and judged against RFC 6811 (state; matched = matching VRPs; unmatched_as/unmatched_length "
            "partition the other covering VRPs, each member having the named defect; reason absent unless invalid, else "
            "naming a non-empty list); sampled queries also through write_json, RequestList (JSON/plain/single) + "
            "write_json/write_plain/iter_state, GET /api/v1/validity, GET /validity?asn&prefix, POST /validity on a "
            "loopback http_listener, and `routinator validate`; non-trivial = query with at least one covering VRP, "
            "distinct by (data set, route)")
    return lib.finish(ctx, r, rule, exhaustive=True)


_NOTE = ("TLC checks the transcription of RouteValidity::new/state/reason (incl. Prefix::covers and the snapshot order) "
         "against the declarative RFC 6811 definition for every route and every data set within the bound, and rejects a "
         "seeded mutant. Replay: every exported data set x route through the real RouteValidity on several concrete bases; "
         "JSON rendering, request-list readers, the real HTTP endpoints over loopback (hook-free, public http_listener) and "
         "the validate command (child process running Operation::run) on a sample spread over all classes. Trusted: the "
         "bit-string -> address concretisation (cross-checked at run time), SLURM as data-set installer for HTTP/CLI. "
         "The thorough export restricts 3-element data sets to one address family (TLC still checks all of them).")

CHECKS = {
    "C20": {
        "run": _run, "engine": "Rov",
        "technique": "TLA+ model of route origin validation (Rov.tla/RovOps.tla) checked exhaustively by TLC; every exported "
                     "(data set, route) replayed into RouteValidity::new, samples through JSON, HTTP GET/POST and the CLI",
        "level_text": "Exhaustive over all routes x all VRP sets of <= 2 (quick) / <= 3 (thorough) VRPs over prefixes of <= 3 bits "
                      "in two address families with two AS numbers (covering, equal, more specific, disjoint, other family, "
                      "max-length at / above / below the route length, AS match / mismatch): TLC shows the transcribed "
                      "classification equals RFC 6811 with the allowed freedom for doubly-wrong VRPs, and every case is replayed "
                      "on the real code at several concrete prefix lengths including /0, /32 and /128.",
        "level_note": _NOTE, "design_ref": "4/C20",
    },
}
