"""C40 — Cleanup.tla against engine / store / collector cleanup over histories of validation runs."""

import lib

MUTANTS = {
    "expiry": "C40_UnexpiredPointKept",
    "retain": "C40_UsedCopyKept",
    "touched": "C40_UsedCopyKept",
    "dirty": "C40_DirtyRemovesNothing",
    "failed": "C40_FailedRemovesNothing",
    "next_update": "C40_UnexpiredPointKept",
}
PROBES = {
    "point": "Probe_NoPointRemoved",
    "copy": "Probe_NoCopyRemoved",
    "att": "Probe_NoAttRemoved",
    "archive": "Probe_NoArchiveRemoved",
}


def _must_reject(ctx, name, cfg, invariant):
    bad = lib.tlc(ctx, name, "MC_Cleanup.tla", cfg, workers=2, timeout=900, expect_ok=False, count=False)
    with open(bad["out"], errors="replace") as f:
        if ("Invariant %s is violated" % invariant) not in f.read():
            raise lib.ToolError("%s: TLC did not report %s as violated" % (cfg, invariant))


def _run(ctx):
    th = ctx.thorough
    # 1. the design satisfies C40 within the bound
    lib.tlc(ctx, "mc_cleanup", "MC_Cleanup.tla", "MC_Cleanup.cfg", workers=4, timeout=1800)
    if th:
        for cfg in ("MC_Cleanup_env2", "MC_Cleanup_thorough", "MC_Cleanup_rrdp_thorough", "MC_Cleanup_3p_thorough"):
            lib.tlc(ctx, cfg.lower(), "MC_Cleanup.tla", cfg + ".cfg", workers=4, timeout=3000)
    # 2. the invariants have teeth (seeded faults are rejected) and the model is not vacuous (cleanup does remove)
    #    (quick: three faults and two probes, thorough: all)
    for m, inv in MUTANTS.items():
        if th or m in ("expiry", "retain", "failed", "next_update"):
            _must_reject(ctx, "mc_cleanup_mut_" + m, "MC_Cleanup_mut_%s.cfg" % m, inv)
    for m, inv in PROBES.items():
        if th or m in ("point", "copy"):
            _must_reject(ctx, "mc_cleanup_probe_" + m, "MC_Cleanup_probe_%s.cfg" % m, inv)
    if th:
        # documented observation: the stricter reading "a point uses the copy it was fetched through" does not hold
        _must_reject(ctx, "mc_cleanup_strict", "MC_Cleanup_strict.cfg", "Strict_FetchedCopyKept")
    # 3. histories
    gen = lib.tlc(ctx, "gen_cleanup", "Gen_Cleanup.tla", "Gen_Cleanup_thorough.cfg" if th else "Gen_Cleanup.cfg",
                  workers=4, timeout=3000, count=False)
    beh = ctx.path("cleanup.ndjson")
    n2 = lib.extract_replays(gen["out"], beh)
    if n2 == 0:
        raise lib.ToolError("no behaviours exported by Gen_Cleanup")
    # the 2-run histories are sampled (deterministically): every k-th
    want2 = 6000 if th else 900
    k = max(1, n2 // want2)
    off = ctx.seed % k
    lines = []
    with open(beh) as f:
        for i, line in enumerate(f):
            if i % k == off:
                lines.append(line)
    sim = lib.tlc(ctx, "gen_cleanup_sim", "Gen_Cleanup.tla", "Gen_Cleanup_sim.cfg", workers=1, timeout=1800, count=False,
                  extra=["-simulate", "num=%d" % (2500 if th else 250), "-depth", "60", "-seed", str(4000 + ctx.seed)],
                  cacheable=False)
    simf = ctx.path("cleanup_sim.ndjson")
    n3 = lib.extract_replays(sim["out"], simf)
    if n3 == 0:
        raise lib.ToolError("no behaviours exported by the simulation of Gen_Cleanup")
    with open(simf) as f:
        lines += list(f)
    with open(beh, "w") as f:
        f.writelines(lines)
    ctx.extra["histories_exported_2runs"] = n2
    ctx.extra["histories_sampled_2runs"] = len(lines) - n3
    ctx.extra["histories_simulated_3runs"] = n3
    # 4. replay against the real code
    res = lib.vh(ctx, "cleanup", beh, opts={"jobs": 12, "batch": 10}, timeout=3400)
    r = res["per_property"]["C40"]
    notes = r.get("notes", {})
    if notes.get("panics", 0):
        raise lib.ToolError("panic while replaying: %s" % r.get("divergences", [])[:2])
    if r.get("traces", 0) < 0.8 * len(lines):
        raise lib.ToolError("only %d of %d histories could be replayed to the end (%s abandoned because the machine was "
                            "too slow for the %s-second manifest lifetime)"
                            % (r.get("traces", 0), len(lines), notes.get("histories_abandoned_too_slow", 0), 3))
    ctx.assumptions += [
        "the state of the cache before cleanup is observed on a twin: the same run with the dirty option on a clone of the cache",
        "a publication point 'expires' through a manifest EE certificate valid for 3 seconds and a real wait; histories in "
        "which the machine was too slow for that are abandoned (counted in notes.histories_abandoned_too_slow)",
        "all runs accept stale objects; in every third history every CA manifest is issued with a nextUpdate that has already "
        "passed while its EE certificate is valid as the history says (retain reads the certificate only)",
        "RRDP transport is modelled (MC_Cleanup_rrdp_thorough.cfg) but not replayed: CA certificates with rpkiNotify are "
        "replayed with RRDP disabled (stored under stored/rrdp, fetched by rsync)",
        "hook H8 (sort-manifest-entries) and H10 (in-process rsync) are on; a failed run is a truncated stored TA point "
        "(fatal) or an initial run meeting an unknown point (retry)",
    ]
    rule = ("every sampled 2-run history of Gen_Cleanup (exhaustive canonical export, every k-th) and every simulated 3-run history: "
            "after each run the oracle of C40 is evaluated on the observed files (twin before cleanup / after), the rsync log and an "
            "offline read-back; non-trivial = a run whose cleanup had something to decide (expired or unvisited stored point, "
            "unreferenced or retain-only module, or a dirty/failed run with removable data); key = run kind, dirty, outcome, what was at stake")
    return lib.finish(ctx, r, rule, exhaustive=False)


_NOTE = ("TLC checks Cleanup.tla (store cleanup -> retain set -> collector cleanup, transcribed from engine.rs:408, store.rs:544-660,1089, "
         "collector/base.rs:260, rsync.rs:375, rrdp/base.rs:493) for all histories within the bound, rejects five seeded faults and "
         "shows that cleanup does remove expired points, stale records and unreferenced copies. Exported histories are replayed through "
         "the real engine with the object factory; the oracle is the property evaluated on observed directory contents. Trusted: the "
         "object factory, the fake rsync, StoredPoint::load_quietly for reading notAfter of a stored manifest. Not replayed: RRDP archives.")
_TECH = ("TLA+ model of validation runs and cleanup (Cleanup.tla) checked by TLC; exported run histories replayed through "
         "engine, store and rsync collector on a test bed, with real expiry of manifest EE certificates")

CHECKS = {
    "C40": {"run": _run, "engine": "Cleanup", "technique": _TECH, "design_ref": "4/C40", "level_note": _NOTE,
            "level_text": "Model: all histories of 3 runs x 1 environment step per gap (thorough: also 2 x 2, rpkiNotify, RRDP on, 3 points) "
                          "over publish / unlist / short-lived manifest / expiry / move, unreachable modules, dirty, initial and failed runs. "
                          "Replay: sampled 2-run histories and simulated 3-run histories (3 points, 2 modules, rsync transport)."},
}
