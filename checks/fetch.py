"""C37, C31 — Fetch.tla against routinator::collector (rsync Run::load_module, RRDP Run::load_repository,
has_dubious_authority)."""
import json
import os
import subprocess
import lib


def _reject(ctx, name, tla, cfg, inv):
    bad = lib.tlc(ctx, name, tla, cfg, workers=2, timeout=600, expect_ok=False, count=False)
    with open(bad["out"], errors="replace") as f:
        if ("Invariant %s is violated" % inv) not in f.read():
            raise lib.ToolError("%s is not rejected by TLC (%s): the model lost its teeth" % (cfg, inv))


def _export(ctx, name, tla, cfg, dest, sim=None, limit=None, every=1, timeout=1200):
    extra = None
    if sim:
        extra = ["-simulate", "num=%d" % sim, "-depth", "70", "-seed", str(1000 + ctx.seed)]
    gen = lib.tlc(ctx, name, tla, cfg, workers=1 if sim else 4, timeout=timeout, count=False, extra=extra,
                  cacheable=not sim)
    seen = set()

    def keep(n, inner):
        if n % every:
            return False
        if inner in seen:
            return False
        seen.add(inner)
        return True
    n = lib.extract_replays(gen["out"], dest, keep=keep)
    if limit:
        with open(dest) as f:
            lines = f.readlines()
        if len(lines) > limit:
            step = len(lines) / float(limit)
            lines = [lines[int(i * step)] for i in range(limit)]
            with open(dest, "w") as f:
                f.writelines(lines)
    with open(dest) as f:
        n = sum(1 for _ in f)
    if n == 0 and not sim:
        raise lib.ToolError("no behaviours exported by %s" % cfg)
    return n


def _cat(dest, parts):
    with open(dest, "w") as g:
        for p in parts:
            with open(p) as f:
                g.write(f.read())


def _parallel(ctx, jobs, timeout):
    """jobs: list of (name, opts dict, behaviours or None).  Separate processes: the schedule controller and the
    rsync/HTTP doubles are process-global."""
    procs = []
    for name, opts, beh in jobs:
        out = ctx.path(name + ".result.json")
        cmd = [lib.VH, "fetch", "--out", out, "--seed", str(ctx.seed), "--tier", ctx.tier]
        if beh:
            cmd += ["--in", beh]
        for k, v in opts.items():
            cmd += ["--opt", "%s=%s" % (k, v)]
        procs.append((name, out, subprocess.Popen(cmd, cwd=ctx.work, stdout=subprocess.PIPE, stderr=subprocess.PIPE,
                                                  text=True, errors="replace")))
    results = []
    for name, out, p in procs:
        try:
            _, se = p.communicate(timeout=timeout)
        except subprocess.TimeoutExpired:
            p.kill()
            raise lib.ToolError("fetch replay %s timed out" % name)
        if p.returncode != 0 or not os.path.exists(out):
            lib.log(se[-2000:])
            raise lib.ToolError("fetch replay %s failed rc=%s" % (name, p.returncode))
        with open(out) as f:
            results.append(json.load(f))
    return results


def _run_c37(ctx):
    pid = "C37"
    t = ctx.thorough
    lib.tlc(ctx, "mc_fetch", "MC_Fetch.tla", "MC_Fetch_thorough.cfg" if t else "MC_Fetch.cfg", workers=4, timeout=2400)
    lib.tlc(ctx, "mc_fetch_rrdp", "MC_Fetch.tla", "MC_Fetch_rrdp_thorough.cfg" if t else "MC_Fetch_rrdp.cfg", workers=4,
            timeout=2400)
    _reject(ctx, "mc_fetch_as_shipped", "MC_Fetch.tla", "MC_Fetch_as_shipped.cfg", "C37_AtMostOnce")

    parts_rsync, parts_rrdp = [], []
    n = {}
    p = ctx.path("g2.ndjson")
    n["two_threads_all"] = _export(ctx, "gen_fetch", "Gen_Fetch.tla", "Gen_Fetch.cfg", p)
    parts_rsync.append(p)
    p = ctx.path("g2r.ndjson")
    n["two_threads_all_rrdp"] = _export(ctx, "gen_fetch_rrdp", "Gen_Fetch.tla", "Gen_Fetch_rrdp.cfg", p)
    parts_rrdp.append(p)
    p = ctx.path("gas.ndjson")
    n["as_shipped_counterexamples"] = _export(ctx, "gen_fetch_as_shipped", "Gen_Fetch.tla", "Gen_Fetch_as_shipped.cfg", p,
                                              limit=None if t else 60)
    parts_rsync.append(p)
    if t:
        p = ctx.path("g3.ndjson")
        n["three_threads_every_4th"] = _export(ctx, "gen_fetch_3", "Gen_Fetch.tla", "Gen_Fetch_3.cfg", p, every=4, timeout=2400)
        parts_rsync.append(p)
        p = ctx.path("gas3.ndjson")
        n["as_shipped_counterexamples_3_threads"] = _export(ctx, "gen_fetch_as_shipped3", "Gen_Fetch.tla",
                                                            "Gen_Fetch_as_shipped3.cfg", p, sim=3000)
        parts_rsync.append(p)
    sim = 1500 if t else 120
    p = ctx.path("gs.ndjson")
    n["sampled_3x2x2"] = _export(ctx, "gen_fetch_sim", "Gen_Fetch.tla", "Gen_Fetch_sim.cfg", p, sim=sim, limit=sim)
    parts_rsync.append(p)
    p = ctx.path("gsr.ndjson")
    n["sampled_3x2x2_rrdp"] = _export(ctx, "gen_fetch_rrdp_sim", "Gen_Fetch.tla", "Gen_Fetch_rrdp_sim.cfg", p,
                                      sim=sim // 2, limit=sim // 2)
    parts_rrdp.append(p)
    ctx.extra["schedules_exported"] = n
    rs, rr = ctx.path("rsync.ndjson"), ctx.path("rrdp.ndjson")
    # the counterexample schedules first: a violation is then recorded with a schedule that was followed exactly
    parts_rsync.sort(key=lambda x: 0 if os.path.basename(x).startswith("gas") else 1)
    _cat(rs, parts_rsync)
    _cat(rr, parts_rrdp)

    shards_rs, shards_rr = (6, 4) if t else (2, 2)
    jobs = [("stress", {"mode": "stress", "runs": 1000 if t else 200}, None)]
    for i in range(shards_rs):
        jobs.append(("rsync%d" % i, {"mode": "schedules", "transport": "rsync", "shard": "%d/%d" % (i, shards_rs)}, rs))
    for i in range(shards_rr):
        jobs.append(("rrdp%d" % i, {"mode": "schedules", "transport": "rrdp", "shard": "%d/%d" % (i, shards_rr)}, rr))
    results = _parallel(ctx, jobs, timeout=3000)
    r = lib.merge_results(*[x["per_property"][pid] for x in results])
    notes = r.get("notes", {})
    # model fidelity: on code without the defect the schedules of the intended model must be realisable
    if not r["violations"]:
        for tr in ("rsync", "rrdp"):
            bad = notes.get("%s_schedules_unrealised_insert_then_remove" % tr, 0) + \
                notes.get("%s_schedules_unrealised_insert_then_remove+c2r" % tr, 0)
            ok = notes.get("%s_schedules_followed_exactly" % tr, 0)
            if bad > 0.2 * max(1, ok + bad):
                raise lib.ToolError("%d of %d %s schedules of the intended model could not be followed by the code: "
                                    "model fidelity problem" % (bad, ok + bad, tr))
    ctx.assumptions += [
        "threads are parked at the preemption points of load_module / load_repository (hook H3) and, inside the fetch, at "
        "points of the harness' rsync / HTTP doubles; between two points a thread touches the shared maps at most once",
        "a fetch is the invocation of the rsync command (in-process double, hook H10) resp. the notification request of "
        "the RRDP update (HTTP interceptor, hook H1) for one module / rpkiNotify URI",
        "callers are collector::Run::repository() followed by Repository::load_object(), as the validation threads use it; "
        "the local copy is empty at the start of every run, so data read at return time was fetched in this run",
        "3-thread schedules are sampled by TLC simulation (seeded by VERIF_SEED); the full space is checked by TLC only",
        "a schedule of the model that the code cannot follow (a thread blocks or parks elsewhere) is abandoned: all gates "
        "are opened and the oracle of the statement is still evaluated on the run",
    ]
    rule = ("every exported schedule is driven through real threads calling collector::Run::repository on one Run: all "
            "complete interleavings of 2 threads on one key (132; rsync and rrdp), the counterexample schedules of the "
            "as-shipped rsync order, sampled schedules of 3 threads x 2 calls x 2 keys; plus free-running validation runs "
            "(6 CAs sharing one module / one RRDP repository, 4-8 validation threads, empty cache). Oracle: per run and "
            "key at most one fetch started (double's log and the fake rsync log); every caller's data read at return time "
            "is the published object and a fetch had finished; stress: exactly the 6 VRPs. non-trivial = schedule "
            "followed exactly in which at least two calls use the same key; distinct by (transport, schedule)")
    return lib.finish(ctx, r, rule, exhaustive=False)


def _run_c31(ctx):
    pid = "C31"
    lib.tlc(ctx, "mc_hosts", "MC_FetchHosts.tla", "MC_FetchHosts.cfg", workers=2, timeout=600)
    _reject(ctx, "mc_hosts_as_shipped", "MC_FetchHosts.tla", "MC_FetchHosts_as_shipped.cfg", "C31_NoDubiousFetch")
    _reject(ctx, "mc_hosts_unknown_only", "MC_FetchHosts.tla", "MC_FetchHosts_unknown_only.cfg", "C31_NoDubiousFetch")
    gen = lib.tlc(ctx, "gen_hosts", "MC_FetchHosts.tla", "Gen_FetchHosts.cfg", workers=2, timeout=600, count=False)
    rows = ctx.path("rows.ndjson")
    n = lib.extract_replays(gen["out"], rows)
    if n == 0:
        raise lib.ToolError("no rows exported by Gen_FetchHosts")
    ctx.extra["rows_exported"] = n
    res = lib.vh(ctx, "fetch", rows, props=[pid], opts={"mode": "hosts"})
    r = res["per_property"][pid]
    ctx.assumptions += [
        "URIs reach the fetch code only through rpki::uri::{Rsync, Https}: forms that parser refuses ('[', ']', '@' are "
        "outside its alphabet, so bracketed IPv6 literals and userinfo) cannot occur in a certificate Routinator reads; "
        "they are counted, not judged",
        "a request is the invocation of the rsync command (hook H10 double) resp. an HTTP request of the RRDP client "
        "(hook H1 interceptor); every class is also run with allow-dubious-hosts on, where the request must show up "
        "(the row reaches the fetch code)",
        "inet_aton short forms, trailing dots and percent-encoded hosts are outside the statement: recorded under "
        "notes.observed_only",
    ]
    rule = ("one world: a trust anchor issuing, per host class of the table, one CA with the class in caRepository "
            "(rsync://<authority>/m<i>/ca/) and one with the class in rpkiNotify (https://<authority>/r<i>/notify.xml); "
            "full validation runs with allow-dubious-hosts off and on on a fresh cache, then off and on again on the cache the "
            "run with the option on left (copies of the dubious repositories present) (thorough: 1, 2 and 6 validation threads). Oracle "
            "per row: filter on and host localhost (any case) / IP literal / explicit port => no rsync invocation and "
            "no HTTP request for that URI. non-trivial = row with the antecedent true; distinct by (kind, class)")
    return lib.finish(ctx, r, rule, exhaustive=True)


_NOTE37 = ("TLC checks Fetch.tla exhaustively (3 threads x 2 keys, thorough: two calls per thread, all interleavings, deadlock "
           "freedom included) for the intended rsync order and the RRDP order and rejects the as-shipped rsync order; the "
           "replays drive real threads through the exported schedules on collector::Run with in-process rsync and a minimal "
           "RRDP server double (notification + snapshot). Both transports are replayed, RRDP included. Trusted: preemption "
           "hooks, the doubles, Gate.")
_NOTE31 = ("TLC checks the table of Fetch.tla (27 host classes x 2 URI kinds x option on/off x fresh cache / cache of a run with the option on) against the statement and rejects "
           "the case-sensitive as-shipped predicate; every row the rpki URI parser admits is run through whole validation "
           "runs. Trusted: the object factory, the rsync/HTTP doubles.")

CHECKS = {
    "C37": {
        "run": _run_c37, "engine": "Fetch",
        "technique": "TLA+ model of the once-per-run bookkeeping (Fetch.tla) checked by TLC; exported thread schedules replayed "
                     "with real threads parked at preemption points; free-running stress",
        "level_text": "All interleavings of 3 threads x 2 keys in TLC; every complete 2-thread schedule plus sampled 3-thread "
                      "schedules replayed on the real rsync and RRDP collectors, fetches counted per key and run, data read "
                      "back at return time; 200 (thorough 1000) free-running runs per transport.",
        "level_note": _NOTE37, "design_ref": "4/C37",
    },
    "C31": {
        "run": _run_c31, "engine": "Fetch",
        "technique": "TLA+ table of the dubious-host predicate (Fetch.tla) checked by TLC; every row replayed as a CA certificate "
                     "in a generated repository through full validation runs",
        "level_text": "Full table: host classes (names, localhost in three letter cases, IPv4, bare and bracketed IPv6, ports, "
                      "trailing dot) x caRepository / rpkiNotify x allow-dubious-hosts on / off; requests observed at the rsync "
                      "command and at the HTTP client.",
        "level_note": _NOTE31, "design_ref": "4/C31",
    },
}
