"""C10 — TrustAnchor.tla (load_ta / process_tal_task over consecutive runs) against engine, store and rsync collector."""
import lib

MUTANTS = {
    "nokeycheck": "C10_UsedHasTalKeyAndValidates",
    "novalidate": "C10_UsedHasTalKeyAndValidates",
    "storefirst": "C10_UndecodableKeepsStored",
}


def _run(ctx):
    lib.tlc(ctx, "mc", "MC_TrustAnchor.tla", "MC_TrustAnchor_thorough.cfg" if ctx.thorough else "MC_TrustAnchor.cfg",
            workers=4, timeout=1200)
    # the model has teeth: every mutant of LoadTa is rejected by the invariant that states the matching clause
    for name, inv in sorted(MUTANTS.items()):
        bad = lib.tlc(ctx, "mc_" + name, "MC_TrustAnchor.tla", "MC_TrustAnchor_%s.cfg" % name, workers=2, timeout=600,
                      expect_ok=False, count=False)
        with open(bad["out"], errors="replace") as f:
            if ("Invariant %s is violated" % inv) not in f.read():
                raise lib.ToolError("mutant %s of TrustAnchor.tla is not rejected by %s" % (name, inv))
    if ctx.thorough:
        gens = [("Gen_TrustAnchor.cfg", None), ("Gen_TrustAnchor_two.cfg", None), ("Gen_TrustAnchor_thorough.cfg", 8000),
                ("Gen_TrustAnchor_thorough2.cfg", 8000), ("Gen_TrustAnchor_thorough3.cfg", 4000)]
    else:
        gens = [("Gen_TrustAnchor.cfg", None), ("Gen_TrustAnchor_two.cfg", None)]
    results, total, sampled = [], 0, False
    for i, (cfg, limit) in enumerate(gens):
        gen = lib.tlc(ctx, "gen%d" % i, "Gen_TrustAnchor.tla", cfg, workers=4, timeout=2400, count=False)
        beh = ctx.path("trustanchor%d.ndjson" % i)
        n = lib.extract_replays(gen["out"], beh)
        if n == 0:
            raise lib.ToolError("no behaviours exported by %s" % cfg)
        total += n
        opts = {}
        if limit and n > limit:
            opts["limit"] = limit
            sampled = True
        res = lib.vh(ctx, "trustanchor", beh, out_name="trustanchor%d" % i, opts=opts, cacheable=True, timeout=3000)
        results.append(res["per_property"]["C10"])
    r = lib.merge_results(*results)
    # which TALs there are (TalSet.tla, not a listed property): TLC, then every row against Engine::new and a run
    lib.tlc(ctx, "mc_talset", "MC_TalSet.tla", "MC_TalSet.cfg", workers=2, timeout=600)
    for name, inv in (("bad_skip_broken", "FailsInsteadOfShrinking"), ("bad_unknown_ignored", "FailsInsteadOfShrinking"),
                      ("observation", "NoNameTwice")):
        bad = lib.tlc(ctx, "mc_talset_" + name, "MC_TalSet.tla", "MC_TalSet_%s.cfg" % name, workers=2, timeout=600,
                      expect_ok=False, count=False)
        with open(bad["out"], errors="replace") as f:
            if ("Invariant %s is violated" % inv) not in f.read():
                raise lib.ToolError("MC_TalSet_%s.cfg is not rejected by %s" % (name, inv))
    gen = lib.tlc(ctx, "gen_talset", "MC_TalSet.tla", "Gen_TalSet.cfg", workers=1, timeout=600, count=False)
    rows = ctx.path("talset.ndjson")
    if lib.extract_replays(gen["out"], rows) == 0:
        raise lib.ToolError("no rows exported by Gen_TalSet.cfg")
    ts = lib.vh(ctx, "talset", rows, out_name="talset", cacheable=True, timeout=600)["per_property"]["C10"]
    if ts.get("notes", {}).get("talset_rows_differing_from_TalSet", 0):
        lib.log("  note: %d TAL set rows differ from TalSet.tla (recorded in the evidence, no verdict)"
                % ts["notes"]["talset_rows_differing_from_TalSet"])
    r = lib.merge_results(r, ts)
    ctx.assumptions += [
        "TalSet.tla (which TALs an instance works with: --tal names, no-rir-tals, the extra TAL directory; start-up failure "
        "instead of a smaller set) is checked by TLC and replayed row by row; it is no listed property: differences are "
        "model divergences",
    ]
    ctx.extra["histories_exported"] = total
    ctx.assumptions += [
        "certificates are abstract kinds in the model (good / wrong key / expired / garbage); the factory binds each to one "
        "concrete object: the wrong-key certificate is the valid self-signed trust anchor of a complete second tree with its "
        "own ROA, so using it would surface as that tree's VRP",
        "rsync TAL URIs only, each in an rsync module of its own (fake rsync in-process, hook H10); 'unreach' = the module "
        "transfer exits with code 10, 'absent' = the module is served without the certificate file",
        "stored copies are observed as file bytes under <cache>/stored/ta/rsync/<host>/ and classified by content",
        "validity windows have >= 1 h slack (expired = notAfter 2 h ago)",
    ]
    rule = ("every run of every exported history: one TAL with 1-2 URIs x per URI {good, wrongkey, garbage, expired, absent, "
            "unreach} x dirty/clean, 2-4 consecutive runs from an empty cache, through Engine/ValidationReport with real DER "
            "objects; oracle per run from the inputs and the *observed* stored files: (1) the second tree's VRP is never "
            "served and the TAL's VRP is served only if some URI offers (as download, else as stored copy) the certificate "
            "with the TAL key that validates, (2) a garbage download leaves an existing stored file byte-identical (an expired "
            "one may be removed by the end-of-run cleanup), (3) failed download + proper stored copy => the TAL contributes, "
            "(4) nothing on offer => nothing served; non-trivial = run whose first URI does not simply serve the good "
            "certificate, distinct by (URIs, downloads, stored-before, dirty)")
    return lib.finish(ctx, r, rule, exhaustive=not sampled)


_NOTE = ("TLC checks TrustAnchor.tla (StartRun / LoadTa per URI / Cleanup, transcribed from process_tal_task, load_ta, update_ta, "
         "cleanup_ta and the rsync collector's working copy) for all histories within the bound and rejects three mutants "
         "(no key comparison, no validate_ta, store before decode). Every exported history is replayed through the real engine; "
         "model and code agree on served/not served, stored file, rsync working copy and modules fetched after every run. "
         "Not covered: HTTPS TAL URIs (collector/rrdp load_ta) -- they need the HTTP interceptor hook H1, which does not exist "
         "yet; TALs with more than two URIs; more than one TAL. The statement does not forbid that a decodable wrong-key or "
         "expired download replaces a good stored copy (the code does that); the oracle does not demand otherwise.")
_TECH = ("TLA+ model of trust anchor loading over consecutive runs (TrustAnchor.tla) checked by TLC; every exported history replayed "
         "with real certificates through engine, store and rsync collector")

CHECKS = {
    "C10": {"run": _run, "engine": "TrustAnchor", "technique": _TECH, "design_ref": "4/C10", "level_note": _NOTE,
            "level_text": "All histories within the bound: 1 URI x 3 runs and 2 URIs x 2 runs exhaustively (every download result per "
                          "URI, with and without cleanup, hence with and without a stored good / wrong-key / expired copy); "
                          "thorough adds seeded samples of the 2-URI 3-run and 1-URI 4-run histories."},
}
