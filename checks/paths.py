"""C30 — Paths.tla (URI -> local path builders) against the real engine in a jail directory."""
import json
import lib


def _teeth(ctx):
    """The as-shipped variant (point files named by the URI path, DESIGN F17) must be rejected by TLC."""
    bad = lib.tlc(ctx, "mc_as_shipped", "MC_Paths.tla", "MC_Paths_as_shipped.cfg", workers=2, timeout=900,
                  expect_ok=False, count=False)
    with open(bad["out"], errors="replace") as f:
        txt = f.read()
    if "Invariant C30_Distinct is violated" not in txt:
        raise lib.ToolError("the as_shipped variant of Paths.tla is not rejected by TLC: the model lost its teeth")
    bad = lib.tlc(ctx, "mc_dump_drops_host", "MC_Paths.tla", "MC_Paths_dump_drops_host.cfg", workers=2, timeout=900,
                  expect_ok=False, count=False)
    with open(bad["out"], errors="replace") as f:
        if "Invariant C30_Distinct is violated" not in f.read():
            raise lib.ToolError("the dump_drops_host variant of Paths.tla is not rejected by TLC")


def _run(ctx):
    pid = ctx.pid
    lib.tlc(ctx, "mc", "MC_Paths.tla", "MC_Paths.cfg", workers=4, timeout=900)
    lib.tlc(ctx, "mc_near", "MC_Paths.tla", "MC_Paths_near.cfg", workers=4, timeout=900)
    if ctx.thorough:
        lib.tlc(ctx, "mc_thorough", "MC_Paths.tla", "MC_Paths_thorough.cfg", workers=4, timeout=2400)
    _teeth(ctx)

    beh = ctx.path("behaviours.ndjson")
    if ctx.replay:
        with open(ctx.replay) as f:
            r = json.load(f)
        with open(beh, "w") as f:
            f.write(json.dumps(r["behaviour"]["behaviour"]) + "\n")
        n = 1
    else:
        cfgs = ["Gen_Paths_thorough.cfg", "Gen_Paths_thorough2.cfg", "Gen_Paths_single_thorough.cfg",
                "Gen_Paths_single_thorough2.cfg"] if ctx.thorough \
            else ["Gen_Paths.cfg", "Gen_Paths_single.cfg"]
        n = 0
        with open(beh, "w") as out:
            for i, cfg in enumerate(cfgs):
                gen = lib.tlc(ctx, "gen%d" % i, "Gen_Paths.tla", cfg, workers=4, timeout=2400, count=False)
                part = ctx.path("behaviours%d.ndjson" % i)
                m = lib.extract_replays(gen["out"], part)
                if m == 0:
                    raise lib.ToolError("no behaviours exported by %s" % cfg)
                with open(part) as g:
                    for line in g:
                        out.write(line)
                n += m
            # directory names of RRDP repositories in a dump: every order of four registrations
            lib.tlc(ctx, "mc_dumpregistry_bad", "MC_DumpRegistry.tla", "MC_DumpRegistry_bad.cfg", workers=2, timeout=600,
                    expect_ok=False, count=False)
            gen = lib.tlc(ctx, "gen_dumpregistry", "MC_DumpRegistry.tla", "MC_DumpRegistry.cfg", workers=2, timeout=600, count=False)
            part = ctx.path("dumpreg.ndjson")
            if lib.extract_replays(gen["out"], part) == 0:
                raise lib.ToolError("no registration sequences exported by MC_DumpRegistry")
            with open(part) as g:
                for line in g:
                    out.write(line)
    res = lib.vh(ctx, "paths", beh, props=[pid], timeout=3000, cacheable=True)
    r = res["per_property"][pid]
    ctx.extra["behaviours_exported"] = n
    if r.get("distinct_nontrivial", 0) == 0:
        raise lib.ToolError("no URI reached the path builders: nothing was checked")
    ctx.assumptions += [
        "URIs reach the code the way they do in production: rpkiManifest / rpkiNotify of CA certificates issued below a "
        "generated trust anchor, URIs of TAL files; a URI the rpki parsers refuse cannot get there and counts as not reachable",
        "remote sides are doubles: in-process rsync (hook H10; module tree served from a directory, so of two manifests "
        "where one path is a prefix of the other only the first exists remotely) and in-process HTTP (hook H1) for RRDP "
        "notification/snapshot and HTTPS trust anchors; the FixedNotify repository of kind mftn answers 404 (rsync fallback)",
        "what the code created on behalf of a URI = directory tree of the world with that URI minus the tree of the world "
        "without it (same trust anchor, same run); only creations are observed, reads are not",
        "Linux semantics for path resolution (case-sensitive names, NAME_MAX 255); allow-dubious-hosts on, so that "
        "authorities with a port are fetched",
        "equivalence of URIs: scheme and host compare case-insensitively, everything else byte-exact (no default-port, "
        "percent-encoding or trailing-dot normalisation)",
    ]
    rule = ("every exported case is built as real signed objects and validated by the real engine with the cache inside a "
            "jail directory, then dumped (Engine::dump): singles = every URI over the whole segment alphabet (parser verdict, "
            "confinement, the model's predicted entries); pairs = all accepted URIs one edit apart (host case, port, host, "
            "module, one segment, one/two segments appended, trailing slash) in six roles (manifest URIs without / with "
            "rpkiNotify, rsync and HTTPS trust anchor URIs, rpkiNotify URIs of CAs with different and with the same manifest URI); oracle: nothing created outside cache/ and "
            "dump/; for non-equivalent URIs no shared file, no file that is a directory prefix of the other's entry, no run or "
            "dump that works for each alone and fails for both; non-trivial = accepted URI resp. non-equivalent accepted pair, "
            "distinct by (kind, URIs)")
    return lib.finish(ctx, r, rule, exhaustive=False)


CHECKS = {
    "C30": {
        "run": _run, "engine": "Paths",
        "technique": "TLA+ model of the URI -> local path builders (Paths.tla) checked exhaustively by TLC; exported URI singles "
                     "and pairs replayed as generated repositories through the real engine inside a jail directory",
        "level_text": "TLC: all pairs of accepted URIs (2 hosts x case x port x 2 modules x paths of <= 2 resp. 3 segments incl. "
                      "trailing slash; HTTPS authorities incl. '' and '..') in six roles satisfy Confined and Distinct on the "
                      "intended naming scheme and violate Distinct on the shipped one (F17). Replay: every single URI over the "
                      "alphabet {a, A, '.', '..', %2e%2e, %2F, 'a b', '', 200 chars} and every pair one edit apart is run "
                      "through the real store, collectors and dump.",
        "level_note": "The TLA+ part is a table/format model used for exhaustive enumeration and as a predictor; it proves nothing "
                      "about bytes. The assurance rests on the replay: the real code creates the files and the directory tree is "
                      "diffed. Reads outside the cache are not observable this way. Known finding F17 (file-vs-directory clash of "
                      "stored publication points) is matched by signature collision/file-vs-directory/store-point.",
        "design_ref": "4/C30",
    },
}
