"""C23 — StoreCrash.tla: the process is killed at every file-system step of the store; recovery commands on the crashed cache."""
import lib


def _run(ctx):
    lib.tlc(ctx, "mc_storecrash", "MC_StoreCrash.tla", "MC_StoreCrash.cfg", workers=2, timeout=600)
    bad = lib.tlc(ctx, "mc_storecrash_as_shipped", "MC_StoreCrash.tla", "MC_StoreCrash_as_shipped.cfg", workers=2, timeout=600,
                  expect_ok=False, count=False)
    with open(bad["out"], errors="replace") as f:
        txt = f.read()
        if "Invariant C23_CommandsKeepWorking is violated" not in txt and "Invariant C23_TaNeverTruncated is violated" not in txt:
            raise lib.ToolError("the as_shipped variant of StoreCrash.tla is not rejected by TLC")
    bad2 = lib.tlc(ctx, "mc_storecrash_bad_torn", "MC_StoreCrash.tla", "MC_StoreCrash_bad_torn.cfg", workers=2, timeout=600,
                   expect_ok=False, count=False)
    with open(bad2["out"], errors="replace") as f:
        if "Invariant C23_PointOldOrNew is violated" not in f.read():
            raise lib.ToolError("the seeded fault torn_is_fatal of StoreCrash.tla is not rejected by TLC")
    # the run after the kill (CrashRecovery.tla): the collector's copy is already new, the server says Not Modified
    lib.tlc(ctx, "mc_crashrecovery", "CrashRecovery.tla", "MC_CrashRecovery.cfg", workers=2, timeout=600)
    bad3 = lib.tlc(ctx, "mc_crashrecovery_bad", "CrashRecovery.tla", "MC_CrashRecovery_bad.cfg", workers=2, timeout=600,
                   expect_ok=False, count=False)
    with open(bad3["out"], errors="replace") as f:
        if "Invariant C23_RunAfterKillCatchesUp is violated" not in f.read():
            raise lib.ToolError("the seeded fault not_modified_skips_copy of CrashRecovery.tla is not rejected by TLC")
    gen = lib.tlc(ctx, "gen_storecrash", "MC_StoreCrash.tla", "Gen_StoreCrash.cfg", workers=1, timeout=600, count=False)
    beh = ctx.path("storecrash.ndjson")
    n = lib.extract_replays(gen["out"], beh)
    if n == 0:
        raise lib.ToolError("no crash states exported by StoreCrash")
    res = lib.vh(ctx, "storecrash", beh, timeout=3000)
    r = res["per_property"]["C23"]
    if r.get("evaluations", 0) == 0:
        raise lib.ToolError("no kill point was exercised: " + "; ".join(r.get("divergences", [])[:3]))
    ctx.assumptions += [
        "kill = SIGKILL sent by the process to itself at hook H2 kill points placed before/after every file operation of the "
        "store (create, truncate, write, rename, remove) and inside fs::write (truncated, not yet written), and, by strace fault "
        "injection, at every rename / unlink / rmdir / ftruncate / mkdir call of an updating run and every write call of a run "
        "that creates point files (headers are written in pieces); power loss / fsync ordering is out of scope",
        "validation-threads = 1 so that kill points are numbered deterministically; first an uninterrupted run counts them",
        "commands run through Operation::run in child processes of the harness, rsync served in-process; in the scenario "
        "rrdp_update both child CAs live in one RRDP repository served by a file-based HTTP double of the children (ETag, 304): "
        "the runs after the kill get Not Modified whenever the killed run had fetched the new serial (CrashRecovery.tla)",
    ]
    rule = ("scenarios (fresh cache; update of every stored point to a newer version; never-retrieved point re-attempted; the same update through an RRDP "
            "repository, kill points of the collector included; thorough adds a point retrieved after a failed attempt and more) x every kill point the run passes; after each kill the files are "
            "classified and must be crash states StoreCrash.tla allows, and five commands (vrps -n, vrps --update-after, vrps, "
            "validate, update) each run on a copy of the crashed cache: exit 0, each CA's payload a complete old or new version, "
            "the updating run equal to an uninterrupted one; distinct by (scenario, kill point)")
    return lib.finish(ctx, r, rule, exhaustive=True)


CHECKS = {
    "C23": {"run": _run, "engine": "StoreCrash",
            "technique": "TLA+ model of the store's file operations with Kill (StoreCrash.tla) checked by TLC; real process killed at every numbered kill point, crash states validated against the model, recovery commands run",
            "design_ref": "4/C23",
            "level_text": "Every kill point the scenarios pass (about 170 in quick) is exercised with a real SIGKILL and followed by all recovery commands; "
                          "TLC enumerates the crash states of the file-operation model and rejects the as_shipped status handling.",
            "level_note": "Trusted: placement of the kill points (hook H2) covers every state-changing file operation of store.rs and utils/fatal.rs; "
                          "the collector's own files (rsync copies) are not part of this property; fsync/power loss not modelled."},
}
