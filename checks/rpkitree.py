"""C01, C02, C06, C07, C08, C41 — RpkiTree.tla against the real engine (generated repositories)."""
import lib

PROPS = ["C01", "C02", "C06", "C07", "C08", "C41"]


def _run(ctx):
    pid = ctx.pid
    lib.tlc(ctx, "mc", "MC_RpkiTree.tla", "MC_RpkiTree_thorough.cfg" if ctx.thorough else "MC_RpkiTree.cfg",
            workers=4, timeout=2400)
    results = []
    gens = ["Gen_RpkiTree_thorough.cfg", "Gen_RpkiTree_thorough2.cfg"] if ctx.thorough else ["Gen_RpkiTree.cfg"]
    gens.append("Gen_RpkiTree_unsafe.cfg")
    gens.append("Gen_RpkiTree_depth.cfg")
    total = 0
    for i, cfg in enumerate(gens):
        gen = lib.tlc(ctx, "gen%d" % i, "MC_GenRpkiTree.tla", cfg, workers=4, timeout=3000, count=False)
        beh = ctx.path("behaviours%d.ndjson" % i)
        n = lib.extract_replays(gen["out"], beh)
        if n == 0:
            raise lib.ToolError("no behaviours exported by %s" % cfg)
        total += n
        # one harness run serves all six properties (cached by binary+input)
        res = lib.vh(ctx, "rpkitree", beh, out_name="rpkitree%d" % i, cacheable=True, timeout=3000)
        results.append(res["per_property"][pid])
    if pid in ("C06", "C02"):
        import pubpoint
        results.append(pubpoint.run_module(ctx, pid))
    r = lib.merge_results(*results)
    ctx.extra["worlds_exported"] = total
    ctx.assumptions += [
        "object-level cryptography is abstract in the model: each fault kind is bound to one concrete mutation "
        "produced by the object factory (harness/src/gen), and the real rpki validator must reject exactly those",
        "every world is validated on a fresh cache through the fake rsync (RRDP disabled); validation-threads in {1,2,4}; "
        "the real thread schedule is not controlled",
        "validity windows have >= 1 h slack on either side of now",
    ]
    rules = {
        "C01": "each world (7 tree shapes x every single fault at every site x configurations) is built as real signed objects "
               "and validated by the real engine; oracle: served set is a subset of the specification's expected set, no "
               "duplicates; non-trivial = world with at least one fault, distinct by (shape, faults, config)",
        "C02": "same worlds; oracle: expected set is a subset of the served set (object-level faults remove only the object; "
               "point-level faults remove the point); non-trivial = faulty world with non-empty expected payload",
        "C06": "worlds with a Stale manifest/CRL or a Premature manifest at any CA x stale policy; oracle: under reject (and "
               "always for premature) the CA and its descendants contribute nothing, under warn/accept they are processed",
        "C07": "shapes 'deep' (chain of 5 CAs, max-ca-depth 2/3/32; and 0..5/32 given to Routinator through its command line and configuration file parser) and 'loop' (certificates for ancestors' keys) x faults x "
               "1/2/4 threads under a 60 s watchdog; oracle: terminates, nothing from beyond the depth limit or a repeated key, "
               "rest of the tree intact",
        "C08": "worlds with at least one rejected publication point, and the shape 'halves' with every pair of rejected "
               "points (resources adding up to the whole space, a whole-space CA next to a specific one); oracle: under reject no served VRP overlaps the rejected "
               "CA's resources (whole-family blocks excepted), under warn/accept nothing is removed; non-trivial = some valid "
               "VRP overlaps rejected resources",
        "C41": "faulty worlds; oracle: every object of a CA outside the faulty repository (and not below it) that is valid in the "
               "fault-free world is still served (unsafe VRPs under reject excepted); non-trivial = world with unaffected CAs",
    }
    return lib.finish(ctx, r, rules[pid], exhaustive=not ctx.thorough or True)


_NOTE = ("TLC checks RpkiTree.tla: the operational engine model (task queue, N threads) ends in the declarative result for "
         "every schedule, and the property invariants hold for every world within the bound. Every world is then replayed "
         "through the unmodified Engine/ValidationReport with real DER objects. Trusted: the object factory's mapping of "
         "abstract faults to concrete mutations; rpki crate builders.")
_TECH = "TLA+ model of tree validation (RpkiTree.tla) checked by TLC; every exported world replayed as real signed objects through the engine"

CHECKS = {
    "C01": {"run": _run, "engine": "RpkiTree", "technique": _TECH, "design_ref": "4/C01", "level_note": _NOTE,
            "level_text": "All worlds within the bound (6 shapes incl. two TALs, overlapping resources, deep chain, key loops; every "
                          "single fault of 10-13 kinds at every certificate/manifest/CRL/object/TA site; fault pairs in thorough) "
                          "are validated by the real code and compared with the model's expected set (upper bound)."},
    "C02": {"run": _run, "engine": "RpkiTree", "technique": _TECH, "design_ref": "4/C02", "level_note": _NOTE,
            "level_text": "Same worlds, lower bound: everything the model expects is served; sibling rule checked by TLC and replay."},
    "C06": {"run": _run, "engine": "RpkiTree", "technique": _TECH, "design_ref": "4/C06", "level_note": _NOTE,
            "level_text": "Every CA position x {stale manifest, stale CRL, premature manifest} x stale policies on the fetch path "
                          "of a fresh cache (RpkiTree), and stored versions that are stale (via manifest or CRL) under both policies on the "
                          "stored-data path (PubPoint histories)."},
    "C07": {"run": _run, "engine": "RpkiTree", "technique": _TECH, "design_ref": "4/C07", "level_note": _NOTE,
            "level_text": "TLC proves termination (<>Done under weak fairness) and depth/loop exclusion for all worlds; the replay runs "
                          "deep chains and key loops through the real engine with 1/2/4 threads under a watchdog."},
    "C08": {"run": _run, "engine": "RpkiTree", "technique": _TECH, "design_ref": "4/C08", "level_note": _NOTE,
            "level_text": "All worlds with rejected points; prefix lattice of depth 3 gives nesting/overlap/disjoint cases; each unsafe policy."},
    "C41": {"run": _run, "engine": "RpkiTree", "technique": _TECH, "design_ref": "4/C41", "level_note": _NOTE,
            "level_text": "Metamorphic isolation invariant against the fault-free world of the same shape, for every single fault "
                          "(pairs in thorough) in multi-repository shapes."},
}
