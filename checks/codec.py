"""C27, C28 — Codec.tla / CodecArchive.tla against routinator's record codecs (store::Stored*::{read,write},
RepositoryState via hook H7), the RRDP archive readers and whole validation runs over a damaged cache."""
import json
import lib


def _must_fail(ctx, name, tla, cfg, what):
    bad = lib.tlc(ctx, name, tla, cfg, workers=2, timeout=900, expect_ok=False, count=False)
    with open(bad["out"], errors="replace") as f:
        txt = f.read()
    if "is violated" not in txt:
        raise lib.ToolError("%s is not rejected by TLC: the model lost its teeth" % what)


def _run(ctx):
    pid = ctx.pid
    th = ctx.thorough
    lib.tlc(ctx, "mc", "MC_Codec.tla", "MC_Codec_thorough.cfg" if th else "MC_Codec.cfg", workers=4, timeout=3000)
    if pid == "C27":
        lib.tlc(ctx, "mc_archive", "MC_CodecArchive.tla", "MC_CodecArchive.cfg", workers=2, timeout=600)
        # sensitivity: the decoders as shipped (allocate the announced length first; % bucket_count; no cycle
        # detection) must be rejected
        _must_fail(ctx, "mc_as_shipped", "MC_Codec.tla", "MC_Codec_as_shipped.cfg", "the as_shipped variant of Codec.tla")
        _must_fail(ctx, "mc_archive_as_shipped", "MC_CodecArchive.tla", "MC_CodecArchive_as_shipped.cfg",
                   "the as_shipped variant of CodecArchive.tla")
    else:
        # sensitivity: a None sentinel that collides with a representable value must be rejected
        _must_fail(ctx, "mc_mutant", "MC_Codec.tla", "MC_Codec_mutant.cfg", "the colliding-sentinel mutant of Codec.tla")
    beh = ctx.path("behaviours.ndjson")
    if ctx.replay:
        if pid != "C27":
            raise lib.ToolError("single-case replay exists for record-level C27 cases only; re-run the tier: %s" % ctx.replay)
        open(beh, "w").close()
        res = lib.vh(ctx, "codec", beh, props=[pid], opts={"replay_file": ctx.replay}, timeout=600)
        r = res["per_property"][pid]
        if r.get("notes", {}).get("fidelity_error"):
            raise lib.ToolError(r["notes"]["fidelity_error"])
        return lib.finish(ctx, r, "single replayed case: " + ctx.replay)
    gen = lib.tlc(ctx, "gen", "Gen_Codec.tla", "Gen_Codec_thorough.cfg" if th else "Gen_Codec.cfg", workers=4, timeout=3000,
                  count=False)
    n = lib.extract_replays(gen["out"], beh)
    na = 0
    if pid == "C27":
        gena = lib.tlc(ctx, "gen_archive", "Gen_CodecArchive.tla", "Gen_CodecArchive.cfg", workers=2, timeout=600, count=False)
        beha = ctx.path("behaviours_archive.ndjson")
        na = lib.extract_replays(gena["out"], beha)
        with open(beh, "a") as f, open(beha) as g:
            f.write(g.read())
    if n == 0 or (pid == "C27" and na == 0):
        raise lib.ToolError("no behaviours exported by Gen_Codec / Gen_CodecArchive")
    res = lib.vh(ctx, "codec", beh, props=[pid], timeout=3000, cacheable=(pid == "C28"))
    r = res["per_property"][pid]
    notes = r.get("notes", {})
    ctx.extra["behaviours_exported"] = n + na
    ctx.assumptions += [
        "value classes are represented by one small concrete value each in TLC (exactly the bytes the real encoder "
        "writes, checked) and additionally by large representatives in the replay (70 kB URIs, 256 kB contents, 1000 map entries)",
        "hook H7 (RepositoryState::verif_parse / verif_compose, visibility only)",
        "children run under a counting global allocator; a request above 6 GiB (256 MiB during archive operations) is "
        "recorded and ends the child instead of being served",
    ]
    if pid == "C28":
        rule = ("every exported class vector (quick: at most two fields off their base class, so every pair of classes; "
                "thorough: full product) is built as a real value, written with the real write/compose, followed by four "
                "kinds of trailing bytes and read with the real read/parse - from a slice and from readers that hand out 1, 5/2 and "
                "31/1/64 bytes per call (Read::read may return less than asked for: a BufReader at the end of its buffer); oracle: value equal field by field (times at "
                "one-second resolution), consumed length = written length; plus the current time, StoredPointHeader::new "
                "and the optional binio primitives around their sentinels; non-trivial = every round trip, distinct by "
                "(record, classes, trailing, size)")
    else:
        rule = ("every exported corruption (truncation at every byte, every length prefix set to 10 classes, tag bytes, "
                "invalid contents, bit flips, raw strings) of every class vector with at most one field off base is decoded "
                "by the real decoder in a child process; same operators on large values; 644 (damaged archive field, "
                "operation) pairs plus extras on a real RRDP archive through RrdpArchive / utils::archive::Archive; "
                "validation runs and Store::status over a cache with damaged stored-point files / status.bin; oracle: no "
                "panic, abort, hang (10 s of CPU time of the child; 4 s for archive operations in quick), no single allocation > "
                "64 MiB + 16 x input; "
                "non-trivial = case where the decoder did not return a value, distinct by (record, classes, corruption)")
    rc = lib.finish(ctx, r, rule, exhaustive=True)
    if rc != 0:
        return rc       # a violation of the property's own oracle takes precedence over fidelity complaints
    # model fidelity: the Rust mirror of the decoder must agree with TLC on every exported line, and the real decoder
    # with the model wherever the model's bytes are the real encoder's bytes; anything else is an error of the machinery
    if notes.get("fidelity_error"):
        raise lib.ToolError("model fidelity: %s" % notes["fidelity_error"])
    if notes.get("mirror_mismatches"):
        raise lib.ToolError("model fidelity: the harness' mirror decoder disagrees with Codec.tla on %d cases: %s"
                            % (notes["mirror_mismatches"], r.get("divergences", [])[:2]))
    if notes.get("model_mismatches"):
        raise lib.ToolError("model fidelity: the real codec and Codec.tla disagree on %d cases (same bytes): %s"
                            % (notes["model_mismatches"], r.get("divergences", [])[:2]))
    return rc


_NOTE = ("The TLA+ part is a byte-level format model: TLC checks round trip and bounded allocation of the *intended* decoder "
         "for all class vectors / single corruptions within the bound and rejects the as-shipped variant; it proves nothing "
         "about the Rust code. The assurance about the code rests on the replay: the real encoder produces the model's bytes, "
         "the real decoder's outcome equals the model's on every exported case (else exit 2), and the property oracle "
         "(equality / no crash, no hang, bounded allocation) is evaluated on the real code in child processes.")

CHECKS = {
    "C27": {
        "run": _run, "engine": "Codec",
        "technique": "TLA+ byte-level model of the five record decoders and of the archive index walks (Codec.tla, CodecArchive.tla) "
                     "checked by TLC; every exported damaged input replayed into the real decoders in child processes under a counting allocator",
        "level_text": "All single corruptions (truncation at every byte offset, every length/count prefix set to 0, len-1, len+1, "
                      "remaining+1, 2^31, 2^32-1, 2^40, 2^58, 2^63, 2^64-1, every tag byte, invalid URIs/timestamps/serials, bit "
                      "flips, raw strings) of valid encodings of the 5 record types; every single damaged header/index/object-header "
                      "field of an archive x 7 reader operations; validation runs over damaged stored-point files.",
        "level_note": _NOTE, "design_ref": "4/C27",
    },
    "C28": {
        "run": _run, "engine": "Codec",
        "technique": "TLA+ byte-level model of write/read of the five record types (Codec.tla) checked by TLC (Decode(Encode(v) o rest) = (v, rest)); "
                     "all exported class vectors replayed through the real write/read",
        "level_text": "All combinations of value classes per field (pairwise in quick, full product in thorough: boundary integers, "
                      "sentinel-adjacent values, empty/short/long/non-UTF-8 byte strings, unusual legal URIs, absent optionals, maps "
                      "of 0/1/2/1000 entries), each followed by arbitrary trailing bytes.",
        "level_note": _NOTE, "design_ref": "4/C28",
    },
}
