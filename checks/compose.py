"""C09 — Compose.tla (documented composition of the served set) against the real engine + SnapshotBuilder."""
import json
import lib


def _run(ctx):
    pid = ctx.pid
    lib.tlc(ctx, "mc", "MC_Compose.tla", "MC_Compose_thorough.cfg" if ctx.thorough else "MC_Compose.cfg",
            workers=4, timeout=2400)
    # sensitivity of the model: a design that applies the length limit to the max length must be rejected
    bad = lib.tlc(ctx, "mc_teeth", "MC_Compose.tla", "MC_Compose_teeth.cfg", workers=2, timeout=600,
                  expect_ok=False, count=False)
    with open(bad["out"], errors="replace") as f:
        if "C09_Composition is violated" not in f.read():
            raise lib.ToolError("the maxlen_limit variant of Compose.tla is not rejected by TLC: the model lost its teeth")
    beh = ctx.path("behaviours.ndjson")
    if ctx.replay:
        with open(ctx.replay) as f:
            r = json.load(f)
        with open(beh, "w") as f:
            f.write(json.dumps(r["behaviour"]["behaviour"]) + "\n")
        n = 1
    else:
        gen = lib.tlc(ctx, "gen", "Gen_Compose.tla", "Gen_Compose_thorough.cfg" if ctx.thorough else "Gen_Compose.cfg",
                      workers=4, timeout=2400, count=False)
        n = lib.extract_replays(gen["out"], beh)
    if n == 0:
        raise lib.ToolError("no worlds exported by Gen_Compose")
    res = lib.vh(ctx, "compose", beh, cacheable=not ctx.replay, timeout=6000)
    r = res["per_property"][pid]
    ctx.extra["worlds_exported"] = n
    if not ctx.replay:
        # which exceptions are in effect in a running server (ExceptionsReload.tla, not a listed property)
        lib.tlc(ctx, "mc_reload", "MC_ExceptionsReload.tla", "MC_ExceptionsReload.cfg", workers=2, timeout=600)
        for v in ("broken_clears", "no_reload"):
            bad = lib.tlc(ctx, "mc_reload_bad_" + v, "MC_ExceptionsReload.tla", "MC_ExceptionsReload_bad_%s.cfg" % v, workers=2,
                          timeout=600, expect_ok=False, count=False)
            with open(bad["out"], errors="replace") as f:
                if "Invariant ServedExactly is violated" not in f.read():
                    raise lib.ToolError("MC_ExceptionsReload_bad_%s.cfg is not rejected by TLC" % v)
        gen2 = lib.tlc(ctx, "gen_reload", "MC_ExceptionsReload.tla", "Gen_ExceptionsReload.cfg", workers=1, timeout=600, count=False)
        rows = ctx.path("reload.ndjson")
        if lib.extract_replays(gen2["out"], rows) == 0:
            raise lib.ToolError("no histories exported by Gen_ExceptionsReload.cfg")
        rl = lib.vh(ctx, "reload", rows, out_name="reload", timeout=900)["per_property"][pid]
        nn = rl.get("notes", {})
        if nn.get("reload_histories_differing_from_ExceptionsReload", 0) or nn.get("reload_histories_not_run", 0):
            lib.log("  note: %s of %s reload histories differ from ExceptionsReload.tla, %s could not be run (evidence only, no verdict)"
                    % (nn.get("reload_histories_differing_from_ExceptionsReload", 0), nn.get("reload_histories", 0),
                       nn.get("reload_histories_not_run", 0)))
        r = lib.merge_results(r, rl)
        ctx.assumptions += [
            "ExceptionsReload.tla (a running server reloads the exceptions before every run and keeps the last readable version; "
            "it refuses to start on an unreadable one) is checked by TLC and every history is replayed against a real "
            "`routinator server` child (file rewritten, SIGUSR1, /json); no listed property: differences are model divergences",
        ]
    ctx.assumptions += [
        "the input of the composition is *validated* payload: every generated object is valid (C01/C02 cover validation); "
        "the rejected sibling CA is produced by a listed-but-missing object",
        "prefixes are bit strings of length 0..2 below 10.8.0.0/23 and 2001:db8::/47 with limits 24 and 48, so that lengths "
        "below / at / above the limit and all cover / overlap / disjoint relations occur; two origin ASNs, two router keys",
        "ASPA providers 1..3 of 'block' worlds are 5460 real ASNs each (3 x 5460 = ProviderAsns::MAX_COUNT = 16380, asserted by "
        "the harness), provider 4 is a single ASN; a single ASPA object beyond the limit cannot be validated and is not generated",
        "SLURM per RFC 8416 (slurmVersion 1); a filter object without prefix and asn is not decided by the statement: "
        "differences on such worlds would be logged as model divergences",
        "the order of objects within a publication point is not controlled (validation-threads in {1,2,4}); TLC shows the "
        "result does not depend on the order of publication points",
    ]
    rule = ("every exported world (multiset of validated ROA entries / router certificates / ASPA objects in two CAs below two "
            "TALs, rejected CA resources, SLURM filters and assertions, options) is built as real signed objects, validated on a "
            "fresh cache by the real engine with the SLURM file parsed by LocalExceptions::from_json; oracle: the served origins, "
            "router keys and ASPAs equal the documented composition exactly and the snapshot item count equals the number of "
            "distinct items; non-trivial = world where the composition is not the identity (something over the limit, unsafe, "
            "filtered, duplicated, asserted, disabled, merged or too large), distinct by the whole world")
    return lib.finish(ctx, r, rule, exhaustive=True)


_NOTE = ("TLC checks Compose.tla: the operational transcription of add_roa / process_router_cert / process_aspa / "
         "process_origin / process_key / process_aspa / insert_assertions / into_snapshot ends, for every order of the "
         "publication points, in the declarative composition stated by the property, with each item once; a variant that "
         "limits by max length is rejected. Every exported world is replayed through the unmodified Engine, "
         "ValidationReport::into_snapshot and LocalExceptions. Trusted: the object factory, the mapping of bit strings "
         "to prefixes and of abstract providers to ASN blocks.")

CHECKS = {
    "C09": {
        "run": _run, "engine": "Compose",
        "technique": "TLA+ model of the payload composition (Compose.tla) checked by TLC; every exported world replayed as real "
                     "signed objects + SLURM JSON through the engine and SnapshotBuilder",
        "level_text": "All worlds within the bound: a rich layout (all 22 VRPs of a family with duplicates across ROAs and TALs, 4 "
                      "router certificates, 9 ASPAs at real size) x all 48 option combinations, 8 rejected-resource choices x 3 "
                      "policies, every single SLURM prefix filter (24 shapes; all pairs in thorough), every single prefix "
                      "assertion in a plain and a hostile context, BGPsec filters x assertions; plus enumerated small multisets "
                      "(one VRP x rejected x filter x assertion x options; all pairs of occurrences; router certificate sets; "
                      "all pairs/triples of real-size ASPAs of one customer around the 16380 limit).",
        "level_note": _NOTE, "design_ref": "4/C09",
    },
}
