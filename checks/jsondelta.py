"""C18 — JsonDelta.tla against the real /json-delta endpoint (src/http/delta.rs)."""
import json
import lib

_FAULTS = ["fault_first_reset_on_chunk", "fault_sep_keeps_first", "fault_snapshot_first_per_call",
           "fault_ge", "fault_skip_stops"]


def _run(ctx):
    pid = ctx.pid
    lib.tlc(ctx, "mc", "MC_JsonDelta.tla", "MC_JsonDelta.cfg", workers=4, timeout=900)
    if ctx.thorough:
        lib.tlc(ctx, "mc_counts3", "MC_JsonDelta.tla", "MC_JsonDelta_thorough.cfg", workers=4, timeout=2400)
        # every interleaving up to length 3 per type: checked by the export run below (same invariants + Emit)
    # teeth of the model: every seeded fault must be rejected by TLC
    rejected = []
    for v in (_FAULTS if ctx.thorough else _FAULTS[:3]):
        bad = lib.tlc(ctx, "mc_" + v, "MC_JsonDelta.tla", "MC_JsonDelta_%s.cfg" % v, workers=2, timeout=600,
                      expect_ok=False, count=False)
        with open(bad["out"], errors="replace") as f:
            txt = f.read()
        if "is violated" not in txt and "Deadlock reached" not in txt:
            raise lib.ToolError("the seeded fault %s of JsonDelta.tla is not rejected by TLC: the model lost its teeth" % v)
        rejected.append(v)
    ctx.extra["seeded_faults_rejected_by_tlc"] = rejected

    beh = ctx.path("behaviours.ndjson")
    opts = {}
    if ctx.replay:
        with open(ctx.replay) as f:
            r = json.load(f)
        b = r.get("behaviour", {})
        if "case" in b:
            with open(beh, "w") as g:
                g.write(json.dumps(b["case"]) + "\n")
            opts = {"parts": "cases", "per-group": "1000"}
            n = 1
        elif "sweep" in b:
            open(beh, "w").close()
            opts = {"parts": "sweep", "sweep-only": "%s:%s:%s" % (b["sweep"], b.get("previous_n") or 0, b["n"])}
            n = 0
        else:
            open(beh, "w").close()
            opts = {"parts": "protocol"}
            n = 0
    else:
        gen = lib.tlc(ctx, "gen", "Gen_JsonDelta.tla",
                      "Gen_JsonDelta_thorough.cfg" if ctx.thorough else "Gen_JsonDelta.cfg",
                      workers=4, timeout=2400, count=ctx.thorough)
        n = lib.extract_replays(gen["out"], beh)
        if n == 0:
            raise lib.ToolError("no cases exported by Gen_JsonDelta")
    res = lib.vh(ctx, "jsondelta", beh, props=[pid], opts=opts, timeout=3000)
    r = res["per_property"][pid]
    ctx.extra["cases_exported"] = n
    notes = r.get("notes", {})
    if not ctx.replay:
        if int(notes.get("boundaries_realised", 0)) < 50:
            raise lib.ToolError("only %s chunk boundaries were placed where the model wanted them: the concretisation "
                                "of the cases is broken" % notes.get("boundaries_realised", 0))
        if int(notes.get("boundaries_unrealised", 0)) * 10 > int(notes.get("boundaries_realised", 0)):
            raise lib.ToolError("more than 10% of the chunk boundaries could not be placed (sizes of the rendering "
                                "changed?): " + json.dumps(notes)[:400])
    ctx.assumptions += [
        "route origins and router keys are installed through SLURM assertions, ASPAs through ASPA objects built by the "
        "object factory and validated by the real engine (rsync served in-process, hook H10); every data set goes "
        "through Server::process_once (hook H7: visibility)",
        "the expected lists are read from the real history (delta_since / current) through the public iterators "
        "PayloadDelta::actions and PayloadSnapshot::payload; that these change sets are themselves right is C11-C13",
        "one body chunk on the wire = one buffer handed out by the stream (hyper writes each data frame as one chunk); "
        "the harness checks that every chunk ends at a token end",
        "the rendered sizes used to place a boundary are measured from the real output at start-up; a placement that "
        "misses is retried and counted (boundaries_unrealised), it never affects the verdict",
    ]
    rule = ("(a) model cases: every exported (stream, input, first-chunk boundary) is classified by stream, which of the "
            "six item groups are empty and the tokens before|after the boundary; per class %s is replayed on a real "
            "server with real data whose rendering crosses 64000 bytes exactly at that token (verified from the chunk "
            "sizes of the response); (b) sweeps: every n in %s route origins and %s router keys, reset, one-step delta "
            "(announce n, withdraw the previous n) and every third step a merged two-step delta%s; (c) protocol: 503 "
            "before the first run, HEAD, foreign session, future / half-space / evicted serial (full reset), current, "
            "previous, oldest kept serial. Oracle per response: one JSON document (serde_json, no trailing data), "
            "reset flag, session, serial, fromSerial, announced and withdrawn lists equal as multisets to the real "
            "change set / data set. Non-trivial = response with a chunk boundary realised at the intended token, "
            "a multi-chunk sweep document, a document with <= 2 items, or a protocol case; distinct by (class, input, "
            "boundary) resp. (sweep, n)."
            % ("2 cases" if ctx.thorough else "1 case of up to 3 classes per (stream, boundary tokens) group",
               "0..1500" if ctx.thorough else "{0,1,2} and +-6 around the first two chunk boundaries of",
               "0..700" if ctx.thorough else "the same for",
               "; n ASPAs then none for n within 3 of the first boundary of the announced and of the withdrawn list"
               if ctx.thorough else ""))
    return lib.finish(ctx, r, rule, exhaustive=False)


_NOTE = ("TLC checks JsonDelta.tla (both stream state machines transcribed from delta.rs, every input within the bound, "
         "every threshold position) and rejects five seeded faults (first flag reset at a chunk boundary, separator not "
         "resetting it, per-call first flag in the snapshot stream, >= for >, scanning loop that stops). The replay "
         "places real chunk boundaries at every token class the model distinguishes and sweeps item counts across the "
         "first chunk boundaries. Trusted: serde_json as JSON validator, the harness' token scanner for locating "
         "boundaries (placement only). ASPAs: <= 3 ASPA items per list in the boundary cases (provider lists up to ~5800 "
         "entries); the thorough tier adds data sets of 525-573 ASPAs (first chunk boundary of the announced and of the "
         "withdrawn list) through the real engine.")

CHECKS = {
    "C18": {
        "run": _run, "engine": "JsonDelta",
        "technique": "TLA+ model of DeltaStream/SnapshotStream (JsonDelta.tla) checked by TLC; exported boundary cases and "
                     "item-count sweeps replayed over loopback HTTP against the real /json-delta endpoint",
        "level_text": "All change sets and data sets with 0..3 items per payload type and action (all interleavings up to "
                      "length 3 per type) at every chunk threshold are decided in the model; on the real server every "
                      "class of chunk boundary position (token before/after, empty groups) is realised with a real "
                      "64000-byte boundary, and every item count 0..1500 (origins) / 0..700 (router keys) is served as "
                      "reset and delta and compared with the real change set.",
        "level_note": _NOTE, "design_ref": "4/C18",
    },
}
