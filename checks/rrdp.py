"""C25, C38, C29 — the RRDP collector against an RRDP server double (HTTP interception hook H1).

C25: Rrdp.tla (server histories x faults x client runs) -> histories replayed through collector::Run::repository.
C38: SizeGate.tla (limit x size x place) -> table replayed through load_ta / snapshot / delta updates.
C29: Fallback.tla (policy x outcome x transports x rpkiNotify) -> table replayed with produced outcomes.
"""
import lib


def _variant():
    """Which variant of Rrdp.tla describes the tree under test: the C25 findings still listed as known are in it."""
    known = lib.load_known()
    dirty = any(p == "C25" and s.startswith("rrdp/dirty-archive") for (p, s) in known)
    gap = any(p == "C25" and s.startswith("rrdp/delta-list-gap") for (p, s) in known)
    if dirty and gap:
        return "as_shipped"
    if gap:
        return "no_gap_check"
    if dirty:
        return "no_dirty_mark"
    return "intended"


def _rejected(ctx, name, tla, cfg, inv, timeout=1200):
    bad = lib.tlc(ctx, name, tla, cfg, workers=4, timeout=timeout, expect_ok=False, count=False)
    with open(bad["out"], errors="replace") as f:
        if ("Invariant %s is violated" % inv) not in f.read():
            raise lib.ToolError("%s is not rejected by TLC (%s)" % (cfg, inv))


def _c25(ctx):
    t = ctx.thorough
    lib.tlc(ctx, "mc_rrdp", "MC_Rrdp.tla", "MC_Rrdp_thorough.cfg" if t else "MC_Rrdp.cfg", workers=4, timeout=3000)
    lib.tlc(ctx, "mc_rrdp_chain", "MC_Rrdp.tla", "MC_Rrdp_chain_thorough.cfg" if t else "MC_Rrdp_chain.cfg", workers=4, timeout=3000)
    # the model has teeth: each of the two defects of the pinned tree alone is rejected
    _rejected(ctx, "mc_rrdp_no_dirty_mark", "MC_Rrdp.tla", "MC_Rrdp_no_dirty_mark.cfg", "C25_UpdatedIsSnapshotAtSerial")
    _rejected(ctx, "mc_rrdp_no_gap_check", "MC_Rrdp.tla", "MC_Rrdp_no_gap_check.cfg", "C25_UpdatedIsSnapshotAtSerial")
    variant = _variant()
    ctx.extra["model_variant_of_tree"] = variant
    beh = ctx.path("rrdp.ndjson")
    total = 0
    with open(beh, "w") as out:
        for stem in ("Gen_Rrdp", "Gen_Rrdp_dirty", "Gen_Rrdp_gap"):
            cfg = stem + ("_thorough.cfg" if t else ".cfg")
            gen = lib.tlc(ctx, cfg[:-4].lower(), "Gen_Rrdp.tla", cfg, workers=4, timeout=3000, count=False,
                          env_extra={"RRDP_VARIANT": variant},
                          cacheable=(cfg != "Gen_Rrdp_dirty_thorough.cfg"))      # 400 MB of output: not worth caching
            part = ctx.path(stem + ".ndjson")
            n = lib.extract_replays(gen["out"], part)
            if n == 0:
                raise lib.ToolError("no behaviours exported by %s" % cfg)
            ctx.extra["histories_" + stem] = n
            total += n
            with open(part) as f:
                for line in f:
                    out.write(line)
    ctx.extra["histories_exported"] = total
    limit = 60000 if t else 9000
    res = lib.vh(ctx, "rrdp", beh, opts={"mode": "c25", "limit": limit, "jobs": 8}, cacheable=True, timeout=3400)
    r = res["per_property"]["C25"]
    mism = r.get("notes", {}).get("model_mismatches", 0)
    known = lib.load_known()
    unlisted = [v for v in r.get("violations", []) if ("C25", v.get("sig", "?")) not in known]
    # many differences from the model without any contradiction of the property = the model does not describe this tree
    if not unlisted and mism > 0.01 * max(1, r.get("evaluations", 1)):
        raise lib.ToolError("%d of %d client runs differ from Rrdp.tla (%s): model fidelity problem"
                            % (mism, r.get("evaluations", 0), variant))
    # which way an update goes (nothing / deltas / snapshot and why): DeltaPlan.tla, not a listed property; the rows are further
    # C25 evaluations, differences from the plan are recorded as divergences from the model and do not decide the verdict
    lib.tlc(ctx, "mc_deltaplan", "MC_DeltaPlan.tla", "MC_DeltaPlan.cfg", workers=2, timeout=600)
    _rejected(ctx, "mc_deltaplan_bad_count", "MC_DeltaPlan.tla", "MC_DeltaPlan_bad_count_off_by_one.cfg", "DeltasWheneverUsable", timeout=600)
    _rejected(ctx, "mc_deltaplan_bad_first", "MC_DeltaPlan.tla", "MC_DeltaPlan_bad_no_first_check.cfg", "DeltasExactlyTheMissingOnes", timeout=600)
    _rejected(ctx, "mc_deltaplan_observation", "MC_DeltaPlan.tla", "MC_DeltaPlan_observation.cfg", "UpToDateCopyNeedsNoSnapshot", timeout=600)
    gen = lib.tlc(ctx, "gen_deltaplan", "MC_DeltaPlan.tla", "Gen_DeltaPlan.cfg", workers=1, timeout=600, count=False)
    plan_rows = ctx.path("deltaplan.ndjson")
    n_plan = lib.extract_replays(gen["out"], plan_rows)
    if n_plan == 0:
        raise lib.ToolError("no rows exported by Gen_DeltaPlan.cfg")
    plan = lib.vh(ctx, "rrdp", plan_rows, opts={"mode": "plan", "limit": n_plan if t else 500}, cacheable=True, timeout=3000,
                  out_name="rrdp-plan")["per_property"]["C25"]
    pn = plan.get("notes", {})
    ctx.extra["deltaplan_rows_exported"] = n_plan
    if pn.get("plan_rows_differing_from_DeltaPlan", 0):
        lib.log("  note: %d of %d update plans differ from DeltaPlan.tla (recorded in the evidence, no verdict)"
                % (pn["plan_rows_differing_from_DeltaPlan"], pn.get("plan_rows", 0)))
    r = lib.merge_results(r, plan)
    ctx.assumptions += [
        "DeltaPlan.tla (which way an update goes: nothing / the missing deltas / the snapshot and the reason reported) is checked by "
        "TLC and replayed row by row (quick: 500 of the rows) with the double's validators off; the rows count as C25 evaluations "
        "(copy equal to the announced version), the plan itself is no listed property: differences are model divergences",
        "a client run is collector::Run::repository(ca) for a CA certificate carrying the double's rpkiNotify URI; it returning an "
        "RRDP repository is taken as 'reported successful and used in this run' (the validation reads RRDP data only through it)",
        "the server double answers through hook H1; 4xx/5xx stand for failed requests; object contents are opaque bytes "
        "(the collector does not look into them), distinct per (object, version)",
        "every abstract fault class is concretised by one of several concrete faults chosen by (seed, history, run): HTTP status, "
        "truncated XML at element k, wrong object hash, withdraw of an unknown object, oversize object, repeated element, altered "
        "file content, wrong session/serial attribute, wrong hash in the notification",
        "time is not controlled: Current and Stale are not told apart here (C29 does that)",
    ]
    rule = ("every exported history (thorough: a seeded sample of %d): server versions with 1-2 object changes each, new sessions, an "
            "older notification served again, faults at the notification request, in the delta list (truncated, emptied, newest "
            "missing, gap, duplicate), in listed hashes, at every element of every delta file and in the snapshot; after every "
            "client run: if an RRDP repository was returned the archive (read back from disk) must equal the double's object map "
            "at the archive's (session, serial), that must be the announced one, and load_object must serve exactly it; otherwise "
            "no repository may be returned; non-trivial = history with at least one fault or moved notification" % limit)
    return lib.finish(ctx, r, rule, exhaustive=(not t and total <= limit))


def _table(ctx, pid, mc_tla, mc_cfg, gen_cfg, mode, bad_cfg=None, bad_inv=None):
    lib.tlc(ctx, "mc_" + mode, mc_tla, mc_cfg, workers=2, timeout=600)
    if bad_cfg:
        _rejected(ctx, "mc_%s_bad" % mode, mc_tla, bad_cfg, bad_inv, timeout=600)
    gen = lib.tlc(ctx, "gen_" + mode, mc_tla, gen_cfg, workers=1, timeout=600, count=False)
    beh = ctx.path(mode + ".ndjson")
    n = lib.extract_replays(gen["out"], beh)
    if n == 0:
        raise lib.ToolError("no rows exported by %s" % gen_cfg)
    ctx.extra["rows_exported"] = n
    res = lib.vh(ctx, "rrdp", beh, opts={"mode": mode}, timeout=3000)
    r = res["per_property"][pid]
    unreal = r.get("notes", {}).get("unrealised_rows", 0)
    if unreal > 0.1 * n:
        raise lib.ToolError("%d of %d rows could not be realised against the code" % (unreal, n))
    return r


def _c38(ctx):
    r = _table(ctx, "C38", "MC_SizeGate.tla", "MC_SizeGate.cfg", "Gen_SizeGate.cfg", "c38",
               bad_cfg="MC_SizeGate_as_shipped.cfg", bad_inv="C38_LimitExact")
    # the trust anchor rows once more over a real HTTPS connection (loopback server behind rrdp-proxy, trusted through
    # rrdp-root-cert): with and without Content-Length.  Separate process: the interceptor must not be installed there.
    tls = lib.vh(ctx, "rrdp", ctx.path("c38.ndjson"), opts={"mode": "c38tls"}, timeout=3000, out_name="rrdp-tls")["per_property"]["C38"]
    no_tls = "tls_loopback_unavailable" in tls.get("notes", {})
    r = lib.merge_results(r, tls)
    ctx.assumptions += [
        "hook H1 answers with a complete body, so through it the collector always sees a Content-Length; the trust anchor rows are "
        "therefore run a second time without the hook, over TLS to a loopback server (CONNECT proxy + own CA), with and without "
        "Content-Length (chunked)" + (" - NOT AVAILABLE in this environment: those 21 rows are model-checked only" if no_tls else ""),
        "'accepted' = load_ta returns exactly the served bytes / the update is reported successful and the repository serves the "
        "object byte for byte; 'refused' = anything else (a truncated trust anchor body handed on by load_ta counts as refused: it "
        "cannot be decoded)",
        "small limit = 3000 bytes, default limit = what Config::default carries (20,000,000); huge = default + 5,000,000",
        "objects fetched with rsync are limited by rsync's own --max-size option (collector/rsync.rs:526), not covered here",
    ]
    rule = ("every row of limit {disabled, 3000, default} x size {L-1, L, L+1 for both limits, huge} x place {https trust anchor with "
            "Content-Length (hook and real TLS) and without (real TLS), object in a snapshot, object in a delta}: accepted iff limit "
            "disabled or size <= limit; plus a whole validation run per limit over a TAL with an https URI serving a real "
            "certificate; every row is non-trivial")
    return lib.finish(ctx, r, rule, exhaustive=not no_tls)


def _c29(ctx):
    r = _table(ctx, "C29", "MC_Fallback.tla", "MC_Fallback.cfg", "Gen_Fallback.cfg", "c29",
               bad_cfg="MC_Fallback_mutant.cfg", bad_inv="C29_FollowsTable")
    _rejected(ctx, "mc_c29_bad_snapshot_first", "MC_Fallback.tla", "MC_Fallback_snapshot_first_removes.cfg", "C29_FollowsTable", timeout=600)
    ctx.assumptions += [
        "the decision is observed at collector::Run::repository (the call the validation makes per CA): RRDP repository / rsync "
        "repository / none, cross-checked with the fake rsync's log and the double's request log",
        "RRDP outcomes are produced, not injected. The copy: none / current (successful update) / expired (successful update with "
        "refresh 1 s and fallback time 0: best-before 1-2 s later, then a 3.3 s wait); the stored best-before is read back to "
        "confirm the state before the run. This run's update: ok (with a copy: one delta to apply) / the delta answers 404 (the "
        "snapshot is taken instead) / the notification answers an error or a redirect the client does not follow (500, 503, 404, 403, 301, 302, 307, 308 in turn) / a good notification whose snapshot answers 404 (with a copy: "
        "after a new session, so that no delta can be tried)",
        "for rows with RRDP disabled or a CA without rpkiNotify the local copy is prepared all the same and must not matter",
    ]
    rule = ("all 990 histories of two runs: policy {never, stale, new} x initial copy {none, current, expired} x per run the "
            "update {ok, delta fails, notification fails, snapshot fails} (giving the outcomes updated / current / stale / "
            "unavailable; a successful update leaves a current copy, a failed one must leave the copy as it was) x RRDP on/off "
            "x rsync on/off x rpkiNotify present/absent; oracle per run = the documented table (man page, --rrdp-fallback) on the "
            "outcome the copy and the update define; every run is non-trivial")
    return lib.finish(ctx, r, rule, exhaustive=True)


_TECH25 = ("TLA+ model of the RRDP update protocol (Rrdp.tla: server history, notification/delta/snapshot faults, local archive and "
           "state record) checked by TLC; exported client/server histories replayed through the real collector against a server double")
_NOTE25 = ("TLC checks Rrdp.tla (intended design) for all histories within the bound and rejects the two as-shipped defects "
           "separately; all exported histories (thorough: seeded sample) are replayed through collector::Run::repository with the "
           "archive read back from disk after every run. Trusted: hook H1, the server double (its XML is parsed by the rpki crate in "
           "a self test), the reading of 'reported successful' as 'an RRDP repository is returned'.")

CHECKS = {
    "C25": {"run": _c25, "engine": "Rrdp", "technique": _TECH25, "design_ref": "4/C25", "level_note": _NOTE25,
            "level_text": "All server histories over 2 (thorough 3) objects and <= 3-4 versions with new sessions, serial jumps back and "
                          "forth, every delta list fault, hash fault, file fault at every element, HTTP errors and 304, <= 2 faults, "
                          "<= 3 client runs from every reachable local state."},
    "C38": {"run": _c38, "engine": "SizeGate",
            "technique": "TLA+ decision table of the size gate (SizeGate.tla) checked by TLC; every realisable row replayed through "
                         "load_ta and snapshot/delta updates against the server double",
            "design_ref": "4/C38",
            "level_note": "Content-Length is always known with hook H1; the rows without it (and the trust anchor rows with it, again) "
                          "run hook-free over TLS to a loopback server. The rsync path hands the limit to rsync (--max-size) and is "
                          "not exercised.",
            "level_text": "Limit disabled / 3000 / default x sizes just below, at, above each limit and huge x https trust anchor, "
                          "snapshot object, delta object; plus whole validation runs over an https TAL."},
    "C29": {"run": _c29, "engine": "Fallback",
            "technique": "TLA+ transcription of Run::repository against the documented table (Fallback.tla) checked by TLC; all 990 two-run histories "
                         "replayed with really produced RRDP outcomes",
            "design_ref": "4/C29",
            "level_note": "Outcomes are produced through the server double and real waiting (3.3 s once); one CA per row, one "
                          "thread; the thorough tier repeats every row with two CAs of the same repository looked up by two threads.",
            "level_text": "The full product policy x initial copy x update result per run (two runs sharing the copy) x RRDP on/off x rsync on/off x rpkiNotify yes/no (990 histories)."},
}
