"""C15, C16, C17 — Serve.tla against the real server (HTTP + RTR over loopback, updater parked at preemption points)."""
import json
import os
import subprocess
import lib

SHARDS = 6


def run_module(ctx):
    lib.tlc(ctx, "mc_serve", "MC_Serve.tla", "MC_Serve.cfg", workers=4, timeout=2400)
    if ctx.pid == "C15":
        # the Refresh Interval announced to RTR clients (not a listed property): the model of the code as it is has the
        # zero interval, the clamped one has not; what a real server announces is recorded by the replay
        lib.tlc(ctx, "mc_rtrtiming_clamped", "RtrTiming.tla", "MC_RtrTiming_clamped.cfg", workers=1, timeout=300)
        t = lib.tlc(ctx, "mc_rtrtiming_as_coded", "RtrTiming.tla", "MC_RtrTiming_as_coded.cfg", workers=1, timeout=300,
                    expect_ok=False, count=False)
        with open(t["out"], errors="replace") as f:
            ctx.extra["rtr_refresh_interval_model_as_coded"] = ("zero interval reachable" if "RefreshHintInRange is equal to FALSE" in f.read()
                                                                else "in range")
    for cfg, inv in (("MC_Serve_as_shipped.cfg", "C17_NoLostWakeup"), ("MC_Serve_wholesecond.cfg", "C16_NotModifiedOnlyIfCurrent")):
        bad = lib.tlc(ctx, cfg[:-4].lower(), "MC_Serve.tla", cfg, workers=2, timeout=900, expect_ok=False, count=False)
        with open(bad["out"], errors="replace") as f:
            if ("Invariant %s is violated" % inv) not in f.read():
                raise lib.ToolError("%s is not rejected by TLC (%s)" % (cfg, inv))
    num = 4000 if ctx.thorough else 500
    gen = lib.tlc(ctx, "gen_serve", "Gen_Serve.tla", "Gen_Serve.cfg", workers=1, timeout=1800, count=False,
                  extra=["-simulate", "num=%d" % num, "-depth", "40", "-seed", str(1000 + ctx.seed)], cacheable=False)
    beh = ctx.path("serve.ndjson")
    n = lib.extract_replays(gen["out"], beh)
    if n == 0:
        raise lib.ToolError("no behaviours exported by Gen_Serve")
    ctx.extra["schedules_exported"] = n
    # shards run as separate processes: the schedule controller is process-global
    procs = []
    for i in range(SHARDS):
        out = ctx.path("serve%d.result.json" % i)
        cmd = [lib.VH, "serve", "--in", beh, "--out", out, "--seed", str(ctx.seed), "--tier", ctx.tier,
               "--opt", "shard=%d/%d" % (i, SHARDS)]
        procs.append((out, subprocess.Popen(cmd, cwd=ctx.work, stdout=subprocess.PIPE, stderr=subprocess.PIPE, text=True)))
    results = []
    for out, p in procs:
        try:
            so, se = p.communicate(timeout=3000)
        except subprocess.TimeoutExpired:
            p.kill()
            raise lib.ToolError("serve replay shard timed out")
        if p.returncode != 0 or not os.path.exists(out):
            lib.log(se[-2000:])
            raise lib.ToolError("serve replay shard failed rc=%s" % p.returncode)
        with open(out) as f:
            results.append(json.load(f))
    return results


def trace_validation(ctx):
    """Free-running server executions recorded by the H4 hooks, validated by TLC against Trace_Serve.tla."""
    rounds = 24 if ctx.thorough else 5
    trace = ctx.path("trace.ndjson")
    res = lib.vh(ctx, "serve", None, opts={"freerun": trace, "rounds": rounds}, out_name="freerun", timeout=1200)
    env = {"TRACE": trace, "JAVA_TOOL_OPTIONS": "-Xss1g -Dtlc2.tool.queue.IStateQueue=StateDeque"}
    t = lib.tlc(ctx, "trace_serve", "Trace_Serve.tla", "Trace_Serve.cfg", workers=1, timeout=1500, env_extra=env,
                expect_ok=False, count=False, cacheable=False)
    with open(t["out"], errors="replace") as f:
        out = f.read()
    accepted = t["rc"] == 0 and "No error has been found" in out and "TRACE-REJECTED" not in out
    if not accepted and "TRACE-REJECTED" not in out:
        raise lib.ToolError("TLC could not validate the trace (rc=%s): %s" % (t["rc"], out[-300:].replace("\n", " ")))
    r = res["per_property"]["C15"]
    r.setdefault("notes", {})["trace_accepted"] = accepted
    if not accepted:
        import re
        m = re.search(r"TRACE-REJECTED.*", out)
        keep = os.path.join(lib.REPLAYS, "C15-trace-%d.ndjson" % ctx.seed)
        os.makedirs(lib.REPLAYS, exist_ok=True)
        import shutil
        shutil.copyfile(trace, keep)
        r.setdefault("violations", []).append({
            "sig": "trace-rejected", "detail": "a recorded execution of the real server is not a behaviour of Trace_Serve.tla: "
            + (m.group(0)[:400] if m else out[-400:]), "behaviour": {"trace_file": keep}, "observed": {}})
    else:
        # the binding has teeth: one corrupted field must make TLC reject the trace
        lines = open(trace).read().splitlines()[:400]
        bad = ctx.path("trace_corrupt.ndjson")
        done = False
        with open(bad, "w") as f:
            for l in lines:
                if not done and '"ev":"Install"' in l and '"changed":1' in l and '"serial":0' not in l:
                    l = re_sub_serial(l)
                    done = True
                f.write(l + "\n")
        if done:
            env2 = dict(env, TRACE=bad)
            t2 = lib.tlc(ctx, "trace_serve_corrupt", "Trace_Serve.tla", "Trace_Serve.cfg", workers=1, timeout=600, env_extra=env2,
                         expect_ok=False, count=False, cacheable=False)
            with open(t2["out"], errors="replace") as f:
                if "TRACE-REJECTED" not in f.read():
                    raise lib.ToolError("a corrupted trace is accepted by Trace_Serve.tla: the trace specification lost its teeth")
            r["notes"]["corrupted_trace_rejected"] = True
    return r


def re_sub_serial(line):
    import re
    return re.sub(r'"serial":(\d+)', lambda m: '"serial":%d' % (int(m.group(1)) + 1), line, count=1)


def _run(ctx):
    pid = ctx.pid
    results = run_module(ctx)
    parts = [x["per_property"][pid] for x in results]
    if pid == "C15":
        parts.append(trace_validation(ctx))
    r = lib.merge_results(*parts)
    unreal = r.get("notes", {}).get("unrealised_schedules", 0)
    if unreal and unreal > 0.2 * max(1, ctx.extra.get("schedules_exported", 1)):
        raise lib.ToolError("%d schedules could not be realised against the code: model fidelity problem" % unreal)
    ctx.assumptions += [
        "the updater (Server::process_once) is parked at preemption points between its lock regions (hooks H3); reader "
        "requests are single lock regions in the code and are issued from the harness while the updater is parked",
        "data sets are installed through SLURM assertions (engine without TALs)",
        "schedules are sampled by TLC simulation (seeded by VERIF_SEED), not enumerated: the full interleaving space "
        "(about 1.4 million complete schedules for the small bound) is checked by TLC only",
        "the clock is real: whether two runs fall into the same second is not controlled",
    ]
    rules = {
        "C15": "each sampled schedule is driven through a real server; every HTTP /json response and RTR reset/serial answer is "
               "compared: the data carried must be the data set that was installed under the serial it is tagged with; nothing "
               "before the first run; plus probes with the updater parked inside the history write lock; non-trivial = request "
               "issued while an update is in progress",
        "C16": "conditional requests (ETag, Last-Modified as issued by earlier 200 responses; etag only / date only / both) at every "
               "point of the update sequence; plus bursts of five data-changing runs started at a second boundary (three or more "
               "complete within one second, Last-Modified runs ahead of the clock) with the validators of every earlier data set "
               "presented after each run; oracle: 304 only if the validators' version is the one served; non-trivial = the "
               "client's version is outdated or an update is in progress",
        "C17": "a /json-delta/notify long-poll presenting an earlier version is parked after subscribe / after the version check "
               "while the updater runs; oracle: once the served version differs and the updater is idle the request returns "
               "within 3 s; non-trivial = version differed while the request was pending",
    }
    return lib.finish(ctx, r, rules[pid], exhaustive=False)


_NOTE = ("TLC checks Serve.tla exhaustively for the bound (all interleavings of 3 runs, 3 HTTP requests, 2 RTR queries, one "
         "long-poll) and rejects the as_shipped long-poll order and the whole-second creation time; sampled schedules are replayed "
         "with real threads, HTTP and RTR over loopback. Trusted: preemption hooks, the minimal HTTP/RTR clients of the harness.")
_TECH = "TLA+ model of the update/serve interleavings (Serve.tla) checked by TLC; sampled schedules replayed on a real server with threads parked at preemption points"

CHECKS = {
    "C15": {"run": _run, "engine": "Serve", "technique": _TECH, "design_ref": "4/C15", "level_note": _NOTE,
            "level_text": "Exhaustive interleavings in TLC; 500 (thorough 4000) sampled schedules replayed against the real server, readers "
                          "at every updater preemption point including inside the history write lock."},
    "C16": {"run": _run, "engine": "Serve", "technique": _TECH, "design_ref": "4/C16", "level_note": _NOTE,
            "level_text": "Conditional requests with previously issued validators at every point of the update sequence, in particular "
                          "between installing data and recording the completion time."},
    "C17": {"run": _run, "engine": "Serve", "technique": _TECH, "design_ref": "4/C17", "level_note": _NOTE,
            "level_text": "The long-poll's subscribe/check steps interleaved with a concurrent data change and its notification; safety "
                          "(never stuck) in TLC, bounded-time return in the replay."},
}
