"""C26 — Archive.tla against routinator::utils::archive::Archive<Meta>."""
import json
import os
import re
import lib

_MUTANTS_QUICK = ["no_chain_on_split", "stale_next_on_split", "prev_skips_other_length"]
_MUTANTS_ALL = ["no_unlink_on_coalesce", "no_chain_on_split", "stale_next_on_split", "fits_any", "prev_skips_other_length"]
# branches of publish / delete the replayed behaviours must reach (labels of PublishPath / DeletePath / UpdatePath in Archive.tla)
_PATHS_REQUIRED = ["append", "exact@head", "exact@chain", "split@head", "split@chain", "head-plain", "head-truncate",
                   "head-coalesce", "mid-plain", "mid-coalesce", "mid-truncate", "inplace"]


def _seeded_cfg(ctx, name, seed):
    """Copies a Gen cfg into the work directory with `Seed` set from VERIF_SEED."""
    with open(os.path.join(lib.SPEC, name)) as f:
        txt = f.read()
    txt, k = re.subn(r"(?m)^(\s*Seed\s*=\s*)\d+", r"\g<1>%d" % (seed % 65537), txt)
    if k != 1:
        raise lib.ToolError("no Seed constant in " + name)
    dest = ctx.path(name)
    with open(dest, "w") as f:
        f.write(txt)
    return dest


def _run(ctx):
    pid = ctx.pid
    th = ctx.thorough
    # 1. the design: invariants of Archive.tla on the bounded instance(s)
    lib.tlc(ctx, "mc", "MC_Archive.tla", "MC_Archive_thorough.cfg" if th else "MC_Archive.cfg",
            workers=4, timeout=1500)
    if th:
        lib.tlc(ctx, "mc_closed", "MC_Archive.tla", "MC_Archive_closed.cfg", workers=4, timeout=1500)
    # sensitivity of the model: seeded faults must be rejected by TLC
    for v in (_MUTANTS_ALL if th else _MUTANTS_QUICK):
        bad = lib.tlc(ctx, "mc_mutant_" + v, "MC_Archive.tla", "MC_Archive_mutant_%s.cfg" % v, workers=2,
                      timeout=600, expect_ok=False, count=False)
        with open(bad["out"], errors="replace") as f:
            txt = f.read()
        if "is violated" not in txt:
            raise lib.ToolError("the seeded fault %s of Archive.tla is not rejected by TLC: the model lost its teeth" % v)
    # 2. behaviours
    beh = ctx.path("behaviours.ndjson")
    # share of behaviours replayed a second time with the loose dictionary / with a reopen after every step
    opts = {"loose_every": "4", "reopen_every": "4"} if th else {"loose_every": "6", "reopen_every": "6"}
    n_walks = 0
    if ctx.replay:
        with open(ctx.replay) as f:
            r = json.load(f)
        b = r["behaviour"]
        with open(beh, "w") as f:
            f.write(json.dumps(b["behaviour"]) + "\n")
        n = 1
        opts = {"single": "%s,%s,%d" % (b.get("dict", "tight"),
                                         "always" if b.get("reopen_after_every_step") else "asis",
                                         int(b.get("index", 0))),
                "procs": "1"}
    else:
        gen = lib.tlc(ctx, "gen", "Gen_Archive.tla", "Gen_Archive_thorough.cfg" if th else "Gen_Archive.cfg",
                      workers=4, timeout=1500, count=False)
        n = lib.extract_replays(gen["out"], beh)
        if n == 0:
            raise lib.ToolError("no behaviours exported by Gen_Archive")
        # fragmented archives: random walks over three page sizes (both tiers)
        cfg = _seeded_cfg(ctx, "Gen_Archive_frag.cfg", ctx.seed)
        frag = lib.tlc(ctx, "gen_frag", "Gen_Archive.tla", cfg, workers=4, timeout=1500, count=False)
        fb = ctx.path("frag.ndjson")
        n_frag = lib.extract_replays(frag["out"], fb)
        if n_frag == 0:
            raise lib.ToolError("no fragmentation walks exported by Gen_Archive")
        with open(beh, "a") as f, open(fb) as g:
            for line in g:
                f.write(line)
        n_walks += n_frag
        if th:
            cfg = _seeded_cfg(ctx, "Gen_Archive_walk.cfg", ctx.seed)
            walk = lib.tlc(ctx, "gen_walk", "Gen_Archive.tla", cfg, workers=4, timeout=1500, count=False)
            wb = ctx.path("walks.ndjson")
            n_walks = lib.extract_replays(walk["out"], wb)
            if n_walks == 0:
                raise lib.ToolError("no random walks exported by Gen_Archive")
            with open(beh, "a") as f, open(wb) as g:
                for line in g:
                    f.write(line)
    # which branches of the code do the behaviours take (according to the model)?
    hist = {}
    with open(beh) as f:
        for line in f:
            for st in json.loads(line)["steps"]:
                for part in re.split(r"[:/]", st.get("path", "")):
                    if part and part != "move":
                        hist[part] = hist.get(part, 0) + 1
    ctx.extra["model_paths_replayed"] = hist
    if not ctx.replay:
        missing = [p for p in _PATHS_REQUIRED if p not in hist]
        if missing:
            raise lib.ToolError("the exported behaviours never take the branch(es) %s" % ", ".join(missing))
    # 3. replay on the real archive
    res = lib.vh(ctx, "archive", beh, props=[pid], opts=opts, timeout=2400)
    r = res["per_property"][pid]
    notes = r.get("notes", {})
    ndiv = int(notes.get("layout_divergences", 0)) + int(notes.get("stats_divergences", 0))
    if ndiv:
        lib.log("C26: %d layout/statistics divergences between model and code (not a violation, see evidence)" % ndiv)
    ctx.extra["behaviours_exported"] = n + n_walks
    ctx.extra["behaviours_exhaustive_part"] = n
    ctx.extra["behaviours_random_walks"] = n_walks
    ctx.assumptions += [
        "sizes are scaled: the model has Page = 4, Header = 2 units (Header <= Page as in the code: 33 <= 256); a model "
        "length is mapped to a byte count with the same number of 256-byte pages and the same fill class (exactly full, "
        "one byte short, one byte over the previous page; a second dictionary takes lengths inside the page and empty data)",
        "names that share a bucket in the model are concretised to real names that collide under the archive's own "
        "SipHash-2-4 key (read from the file); the replayer's hash is self-tested against the index of a real archive",
        "meta data is a 4-byte value; a check closure either accepts everything or exactly one stored value",
        "the on-disk tiling is observed by parsing the file directly (header layout of the pinned tree: 33-byte object "
        "header, index end at byte 8230) in addition to verify()",
        "I/O errors of the file system, concurrent access to one archive file and files larger than the address space "
        "are not modelled",
    ]
    rule = ("every exported behaviour is replayed at least once on a fresh Archive<Meta> in a temp file (tight length "
            "dictionary, reopen where the behaviour says so and after the last step); every %s-th additionally with the loose "
            "dictionary and every %s-th with a reopen after every step. After every step: result = map result; then duplicate "
            "publish, update/delete of missing names, update/delete with a rejecting check for every name (must fail and change "
            "nothing); verify() ok with object count = map size; the file parsed front to back tiles [index end, file end) and "
            "holds exactly the blocks the index reaches; fetch / fetch_bytes / fetch_if (accepting, rejecting, accept-all check) "
            "for every name and objects() equal the map byte for byte. evaluations = single comparisons. non-trivial = a step "
            "that takes a branch other than plain append / plain delete at the head of a chain (exact-fit reuse, split, "
            "coalescing, truncation, in-place update, unlink from the middle of a bucket chain, reopen); distinct by "
            "(operation prefix, dictionary, reopen mode)") % (opts.get("loose_every", "-"), opts.get("reopen_every", "-"))
    if th:
        expl = ("part 1 (all sequences of 5 successful mutating operations, lengths {0,1,2}) is enumerated completely; "
                "part 2 is a sample of %d pseudo random walks of 14 operations over the full alphabet (4 names, 6 lengths, "
                "failing operations, fetches, reopens) seeded by VERIF_SEED" % n_walks)
        return lib.finish(ctx, r, rule, exhaustive=False, explanation=expl)
    return lib.finish(ctx, r, rule, exhaustive=not ctx.replay)


_NOTE = ("TLC checks Archive.tla (a line-by-line transcription of publish/update/delete/find_empty/create_empty/"
         "unlink_empty/verify with explicit next pointers, bucket chains and the empty chain) against the abstract map: "
         "refinement, tiling, accounting, verify() ok, no Corrupt/io/panic path reachable, and rejects four seeded faults. "
         "It also shows that all block sizes are whole pages, so the `size + header - 1` boundary of fits() cannot be reached "
         "through the API (an off-by-one there is unobservable). The replay pushes every exported operation sequence through "
         "the real Archive with a property-level oracle; differences to the model's layout are reported as divergences only. "
         "Trusted: the scaling of sizes, the hand-written SipHash (self-tested), the raw file parser.")

CHECKS = {
    "C26": {
        "run": _run, "engine": "Archive",
        "technique": "TLA+ model of the archive file (Archive.tla: blocks, bucket chains, empty chain; refinement to a map) "
                     "checked exhaustively by TLC; exported operation sequences replayed on the real Archive<Meta> in a temp "
                     "file with verify(), a raw tiling walk and full content comparison after every step",
        "level_text": "TLC: all sequences of <= 5 (thorough: <= 6) operations over colliding and distinct names with lengths "
                      "straddling the page size, every operation result compared with the map in every state; thorough adds the "
                      "complete state space for files up to 6 pages with an unbounded number of operations. Replay: all sequences "
                      "of 5 successful mutating operations (thorough: 3 lengths, plus random walks of 14 operations including "
                      "failing operations and reopens) on the real code.",
        "level_note": _NOTE, "design_ref": "4/C26",
    },
}
