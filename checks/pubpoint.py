"""C03, C04, C05 — PubPoint.tla against engine + store over consecutive runs (also feeds C06's stored path)."""
import lib

PROPS = ["C03", "C04", "C05"]


def run_module(ctx, pid):
    lib.tlc(ctx, "mc_pubpoint", "MC_PubPoint.tla", "MC_PubPoint_thorough.cfg" if ctx.thorough else "MC_PubPoint.cfg",
            workers=4, timeout=2400)
    bad = lib.tlc(ctx, "mc_pubpoint_as_shipped", "MC_PubPoint.tla", "MC_PubPoint_as_shipped.cfg", workers=2, timeout=600,
                  expect_ok=False, count=False)
    with open(bad["out"], errors="replace") as f:
        if "C03_OneObjectSet is violated" not in f.read():
            raise lib.ToolError("the as_shipped variant of PubPoint.tla is not rejected by TLC")
    gen = lib.tlc(ctx, "gen_pubpoint", "Gen_PubPoint.tla",
                  "Gen_PubPoint_thorough.cfg" if ctx.thorough else "Gen_PubPoint.cfg", workers=4, timeout=3000, count=False)
    beh = ctx.path("pubpoint.ndjson")
    n = lib.extract_replays(gen["out"], beh)
    if n == 0:
        raise lib.ToolError("no behaviours exported by Gen_PubPoint")
    opts = {"limit": 40000} if ctx.thorough else {}
    res = lib.vh(ctx, "pubpoint", beh, opts=opts, cacheable=True, timeout=3400)
    ctx.extra["pubpoint_behaviours_exported"] = n
    return res["per_property"][pid]


def _run(ctx):
    pid = ctx.pid
    r = run_module(ctx, pid)
    ctx.assumptions += [
        "hook H8 (sort-manifest-entries) makes the engine walk manifest entries in file-name order; the order of a "
        "behaviour is realised through the file names",
        "the stored version is read back black-box by an offline run (collector disabled, stale policy accept)",
        "versions differ in every object's payload, so a mixture of two versions is visible in the served set",
    ]
    rules = {
        "C03": "every exported 2-run (thorough: 3-run) history of one CA: setup (nothing / clean fetch of a version) then any run "
               "(published version, manifest condition, one unavailable file, entry order, stale policy); oracle: payload of "
               "the CA is entirely the fetched or the stored object set or empty; non-trivial = a newer manifest was abandoned "
               "because of a missing/hash-mismatching file while another version is stored",
        "C04": "same histories; oracle: the store changes only to the published version after a complete valid fetch, otherwise it "
               "is unchanged (offline read-back) and its payload is served; non-trivial = fetch not complete",
        "C05": "same histories, version 2 taking every (number, thisUpdate) relation to version 1; oracle: a manifest that is not "
               "strictly newer in both never replaces the stored one nor contributes payload; non-trivial = not strictly newer",
    }
    return lib.finish(ctx, r, rules[pid], exhaustive=not ctx.thorough)


_NOTE = ("TLC checks PubPoint.tla for all run sequences within the bound and rejects the as_shipped variant (no processor "
         "restart); every exported history is replayed through the real engine, store and fake rsync. Trusted: hook H8, "
         "the object factory, the offline read-back of the store.")
_TECH = "TLA+ model of the publication point update protocol (PubPoint.tla) checked by TLC; all exported run histories replayed through engine and store"

CHECKS = {
    "C03": {"run": _run, "engine": "PubPoint", "technique": _TECH, "design_ref": "4/C03", "level_note": _NOTE,
            "level_text": "All histories within the bound: 2 versions x all (number, thisUpdate) relations x stale flags, every single "
                          "unavailable file, both entry orders (forced via hook H8), both stale policies."},
    "C04": {"run": _run, "engine": "PubPoint", "technique": _TECH, "design_ref": "4/C04", "level_note": _NOTE,
            "level_text": "Same histories with every manifest condition (missing, invalid, premature, unreachable, stale) and file fault; "
                          "the store is read back after every run by an offline validation."},
    "C05": {"run": _run, "engine": "PubPoint", "technique": _TECH, "design_ref": "4/C05", "level_note": _NOTE,
            "level_text": "Every (number, thisUpdate) in {<,=,>}^2 of the published against the stored manifest, including replays of the older version."},
}
