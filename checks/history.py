"""C13, C14 — History.tla against routinator::payload::SharedHistory."""
import json
import os
import re
import shutil
import lib


def trace_validation(ctx, pid):
    """Random long executions of the real SharedHistory (vh histtrace), validated by TLC against Trace_History.tla
    in the mode of the property (C13: queries judged, C14: runs judged)."""
    episodes = 6000 if ctx.thorough else 300
    trace = ctx.path("histtrace.ndjson")
    res = lib.vh(ctx, "histtrace", None, props=[pid], opts={"trace": trace, "episodes": episodes}, out_name="histtrace",
                 timeout=1200)
    r = res["per_property"][pid]
    env = {"TRACE": trace, "MODE": pid, "JAVA_TOOL_OPTIONS": "-Xss1g -Dtlc2.tool.queue.IStateQueue=StateDeque"}
    t = lib.tlc(ctx, "trace_history", "Trace_History.tla", "Trace_History.cfg", workers=1, timeout=1500, env_extra=env,
                expect_ok=False, count=False, cacheable=False)
    with open(t["out"], errors="replace") as f:
        out = f.read()
    accepted = t["rc"] == 0 and "No error has been found" in out and "TRACE-REJECTED" not in out
    if not accepted and "TRACE-REJECTED" not in out:
        raise lib.ToolError("TLC could not validate the history trace (rc=%s): %s" % (t["rc"], out[-300:].replace("\n", " ")))
    notes = r.setdefault("notes", {})
    notes["trace_accepted"] = accepted
    with open(trace) as f:
        lines = f.read().splitlines()
    notes["trace_events"] = len(lines)
    if not accepted:
        m = re.search(r"TRACE-REJECTED at event\W+(\d+)", out)
        at = int(m.group(1)) if m else 0
        ev = lines[at - 1] if 0 < at <= len(lines) else ""
        kind = "run" if '"ev":"run"' in ev else "query" if '"ev":"query"' in ev else "other"
        # the episode up to the rejected event is the replay
        start = max(i for i in range(at) if '"ev":"reset"' in lines[i]) if at else 0
        keep = os.path.join(lib.REPLAYS, "%s-histtrace-%d.ndjson" % (pid, ctx.seed))
        os.makedirs(lib.REPLAYS, exist_ok=True)
        with open(keep, "w") as f:
            f.write("\n".join(lines[start:at]) + "\n")
        r.setdefault("violations", []).append({
            "sig": "trace-rejected/" + kind,
            "detail": "a recorded execution of the real SharedHistory is not a behaviour of Trace_History.tla (mode %s); "
                      "first event the specification cannot take: %s" % (pid, ev[:300]),
            "behaviour": {"trace_file": keep, "event": at}, "observed": {"event": ev[:300]}})
    else:
        # the binding has teeth: one corrupted field must make TLC reject the trace
        bad = ctx.path("histtrace_corrupt.ndjson")
        done = False
        with open(bad, "w") as f:
            for i, l in enumerate(lines[:600]):
                if not done and i > 30:
                    if pid == "C14" and '"ev":"run"' in l and '"changed":true' in l:
                        l = l.replace('"changed":true', '"changed":false')
                        done = True
                    elif pid == "C13" and '"res":"delta"' in l and '"ann":[]' not in l:
                        l = re.sub(r'"ann":\[\d+', '"ann":[', l).replace('"ann":[,', '"ann":[')
                        done = True
                f.write(l + "\n")
        if done:
            t2 = lib.tlc(ctx, "trace_history_corrupt", "Trace_History.tla", "Trace_History.cfg", workers=1, timeout=600,
                         env_extra=dict(env, TRACE=bad), expect_ok=False, count=False, cacheable=False)
            with open(t2["out"], errors="replace") as f:
                if "TRACE-REJECTED" not in f.read():
                    raise lib.ToolError("a corrupted trace is accepted by Trace_History.tla: the trace specification lost its teeth")
            notes["corrupted_trace_rejected"] = True
    return r


def _run(ctx):
    pid = ctx.pid
    lib.tlc(ctx, "mc", "MC_History.tla", "MC_History_thorough.cfg" if ctx.thorough else "MC_History.cfg",
            workers=4, timeout=1800)
    # sensitivity of the model: the as-shipped variant (both defects) must be rejected by TLC
    bad = lib.tlc(ctx, "mc_as_shipped", "MC_History.tla", "MC_History_as_shipped.cfg", workers=2, timeout=600,
                  expect_ok=False, count=False)
    with open(bad["out"], errors="replace") as f:
        txt = f.read()
    if "is violated" not in txt:
        raise lib.ToolError("the as_shipped variant of History.tla is not rejected by TLC: the model lost its teeth")
    bad2 = lib.tlc(ctx, "mc_truncate", "MC_History.tla", "MC_History_truncate.cfg", workers=2, timeout=600,
                   expect_ok=False, count=False)
    with open(bad2["out"], errors="replace") as f:
        txt = f.read()
    if "is violated" not in txt:
        raise lib.ToolError("the truncate_to_keep variant of History.tla is not rejected by TLC: the model lost its teeth")
    beh = ctx.path("behaviours.ndjson")
    if ctx.replay:
        with open(ctx.replay) as f:
            r = json.load(f)
        raise lib.ToolError("replay of a single History behaviour needs the full step list; re-run the tier "
                            "(seed %s) instead: %s" % (r.get("seed"), ctx.replay))
    gen = lib.tlc(ctx, "gen", "Gen_History.tla", "Gen_History_thorough.cfg" if ctx.thorough else "Gen_History.cfg",
                  workers=4, timeout=1800, count=False)
    n = lib.extract_replays(gen["out"], beh)
    if n == 0:
        raise lib.ToolError("no behaviours exported by Gen_History")
    res = lib.vh(ctx, "history", beh, props=[pid])
    r = res["per_property"][pid]
    if not ctx.replay:
        r = lib.merge_results(r, trace_validation(ctx, pid))
    ctx.extra["behaviours_exported"] = n
    ctx.assumptions += [
        "the 2^30 serial space of the export and the 2^32 space of the code agree on every comparison used, because "
        "histories are far shorter than half the space; client serials are taken around the server serial and "
        "around server serial + half the space",
        "data sets are installed via SLURM assertions on an empty validation report (public API)",
        "hook H9 (verif_seed_serial) places the session at an arbitrary serial",
        "trace validation (Trace_History.tla): random single-threaded executions (history size 0..10, 20-60 steps, start "
        "serials at both wraps, six items of two payload types) recorded from the public API; the seed hook's own "
        "artefact (an empty change set leading to the start serial) is not queried",
    ]
    if pid == "C13":
        rule = ("every exported history (history size 0..3, natural start and 4 seeded start serials incl. around "
                "2^31 and wrap-around, all sequences of 5 runs over 3 data sets) is replayed on a real SharedHistory; "
                "after every step ~40 client (session, serial) points are queried through PayloadSource::diff; oracle: "
                "answered => own session, issued serial, delta turns DataAt(serial) into current, tagged current; "
                "window/current => answered; non-trivial = point that is issued, in the window, foreign-session or at "
                "distance 2^31; distinct by (history prefix, serial, session)")
    else:
        rule = ("same histories; after every run: serial = previous + [data changed], first serial 0, retained change "
                "sets <= max(history-size, 1) (hook-read deque length); non-trivial = history with more changes than "
                "the cap (eviction exercised), distinct by (history size, steps)")
    return lib.finish(ctx, r, rule, exhaustive=True)


_NOTE = ("Both directions bind the model to the code: TLC behaviours replayed into the code, and recorded executions "
         "(300 episodes quick / 6000 thorough, history size 0..10, 20-60 steps, start serials at both wraps) accepted by "
         "Trace_History.tla, with a corrupted recording rejected. TLC checks History.tla (RFC 1982 arithmetic modulo 16, every start serial, every client serial) exhaustively "
         "and rejects the as_shipped variant; replay runs the exported histories on the real SharedHistory with "
         "serials mapped to the 32-bit space. Trusted: the mapping of symbolic serials, SLURM as data-set installer.")

CHECKS = {
    "C13": {
        "run": _run, "engine": "History",
        "technique": "TLA+ model of delta_since/push_delta (History.tla) checked by TLC; exported histories and query points replayed into SharedHistory::diff; random long executions of the real code trace-validated by TLC against Trace_History.tla",
        "level_text": "All histories within the bound (5-7 runs, history size 0..4, 3 data sets, natural and seeded start serials) "
                      "and, in each reachable state, every client serial (mod 16 in TLC; ~40 boundary points in the 32-bit replay, "
                      "including distance 2^31 and wrap-around) are decided against the exact-or-refused oracle.",
        "level_note": _NOTE, "design_ref": "4/C13",
    },
    "C14": {
        "run": _run, "engine": "History",
        "technique": "TLA+ model (History.tla) checked by TLC; exported histories replayed into SharedHistory::update; random long executions of the real code trace-validated by TLC against Trace_History.tla",
        "level_text": "All run sequences within the bound for every history size 0..4: serial advances exactly once per change "
                      "and the retained queue never exceeds max(history-size, 1).",
        "level_note": _NOTE, "design_ref": "4/C14",
    },
}
