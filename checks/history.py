"""C13, C14 — History.tla against routinator::payload::SharedHistory."""
import json
import lib


def _run(ctx):
    pid = ctx.pid
    lib.tlc(ctx, "mc", "MC_History.tla", "MC_History_thorough.cfg" if ctx.thorough else "MC_History.cfg",
            workers=4, timeout=1800)
    # sensitivity of the model: the as-shipped variant (both defects) must be rejected by TLC
    bad = lib.tlc(ctx, "mc_as_shipped", "MC_History.tla", "MC_History_as_shipped.cfg", workers=2, timeout=600,
                  expect_ok=False, count=False)
    with open(bad["out"], errors="replace") as f:
        txt = f.read()
    if "is violated" not in txt:
        raise lib.ToolError("the as_shipped variant of History.tla is not rejected by TLC: the model lost its teeth")
    beh = ctx.path("behaviours.ndjson")
    if ctx.replay:
        with open(ctx.replay) as f:
            r = json.load(f)
        raise lib.ToolError("replay of a single History behaviour needs the full step list; re-run the tier "
                            "(seed %s) instead: %s" % (r.get("seed"), ctx.replay))
    gen = lib.tlc(ctx, "gen", "Gen_History.tla", "Gen_History_thorough.cfg" if ctx.thorough else "Gen_History.cfg",
                  workers=4, timeout=1800, count=False)
    n = lib.extract_replays(gen["out"], beh)
    if n == 0:
        raise lib.ToolError("no behaviours exported by Gen_History")
    res = lib.vh(ctx, "history", beh, props=[pid])
    r = res["per_property"][pid]
    ctx.extra["behaviours_exported"] = n
    ctx.assumptions += [
        "the 2^30 serial space of the export and the 2^32 space of the code agree on every comparison used, because "
        "histories are far shorter than half the space; client serials are taken around the server serial and "
        "around server serial + half the space",
        "data sets are installed via SLURM assertions on an empty validation report (public API)",
        "hook H9 (verif_seed_serial) places the session at an arbitrary serial",
    ]
    if pid == "C13":
        rule = ("every exported history (history size 0..3, natural start and 4 seeded start serials incl. around "
                "2^31 and wrap-around, all sequences of 5 runs over 3 data sets) is replayed on a real SharedHistory; "
                "after every step ~40 client (session, serial) points are queried through PayloadSource::diff; oracle: "
                "answered => own session, issued serial, delta turns DataAt(serial) into current, tagged current; "
                "window/current => answered; non-trivial = point that is issued, in the window, foreign-session or at "
                "distance 2^31; distinct by (history prefix, serial, session)")
    else:
        rule = ("same histories; after every run: serial = previous + [data changed], first serial 0, retained change "
                "sets <= max(history-size, 1) (hook-read deque length); non-trivial = history with more changes than "
                "the cap (eviction exercised), distinct by (history size, steps)")
    return lib.finish(ctx, r, rule, exhaustive=True)


_NOTE = ("TLC checks History.tla (RFC 1982 arithmetic modulo 16, every start serial, every client serial) exhaustively "
         "and rejects the as_shipped variant; replay runs the exported histories on the real SharedHistory with "
         "serials mapped to the 32-bit space. Trusted: the mapping of symbolic serials, SLURM as data-set installer.")

CHECKS = {
    "C13": {
        "run": _run, "engine": "History",
        "technique": "TLA+ model of delta_since/push_delta (History.tla) checked by TLC; exported histories and query points replayed into SharedHistory::diff",
        "level_text": "All histories within the bound (5-7 runs, history size 0..4, 3 data sets, natural and seeded start serials) "
                      "and, in each reachable state, every client serial (mod 16 in TLC; ~40 boundary points in the 32-bit replay, "
                      "including distance 2^31 and wrap-around) are decided against the exact-or-refused oracle.",
        "level_note": _NOTE, "design_ref": "4/C13",
    },
    "C14": {
        "run": _run, "engine": "History",
        "technique": "TLA+ model (History.tla) checked by TLC; exported histories replayed into SharedHistory::update",
        "level_text": "All run sequences within the bound for every history size 0..4: serial advances exactly once per change "
                      "and the retained queue never exceeds max(history-size, 1).",
        "level_note": _NOTE, "design_ref": "4/C14",
    },
}
