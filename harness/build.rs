// Generates the dispatch table for the replay modules: every file
// src/replay/<name>.rs becomes `pub mod <name>` with `pub fn main(&Args) -> i32`.
use std::{env, fs, path::PathBuf};

fn main() {
    let dir = PathBuf::from(env::var("CARGO_MANIFEST_DIR").unwrap()).join("src/replay");
    println!("cargo::rerun-if-changed={}", dir.display());
    let mut names: Vec<String> = fs::read_dir(&dir).unwrap().filter_map(|e| {
        let p = e.unwrap().path();
        if p.extension().map(|x| x == "rs").unwrap_or(false) {
            Some(p.file_stem().unwrap().to_str().unwrap().to_string())
        } else { None }
    }).collect();
    names.sort();
    let mut out = String::new();
    for n in &names {
        out.push_str(&format!("#[path = \"{}/{}.rs\"] pub mod {};\n", dir.display(), n, n));
    }
    out.push_str("pub fn dispatch(name: &str, args: &crate::common::Args) -> Option<i32> {\n    match name {\n");
    for n in &names {
        out.push_str(&format!("        \"{n}\" => Some({n}::main(args)),\n"));
    }
    out.push_str("        _ => None,\n    }\n}\n");
    out.push_str(&format!("pub const MODULES: &[&str] = &{:?};\n", names));
    fs::write(PathBuf::from(env::var("OUT_DIR").unwrap()).join("replay_mods.rs"), out).unwrap();
    println!("cargo::rustc-check-cfg=cfg(routinator_verif)");
}
