//! RPKI object factory.
//!
//! Turns an abstract description of an RPKI world (TALs, CAs, objects, one
//! optional fault per object) into real DER objects signed with real RSA keys
//! via the `rpki` crate's builders.  Keys are generated once and cached on
//! disk (`/verif/work/keys`), objects are cached in memory by their full
//! parameter string, so generating thousands of slightly different trees is
//! cheap.
//!
//! Times are given in whole hours relative to the factory's `now`, always
//! with at least one hour of slack so that a slow machine cannot flip a
//! verdict.

use std::collections::{BTreeMap, HashMap};
use std::path::{Path, PathBuf};
use std::str::FromStr;
use std::sync::Mutex;
use bytes::Bytes;
use serde::{Deserialize, Serialize};
use rpki::crypto::keys::{PublicKey, PublicKeyFormat};
use rpki::crypto::signer::{KeyError, Signer, SigningError};
use rpki::crypto::softsigner::{KeyId as SoftKeyId, OpenSslSigner};
use rpki::crypto::{DigestAlgorithm, Signature, SignatureAlgorithm};
use rpki::repository::aspa::AspaBuilder;
use rpki::repository::cert::{ExtendedKeyUsage, KeyUsage, Overclaim, TbsCert};
use rpki::repository::crl::{CrlEntry, TbsCertList};
use rpki::repository::manifest::{FileAndHash, ManifestContent};
use rpki::repository::resources::{AsBlock, AsBlocks, AsResources, IpBlock, IpBlocks, IpResources, Prefix as ResPrefix};
use rpki::repository::roa::RoaBuilder;
use rpki::repository::sigobj::SignedObjectBuilder;
use rpki::repository::x509::{Name, Serial, Time, Validity};
use rpki::resources::Asn;
use rpki::uri;
use bcder::encode::Values;
use bcder::Mode;

pub mod world;
pub use world::*;

//------------ Key pool and signer --------------------------------------------

/// Key identifier of the pool signer.
#[derive(Clone, Copy, Debug, PartialEq, Eq)]
pub enum Kid {
    /// Key number `n` of the pool.
    Plain(usize),
    /// Claims to be key `claim` (name, key identifier) but signs with `with`:
    /// produces objects whose signature does not verify.
    Forged { claim: usize, with: usize },
}

/// A signer over a fixed pool of RSA keys whose one-off keys are pool keys too.
pub struct PoolSigner {
    inner: OpenSslSigner,
    keys: Vec<SoftKeyId>,
    one_off: Mutex<usize>,
    one_off_base: usize,
}

pub const POOL_SIZE: usize = 20;
const ONE_OFF_KEYS: usize = 4;

fn key_dir() -> PathBuf {
    let dir = std::env::var("VERIF_KEY_DIR").map(PathBuf::from).unwrap_or_else(|_| {
        PathBuf::from(concat!(env!("CARGO_MANIFEST_DIR"), "/../work/keys"))
    });
    std::fs::create_dir_all(&dir).expect("key dir");
    dir
}

impl PoolSigner {
    pub fn new() -> Self {
        let inner = OpenSslSigner::new();
        let dir = key_dir();
        let mut keys = Vec::new();
        for i in 0..(POOL_SIZE + ONE_OFF_KEYS) {
            let path = dir.join(format!("k{i}.pem"));
            let pem = match std::fs::read(&path) {
                Ok(pem) => pem,
                Err(_) => {
                    let rsa = openssl::rsa::Rsa::generate(2048).expect("rsa");
                    let pem = rsa.private_key_to_pem().expect("pem");
                    // write atomically: several harness processes may start at once
                    let tmp = dir.join(format!("k{i}.pem.{}", std::process::id()));
                    std::fs::write(&tmp, &pem).expect("write key");
                    let _ = std::fs::rename(&tmp, &path);
                    std::fs::read(&path).expect("reread key")
                }
            };
            keys.push(inner.key_from_pem(&pem).expect("load key"));
        }
        PoolSigner { inner, keys, one_off: Mutex::new(0), one_off_base: POOL_SIZE }
    }

    pub fn pubkey(&self, n: usize) -> PublicKey {
        self.inner.get_key_info(&self.keys[n]).expect("key info")
    }
}

impl Signer for PoolSigner {
    type KeyId = Kid;
    type Error = std::io::Error;

    fn create_key(&self, _algorithm: PublicKeyFormat) -> Result<Kid, Self::Error> {
        Err(std::io::Error::other("fixed pool"))
    }

    fn get_key_info(&self, key: &Kid) -> Result<PublicKey, KeyError<Self::Error>> {
        let n = match *key { Kid::Plain(n) => n, Kid::Forged { claim, .. } => claim };
        self.inner.get_key_info(&self.keys[n])
    }

    fn destroy_key(&self, _key: &Kid) -> Result<(), KeyError<Self::Error>> { Ok(()) }

    fn sign<Alg: SignatureAlgorithm, D: AsRef<[u8]> + ?Sized>(
        &self, key: &Kid, algorithm: Alg, data: &D
    ) -> Result<Signature<Alg>, SigningError<Self::Error>> {
        let n = match *key { Kid::Plain(n) => n, Kid::Forged { with, .. } => with };
        self.inner.sign(&self.keys[n], algorithm, data)
    }

    fn sign_one_off<Alg: SignatureAlgorithm, D: AsRef<[u8]> + ?Sized>(
        &self, algorithm: Alg, data: &D
    ) -> Result<(Signature<Alg>, PublicKey), Self::Error> {
        let n = {
            let mut g = self.one_off.lock().unwrap();
            *g = (*g + 1) % ONE_OFF_KEYS;
            self.one_off_base + *g
        };
        let sig = self.inner.sign(&self.keys[n], algorithm, data)
            .map_err(|e| std::io::Error::other(format!("{e}")))?;
        Ok((sig, self.inner.get_key_info(&self.keys[n]).map_err(|e| std::io::Error::other(format!("{e}")))?))
    }

    fn rand(&self, target: &mut [u8]) -> Result<(), Self::Error> {
        self.inner.rand(target)
    }
}

/// Two fixed ECDSA P-256 public keys (SubjectPublicKeyInfo, DER) for router
/// certificates; the private halves are never needed.
pub const EC_SPKI: [&str; 2] = [
    "3059301306072a8648ce3d020106082a8648ce3d030107034200040b09525d6676636138df258c846047e574e8f7c0504d8322fc99d734518090e25316bc6af5c4151000b99b0554b89c3d4d18c2ca619ef306cac607af815baed6",
    "3059301306072a8648ce3d020106082a8648ce3d03010703420004e9b55c95af0bbdf99384292037cc6f490ee2875f353c8fc5a313cd6c43c169d5ee67c90b5094fd9eab1252c12d6dfcc32a55edeaec7322bf8915c4525f891974",
];

pub fn hex(s: &str) -> Vec<u8> {
    (0..s.len()).step_by(2).map(|i| u8::from_str_radix(&s[i..i + 2], 16).unwrap()).collect()
}

pub fn ec_key(n: usize) -> PublicKey {
    use bcder::decode::IntoSource;
    let der = hex(EC_SPKI[n % EC_SPKI.len()]);
    PublicKey::decode(der.as_slice().into_source()).expect("ec spki")
}

//------------ Factory --------------------------------------------------------

pub struct Factory {
    pub signer: PoolSigner,
    pub now: Time,
    cache: Mutex<HashMap<String, Bytes>>,
}

pub fn rsync(s: &str) -> uri::Rsync {
    uri::Rsync::from_str(s).unwrap_or_else(|e| panic!("bad rsync uri {s}: {e}"))
}

fn v4_blocks(prefixes: &[String]) -> IpBlocks {
    IpBlocks::from_iter(prefixes.iter().filter(|p| !p.contains(':')).map(|p| {
        IpBlock::from(ResPrefix::from_v4_str(p).unwrap_or_else(|_| panic!("bad v4 prefix {p}")))
    }))
}

fn v6_blocks(prefixes: &[String]) -> IpBlocks {
    IpBlocks::from_iter(prefixes.iter().filter(|p| p.contains(':')).map(|p| {
        IpBlock::from(ResPrefix::from_v6_str(p).unwrap_or_else(|_| panic!("bad v6 prefix {p}")))
    }))
}

fn as_blocks(ranges: &[(u32, u32)]) -> AsBlocks {
    AsBlocks::from_iter(ranges.iter().map(|(a, b)| {
        AsBlock::from((Asn::from_u32(*a), Asn::from_u32(*b)))
    }))
}

impl Factory {
    pub fn new() -> Self {
        // Whole seconds: the encoded times have second resolution anyway.
        let now = Time::new(chrono::DateTime::from_timestamp(chrono::Utc::now().timestamp(), 0).unwrap());
        Factory { signer: PoolSigner::new(), now, cache: Mutex::new(HashMap::new()) }
    }

    pub fn at(&self, hours: i64) -> Time {
        self.now + chrono::TimeDelta::try_hours(hours).unwrap()
    }

    pub fn at_secs(&self, secs: i64) -> Time {
        self.now + chrono::TimeDelta::try_seconds(secs).unwrap()
    }

    fn validity(&self, v: (i64, i64)) -> Validity {
        Validity::new(self.at(v.0), self.at(v.1))
    }

    fn cached(&self, key: String, make: impl FnOnce() -> Bytes) -> Bytes {
        if let Some(b) = self.cache.lock().unwrap().get(&key) {
            return b.clone()
        }
        let b = make();
        self.cache.lock().unwrap().insert(key, b.clone());
        b
    }

    fn issuer_kid(&self, issuer_key: usize, forged: bool) -> Kid {
        if forged {
            Kid::Forged { claim: issuer_key, with: (issuer_key + 7) % POOL_SIZE }
        } else {
            Kid::Plain(issuer_key)
        }
    }

    /// A CA certificate (self-signed if `issuer` is None).
    pub fn ca_cert(&self, c: &CaCertSpec) -> Bytes {
        let key = format!("ca|{:?}", c);
        self.cached(key, || {
            let pubkey = self.signer.pubkey(c.key);
            let issuer_key = c.issuer_key.unwrap_or(c.key);
            let issuer_pub = self.signer.pubkey(issuer_key);
            let mut cert = TbsCert::new(
                Serial::from(c.serial), issuer_pub.to_subject_name(), self.validity(c.validity),
                None, pubkey, KeyUsage::Ca,
                if c.overclaim_trim { Overclaim::Trim } else { Overclaim::Refuse },
            );
            cert.set_basic_ca(Some(true));
            cert.set_ca_repository(Some(rsync(&c.repo)));
            cert.set_rpki_manifest(Some(rsync(&c.manifest)));
            if let Some(n) = c.notify.as_ref() {
                cert.set_rpki_notify(Some(uri::Https::from_str(n).expect("https uri")));
            }
            if c.issuer_key.is_some() {
                cert.set_authority_key_identifier(Some(issuer_pub.key_identifier()));
                cert.set_crl_uri(Some(rsync(c.crl_uri.as_deref().expect("crl uri"))));
                cert.set_ca_issuer(Some(rsync(c.ca_issuer.as_deref().expect("ca issuer"))));
            }
            if c.inherit {
                cert.set_v4_resources_inherit();
                cert.set_v6_resources_inherit();
                cert.set_as_resources_inherit();
            } else {
                let v4 = v4_blocks(&c.prefixes);
                let v6 = v6_blocks(&c.prefixes);
                if !v4.is_empty() { cert.set_v4_resources(IpResources::blocks(v4)); }
                if !v6.is_empty() { cert.set_v6_resources(IpResources::blocks(v6)); }
                if !c.asns.is_empty() { cert.set_as_resources(AsResources::blocks(as_blocks(&c.asns))); }
            }
            let kid = self.issuer_kid(issuer_key, c.forged);
            cert.into_cert(&self.signer, &kid).expect("sign ca cert").to_captured().into_bytes()
        })
    }

    fn sigobj(&self, o: &EeSpec) -> SignedObjectBuilder {
        SignedObjectBuilder::new(
            Serial::from(o.serial), self.validity(o.validity),
            rsync(&o.crl_uri), rsync(&o.ca_issuer), rsync(&o.uri),
        )
    }

    pub fn roa(&self, issuer_key: usize, ee: &EeSpec, asn: u32, prefixes: &[(String, u8)]) -> Bytes {
        let key = format!("roa|{issuer_key}|{:?}|{asn}|{:?}", ee, prefixes);
        self.cached(key, || {
            let mut b = RoaBuilder::new(Asn::from_u32(asn));
            for (p, max) in prefixes {
                let (addr, len) = p.split_once('/').expect("prefix");
                let len: u8 = len.parse().unwrap();
                let max = if *max == len { None } else { Some(*max) };
                let addr: std::net::IpAddr = addr.parse().expect("addr");
                b.push_addr(addr, len, max);
            }
            let kid = self.issuer_kid(issuer_key, ee.forged);
            let roa = b.finalize(self.sigobj(ee), &self.signer, &kid).expect("roa");
            let res = roa.encode_ref().to_captured(Mode::Der).into_bytes();
            res
        })
    }

    pub fn aspa(&self, issuer_key: usize, ee: &EeSpec, customer: u32, providers: &[u32]) -> Bytes {
        let key = format!("aspa|{issuer_key}|{:?}|{customer}|{:?}", ee, providers);
        self.cached(key, || {
            let mut b = AspaBuilder::empty(Asn::from_u32(customer));
            for p in providers {
                let _ = b.add_provider(Asn::from_u32(*p));
            }
            let kid = self.issuer_kid(issuer_key, ee.forged);
            let aspa = b.finalize(self.sigobj(ee), &self.signer, &kid).expect("aspa");
            let res = aspa.encode_ref().to_captured(Mode::Der).into_bytes();
            res
        })
    }

    pub fn router_cert(&self, issuer_key: usize, ee: &EeSpec, asns: &[u32], ec: usize) -> Bytes {
        let key = format!("rtr|{issuer_key}|{:?}|{:?}|{ec}", ee, asns);
        self.cached(key, || {
            let issuer_pub = self.signer.pubkey(issuer_key);
            let pubkey = ec_key(ec);
            let mut cert = TbsCert::new(
                Serial::from(ee.serial), issuer_pub.to_subject_name(), self.validity(ee.validity),
                Some(router_name(asns.first().copied().unwrap_or(0), ee.serial)),
                pubkey, KeyUsage::Ee, Overclaim::Refuse,
            );
            cert.set_authority_key_identifier(Some(issuer_pub.key_identifier()));
            cert.set_crl_uri(Some(rsync(&ee.crl_uri)));
            cert.set_ca_issuer(Some(rsync(&ee.ca_issuer)));
            cert.set_extended_key_usage(Some(ExtendedKeyUsage::create_router()));
            let ranges: Vec<(u32, u32)> = asns.iter().map(|a| (*a, *a)).collect();
            cert.set_as_resources(AsResources::blocks(as_blocks(&ranges)));
            let kid = self.issuer_kid(issuer_key, ee.forged);
            cert.into_cert(&self.signer, &kid).expect("router cert").to_captured().into_bytes()
        })
    }

    pub fn crl(&self, c: &CrlSpec) -> Bytes {
        let key = format!("crl|{:?}", c);
        self.cached(key, || {
            let pubkey = self.signer.pubkey(c.key);
            let crl = TbsCertList::new(
                Default::default(), pubkey.to_subject_name(),
                self.at(c.this_update), self.at(c.next_update),
                c.revoked.iter().map(|s| CrlEntry::new(Serial::from(*s), self.at(-1))).collect::<Vec<_>>(),
                pubkey.key_identifier(), Serial::from(c.number),
            );
            let kid = self.issuer_kid(c.key, c.forged);
            crl.into_crl(&self.signer, &kid).expect("crl").to_captured().into_bytes()
        })
    }

    pub fn manifest(&self, issuer_key: usize, ee: &EeSpec, m: &MftSpec, files: &[(String, Bytes)]) -> Bytes {
        let digest = DigestAlgorithm::default();
        let entries: Vec<(String, Bytes)> = files.iter().map(|(n, b)| {
            (n.clone(), Bytes::copy_from_slice(digest.digest(b).as_ref()))
        }).collect();
        let key = format!("mft|{issuer_key}|{:?}|{:?}|{:?}", ee, m,
            entries.iter().map(|(n, h)| format!("{n}:{}", hexs(h))).collect::<Vec<_>>());
        self.cached(key, || {
            let fh: Vec<FileAndHash<Bytes, Bytes>> = entries.iter().map(|(n, h)| {
                FileAndHash::new(Bytes::copy_from_slice(n.as_bytes()), h.clone())
            }).collect();
            let content = ManifestContent::new(
                Serial::from(m.number),
                if m.this_update_secs != 0 { self.at_secs(m.this_update_secs) } else { self.at(m.this_update) },
                if m.next_update_secs != 0 { self.at_secs(m.next_update_secs) } else { self.at(m.next_update) },
                digest, fh.iter(),
            );
            let kid = self.issuer_kid(issuer_key, ee.forged);
            let mut so = self.sigobj(ee);
            so.set_v4_resources_inherit();
            so.set_v6_resources_inherit();
            so.set_as_resources_inherit();
            if m.ee_not_after_secs != 0 {
                so.set_validity(Validity::new(self.at(ee.validity.0), self.at_secs(m.ee_not_after_secs)));
            }
            let mft = content.into_manifest(so, &self.signer, &kid).expect("manifest");
            let res = mft.encode_ref().to_captured(Mode::Der).into_bytes();
            res
        })
    }

    pub fn tal_text(&self, uris: &[String], key: usize) -> String {
        let mut s = String::new();
        for u in uris {
            s.push_str(u);
            s.push('\n');
        }
        s.push('\n');
        s.push_str(&rpki::util::base64::Xml.encode(self.signer.pubkey(key).to_info_bytes().as_ref()));
        s.push('\n');
        s
    }
}

pub fn hexs(b: &[u8]) -> String {
    b.iter().map(|x| format!("{x:02x}")).collect()
}

fn router_name(asn: u32, serial: u64) -> Name {
    // RFC 8209: CN = ROUTER-<asn hex>, serialNumber = <router id hex>
    use bcder::encode::PrimitiveContent;
    use bcder::{encode, Oid, Tag};
    let cn = format!("ROUTER-{:08X}", asn);
    let sn = format!("{:08X}", serial as u32);
    let at_cn = Oid(&[85u8, 4, 3][..]);
    let at_sn = Oid(&[85u8, 4, 5][..]);
    let values = encode::sequence((
        encode::set(encode::sequence((at_cn.encode(), cn.as_bytes().encode_as(Tag::PRINTABLE_STRING)))),
        encode::set(encode::sequence((at_sn.encode(), sn.as_bytes().encode_as(Tag::PRINTABLE_STRING)))),
    ));
    let captured = bcder::Captured::from_values(Mode::Der, values);
    use bcder::decode::IntoSource;
    bcder::Mode::Der.decode(captured.as_slice().into_source(), Name::take_from).expect("router name")
}

//------------ Publication ----------------------------------------------------

/// Everything that is published for a world.
#[derive(Clone, Debug, Default)]
pub struct Published {
    /// rsync URI -> content
    pub files: BTreeMap<String, Bytes>,
    /// TAL file name (without .tal) -> text
    pub tals: BTreeMap<String, String>,
}

impl Published {
    /// Writes the files below `root/<host>/<module>/...`, replacing what is there.
    pub fn write_rsync_tree(&self, root: &Path) {
        let _ = std::fs::remove_dir_all(root);
        std::fs::create_dir_all(root).unwrap();
        for (uri, content) in &self.files {
            let rel = uri.strip_prefix("rsync://").expect("rsync uri");
            let path = root.join(rel);
            std::fs::create_dir_all(path.parent().unwrap()).unwrap();
            std::fs::write(&path, content).unwrap();
        }
    }

    /// Like `write_rsync_tree`, for worlds whose URIs cannot all live in one
    /// file system tree (a file where another URI needs a directory, names
    /// ending in a slash, over-long names): the first file wins, what cannot
    /// be written is returned.  The authority is written in lower case, the
    /// way routinator asks for a module.  URIs of other schemes are skipped.
    pub fn write_rsync_tree_tolerant(&self, root: &Path) -> Vec<String> {
        let _ = std::fs::remove_dir_all(root);
        std::fs::create_dir_all(root).unwrap();
        let mut skipped = Vec::new();
        for (uri, content) in &self.files {
            if uri.len() < 8 || !uri[..8].eq_ignore_ascii_case("rsync://") { continue }
            let rel = &uri[8..];
            let (auth, rest) = rel.split_once('/').unwrap_or((rel, ""));
            if rest.is_empty() || rest.ends_with('/') { skipped.push(uri.clone()); continue }
            let path = root.join(auth.to_ascii_lowercase()).join(rest);
            let ok = path.parent().map(|d| std::fs::create_dir_all(d).is_ok()).unwrap_or(false)
                && !path.is_dir() && std::fs::write(&path, content).is_ok();
            if !ok { skipped.push(uri.clone()) }
        }
        skipped
    }

    pub fn write_tals(&self, dir: &Path) {
        let _ = std::fs::remove_dir_all(dir);
        std::fs::create_dir_all(dir).unwrap();
        for (name, text) in &self.tals {
            std::fs::write(dir.join(format!("{name}.tal")), text).unwrap();
        }
    }
}

#[derive(Clone, Debug, Serialize, Deserialize)]
pub struct Nothing;
