//! RPKI object factory (filled in by later modules).
