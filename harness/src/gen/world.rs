//! The concrete description of an RPKI world and its publication.

use std::collections::BTreeMap;
use bytes::Bytes;
use serde::{Deserialize, Serialize};
use super::{Factory, Published};

//------------ Low-level specs (inputs of the Factory) -------------------------

#[derive(Clone, Debug, Default, Serialize, Deserialize)]
pub struct CaCertSpec {
    pub key: usize,
    pub issuer_key: Option<usize>,
    pub serial: u64,
    pub validity: (i64, i64),
    pub repo: String,
    pub manifest: String,
    pub notify: Option<String>,
    pub crl_uri: Option<String>,
    pub ca_issuer: Option<String>,
    pub prefixes: Vec<String>,
    pub asns: Vec<(u32, u32)>,
    pub inherit: bool,
    pub overclaim_trim: bool,
    pub forged: bool,
}

#[derive(Clone, Debug, Default, Serialize, Deserialize)]
pub struct EeSpec {
    pub serial: u64,
    pub validity: (i64, i64),
    pub crl_uri: String,
    pub ca_issuer: String,
    pub uri: String,
    pub forged: bool,
}

#[derive(Clone, Debug, Default, Serialize, Deserialize)]
pub struct CrlSpec {
    pub key: usize,
    pub this_update: i64,
    pub next_update: i64,
    pub revoked: Vec<u64>,
    pub number: u64,
    pub forged: bool,
}

#[derive(Clone, Debug, Default, Serialize, Deserialize)]
pub struct MftSpec {
    pub number: u64,
    pub this_update: i64,
    pub next_update: i64,
    /// If non-zero, overrides `this_update` with an offset in seconds.
    pub this_update_secs: i64,
    /// If non-zero, overrides `next_update` with an offset in seconds.
    pub next_update_secs: i64,
    /// If non-zero, the EE certificate's notAfter as an offset in seconds.
    pub ee_not_after_secs: i64,
}

//------------ The world -------------------------------------------------------

/// A fault injected into one object.  Object-level faults invalidate only the
/// object; publication-point-level faults (Missing, HashMismatch and all
/// manifest/CRL faults) make the fetch of the point fail.
#[derive(Clone, Copy, Debug, Default, PartialEq, Eq, Hash, Serialize, Deserialize)]
pub enum Fault {
    #[default]
    None,
    /// Signed with a key other than the issuer's (issuer name and AKI as usual).
    BadSig,
    /// Serial number listed on the issuer's CRL.
    Revoked,
    /// notAfter in the past.
    Expired,
    /// notBefore in the future.
    NotYet,
    /// CRL distribution point differs from the manifest's CRL.
    WrongCrl,
    /// Content is not DER at all (manifest hash is correct).
    Garbage,
    /// Listed on the manifest but absent from the repository.
    Missing,
    /// Listed with the hash of different content.
    HashMismatch,
    /// Present in the repository but not listed on the manifest.
    Unlisted,
    /// nextUpdate in the past (manifests and CRLs).
    Stale,
    /// thisUpdate in the future (manifests).
    Premature,
    /// Claims resources the issuer does not hold (an extra prefix / ASN).
    Overclaim,
}

#[derive(Clone, Debug, Serialize, Deserialize)]
pub enum ObjKind {
    Roa { asn: u32, prefixes: Vec<(String, u8)> },
    Aspa { customer: u32, providers: Vec<u32> },
    Router { asns: Vec<u32>, ec: usize },
    /// Arbitrary bytes under an arbitrary file name (e.g. unknown object types).
    Raw { hex: String },
}

#[derive(Clone, Debug, Serialize, Deserialize)]
pub struct Obj {
    /// File name within the CA's repository directory.
    pub name: String,
    pub kind: ObjKind,
    pub serial: u64,
    pub validity: (i64, i64),
    pub fault: Fault,
}

#[derive(Clone, Debug, Serialize, Deserialize)]
pub struct Ca {
    pub name: String,
    /// Index of the issuing CA; `None` for a trust anchor.
    pub parent: Option<usize>,
    pub key: usize,
    /// caRepository, ends with '/'.
    pub repo: String,
    pub notify: Option<String>,
    pub prefixes: Vec<String>,
    pub asns: Vec<(u32, u32)>,
    pub inherit: bool,
    pub serial: u64,
    pub validity: (i64, i64),
    /// Fault of the CA certificate as published by the parent.
    pub cert_fault: Fault,
    pub mft: MftSpec,
    pub mft_validity: (i64, i64),
    pub mft_serial: u64,
    pub mft_fault: Fault,
    pub crl: (i64, i64),
    pub crl_fault: Fault,
    pub objects: Vec<Obj>,
    /// Publish nothing at all for this CA's repository directory.
    pub withheld: bool,
    /// A prefix this CA does not hold (used by `Fault::Overclaim`).
    pub outside: String,
    /// Explicit file name of the manifest below `repo` (default `<name>.mft`;
    /// may be empty: the manifest URI is then the directory URI `repo`).
    #[serde(default)]
    pub mft_name: Option<String>,
}

impl Ca {
    pub fn new(name: &str, parent: Option<usize>, key: usize, repo: &str) -> Self {
        Ca {
            name: name.into(), parent, key, repo: repo.into(), notify: None,
            prefixes: Vec::new(), asns: Vec::new(), inherit: false,
            serial: 100 + key as u64, validity: (-24, 24 * 30),
            cert_fault: Fault::None,
            mft: MftSpec { number: 1, this_update: -2, next_update: 24, ..Default::default() },
            mft_validity: (-2, 24), mft_serial: 1, mft_fault: Fault::None,
            crl: (-2, 24), crl_fault: Fault::None,
            objects: Vec::new(), withheld: false, outside: "198.51.100.0/24".into(),
            mft_name: None,
        }
    }

    pub fn mft_uri(&self) -> String {
        match self.mft_name.as_ref() {
            Some(n) => format!("{}{}", self.repo, n),
            None => format!("{}{}.mft", self.repo, self.name),
        }
    }
    pub fn crl_uri(&self) -> String { format!("{}{}.crl", self.repo, self.name) }
}

#[derive(Clone, Copy, Debug, PartialEq, Eq, Serialize, Deserialize)]
pub enum TaVariant {
    /// The proper self-signed certificate with the TAL's key.
    Good,
    /// A valid self-signed certificate with a different key.
    WrongKey,
    /// Not a certificate.
    Garbage,
    /// Proper key but expired.
    Expired,
    /// Nothing published at this URI.
    Absent,
}

#[derive(Clone, Debug, Serialize, Deserialize)]
pub struct Tal {
    pub name: String,
    /// Index of the root CA in `World::cas`.
    pub ca: usize,
    /// Certificate URIs with what is published there.
    pub uris: Vec<(String, TaVariant)>,
}

#[derive(Clone, Debug, Default, Serialize, Deserialize)]
pub struct World {
    pub tals: Vec<Tal>,
    pub cas: Vec<Ca>,
}

fn validity_for(f: Fault, v: (i64, i64)) -> (i64, i64) {
    match f {
        Fault::Expired => (v.0.min(-48), -2),
        Fault::NotYet => (2, v.1.max(48)),
        _ => v,
    }
}

fn tamper(b: &Bytes) -> Bytes {
    let mut v = b.to_vec();
    if let Some(last) = v.last_mut() { *last ^= 0x01; } else { v.push(1) }
    Bytes::from(v)
}

impl World {
    /// The URI under which the certificate of CA `i` is published.
    pub fn cert_uri(&self, i: usize) -> String {
        let ca = &self.cas[i];
        match ca.parent {
            Some(p) => format!("{}{}.cer", self.cas[p].repo, ca.name),
            // (the first rsync URI: the value ends up in caIssuers, which is an rsync URI)
            None => self.tals.iter().find(|t| t.ca == i)
                .and_then(|t| t.uris.iter().map(|u| u.0.clone())
                    .find(|u| u.len() >= 8 && u[..8].eq_ignore_ascii_case("rsync://")))
                .unwrap_or_else(|| format!("rsync://ta.verif.test/ta/{}.cer", ca.name)),
        }
    }

    fn ca_cert_spec(&self, i: usize) -> super::CaCertSpec {
        let ca = &self.cas[i];
        let parent = ca.parent.map(|p| &self.cas[p]);
        let mut prefixes = ca.prefixes.clone();
        let mut asns = ca.asns.clone();
        if ca.cert_fault == Fault::Overclaim {
            prefixes.push(parent.map(|p| p.outside.clone()).unwrap_or_else(|| "198.51.100.0/24".into()));
            asns.push((4_200_000_000, 4_200_000_001));
        }
        super::CaCertSpec {
            key: ca.key,
            issuer_key: parent.map(|p| p.key),
            serial: ca.serial,
            validity: validity_for(ca.cert_fault, ca.validity),
            repo: ca.repo.clone(),
            manifest: ca.mft_uri(),
            notify: ca.notify.clone(),
            crl_uri: parent.map(|p| if ca.cert_fault == Fault::WrongCrl {
                format!("{}other.crl", p.repo)
            } else { p.crl_uri() }),
            ca_issuer: ca.parent.map(|p| self.cert_uri(p)),
            prefixes, asns,
            inherit: ca.inherit,
            overclaim_trim: false,
            forged: ca.cert_fault == Fault::BadSig,
        }
    }

    /// Builds and "publishes" every object of the world.
    pub fn build(&self, f: &Factory) -> Published {
        let mut out = Published::default();

        // Trust anchors and TALs.
        for tal in &self.tals {
            let ca = &self.cas[tal.ca];
            let spec = self.ca_cert_spec(tal.ca);
            for (uri, variant) in &tal.uris {
                let bytes = match variant {
                    TaVariant::Good => Some(f.ca_cert(&spec)),
                    TaVariant::WrongKey => {
                        let mut s = spec.clone();
                        s.key = (ca.key + 11) % super::POOL_SIZE;
                        Some(f.ca_cert(&s))
                    }
                    TaVariant::Garbage => Some(Bytes::from_static(b"this is not a certificate")),
                    TaVariant::Expired => {
                        let mut s = spec.clone();
                        s.validity = (-24 * 30, -2);
                        Some(f.ca_cert(&s))
                    }
                    TaVariant::Absent => None,
                };
                if let Some(bytes) = bytes {
                    out.files.insert(uri.clone(), bytes);
                }
            }
            out.tals.insert(
                tal.name.clone(),
                f.tal_text(&tal.uris.iter().map(|u| u.0.clone()).collect::<Vec<_>>(), ca.key),
            );
        }

        // Publication points.
        for (i, ca) in self.cas.iter().enumerate() {
            if ca.withheld { continue }
            let cert_uri = self.cert_uri(i);
            // (file name, bytes whose hash is listed, bytes published or None, listed)
            let mut items: Vec<(String, Bytes, Option<Bytes>, bool)> = Vec::new();
            let mut revoked: Vec<u64> = Vec::new();

            let place = |items: &mut Vec<(String, Bytes, Option<Bytes>, bool)>,
                             name: String, bytes: Bytes, fault: Fault| {
                match fault {
                    Fault::Missing => items.push((name, bytes, None, true)),
                    Fault::HashMismatch => { let t = tamper(&bytes); items.push((name, bytes, Some(t), true)) }
                    Fault::Unlisted => items.push((name, bytes.clone(), Some(bytes), false)),
                    Fault::Garbage => {
                        let g = Bytes::from(format!("garbage instead of {name}").into_bytes());
                        items.push((name, g.clone(), Some(g), true))
                    }
                    _ => items.push((name, bytes.clone(), Some(bytes), true)),
                }
            };

            // Child CA certificates.
            for (j, child) in self.cas.iter().enumerate() {
                if child.parent != Some(i) { continue }
                let bytes = f.ca_cert(&self.ca_cert_spec(j));
                if child.cert_fault == Fault::Revoked { revoked.push(child.serial) }
                place(&mut items, format!("{}.cer", child.name), bytes, child.cert_fault);
            }

            // Signed objects and router certificates.
            for o in &ca.objects {
                let ee = super::EeSpec {
                    serial: o.serial,
                    validity: validity_for(o.fault, o.validity),
                    crl_uri: if o.fault == Fault::WrongCrl { format!("{}other.crl", ca.repo) } else { ca.crl_uri() },
                    ca_issuer: cert_uri.clone(),
                    uri: format!("{}{}", ca.repo, o.name),
                    forged: o.fault == Fault::BadSig,
                };
                let bytes = match &o.kind {
                    ObjKind::Roa { asn, prefixes } => {
                        let mut prefixes = prefixes.clone();
                        if o.fault == Fault::Overclaim {
                            let len: u8 = ca.outside.split_once('/').unwrap().1.parse().unwrap();
                            prefixes.push((ca.outside.clone(), len))
                        }
                        f.roa(ca.key, &ee, *asn, &prefixes)
                    }
                    ObjKind::Aspa { customer, providers } => {
                        let customer = if o.fault == Fault::Overclaim { 4_200_000_000 } else { *customer };
                        f.aspa(ca.key, &ee, customer, providers)
                    }
                    ObjKind::Router { asns, ec } => {
                        let mut asns = asns.clone();
                        if o.fault == Fault::Overclaim { asns.push(4_200_000_000) }
                        f.router_cert(ca.key, &ee, &asns, *ec)
                    }
                    ObjKind::Raw { hex } => Bytes::from(super::hex(hex)),
                };
                if o.fault == Fault::Revoked { revoked.push(o.serial) }
                place(&mut items, o.name.clone(), bytes, o.fault);
            }

            // CRL.
            if ca.mft_fault == Fault::Revoked { revoked.push(ca.mft_serial) }
            let crl_times = match ca.crl_fault {
                Fault::Stale => (ca.crl.0.min(-48), -2),
                _ => ca.crl,
            };
            let crl = f.crl(&super::CrlSpec {
                key: ca.key, this_update: crl_times.0, next_update: crl_times.1,
                revoked, number: ca.mft.number, forged: ca.crl_fault == Fault::BadSig,
            });
            place(&mut items, format!("{}.crl", ca.name), crl, ca.crl_fault);

            // Manifest.
            let mut mft = ca.mft.clone();
            let mut mft_validity = ca.mft_validity;
            match ca.mft_fault {
                Fault::Stale => { mft.this_update = mft.this_update.min(-48); mft.next_update = -2; mft.next_update_secs = 0; }
                Fault::Premature => { mft.this_update = 2; mft.this_update_secs = 0; mft.next_update = mft.next_update.max(48); mft_validity.1 = mft_validity.1.max(48); }
                _ => {}
            }
            let ee = super::EeSpec {
                serial: ca.mft_serial,
                validity: validity_for(ca.mft_fault, mft_validity),
                crl_uri: if ca.mft_fault == Fault::WrongCrl { format!("{}other.crl", ca.repo) } else { ca.crl_uri() },
                ca_issuer: cert_uri.clone(),
                uri: ca.mft_uri(),
                forged: ca.mft_fault == Fault::BadSig,
            };
            let listed: Vec<(String, Bytes)> = items.iter().filter(|x| x.3)
                .map(|x| (x.0.clone(), x.1.clone())).collect();
            let mft_bytes = f.manifest(ca.key, &ee, &mft, &listed);
            match ca.mft_fault {
                Fault::Missing => {}
                Fault::Garbage => { out.files.insert(ca.mft_uri(), Bytes::from_static(b"not a manifest")); }
                Fault::HashMismatch => { out.files.insert(ca.mft_uri(), tamper(&mft_bytes)); }
                _ => { out.files.insert(ca.mft_uri(), mft_bytes); }
            }
            for (name, _, published, _) in items {
                if let Some(bytes) = published {
                    out.files.insert(format!("{}{}", ca.repo, name), bytes);
                }
            }
        }
        out
    }
}

/// rsync module ("rsync://host/module/") of a URI.
pub fn module_of(uri: &str) -> String {
    let rest = uri.strip_prefix("rsync://").unwrap_or(uri);
    let mut parts = rest.splitn(3, '/');
    let host = parts.next().unwrap_or("");
    let module = parts.next().unwrap_or("");
    format!("rsync://{host}/{module}/")
}

pub type FileMap = BTreeMap<String, Bytes>;
