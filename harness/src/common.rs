//! Shared plumbing: argument parsing, behaviour files, result reports.

use std::collections::{BTreeMap, HashSet};
use std::fs;
use std::io::{BufRead, BufReader, Write};
use serde_json::{json, Value};

#[derive(Clone, Debug, Default)]
pub struct Args {
    pub input: Option<String>,
    pub out: Option<String>,
    pub seed: u64,
    pub tier: String,
    pub props: Vec<String>,
    pub opts: BTreeMap<String, String>,
    pub rest: Vec<String>,
}

impl Args {
    pub fn parse(argv: &[String]) -> Self {
        let mut res = Args { tier: "quick".into(), ..Default::default() };
        let mut i = 0;
        while i < argv.len() {
            let a = &argv[i];
            let mut val = || { i += 1; argv.get(i).cloned().unwrap_or_default() };
            match a.as_str() {
                "--in" => res.input = Some(val()),
                "--out" => res.out = Some(val()),
                "--seed" => res.seed = val().parse().unwrap_or(0),
                "--tier" => res.tier = val(),
                "--props" => res.props = val().split(',').filter(|s| !s.is_empty()).map(String::from).collect(),
                "--opt" => {
                    let v = val();
                    let (k, v) = v.split_once('=').unwrap_or((v.as_str(), ""));
                    res.opts.insert(k.to_string(), v.to_string());
                }
                _ => res.rest.push(a.clone()),
            }
            i += 1;
        }
        res
    }

    pub fn opt(&self, key: &str) -> Option<&str> {
        self.opts.get(key).map(|s| s.as_str())
    }

    pub fn opt_usize(&self, key: &str, default: usize) -> usize {
        self.opt(key).and_then(|v| v.parse().ok()).unwrap_or(default)
    }

    pub fn wants(&self, prop: &str) -> bool {
        self.props.is_empty() || self.props.iter().any(|p| p == prop)
    }

    pub fn thorough(&self) -> bool { self.tier == "thorough" }
}

/// Reads an ndjson behaviour file.
pub fn read_behaviours(path: &str) -> Vec<Value> {
    let f = fs::File::open(path).unwrap_or_else(|e| {
        eprintln!("vh: cannot open {path}: {e}");
        std::process::exit(2)
    });
    BufReader::new(f).lines().filter_map(|l| {
        let l = l.ok()?;
        let l = l.trim();
        if l.is_empty() { return None }
        match serde_json::from_str(l) {
            Ok(v) => Some(v),
            Err(e) => {
                eprintln!("vh: bad behaviour line: {e}: {l}");
                std::process::exit(2)
            }
        }
    }).collect()
}

#[derive(Default)]
struct PropReport {
    evaluations: u64,
    traces: u64,
    nontrivial: HashSet<String>,
    samples: Vec<Value>,
    violations: Vec<Value>,
    violation_sigs: HashSet<String>,
    divergences: Vec<String>,
    notes: BTreeMap<String, Value>,
}

/// Collects what a replay run covered, per property.
#[derive(Default)]
pub struct Report {
    module: String,
    props: BTreeMap<String, PropReport>,
}

impl Report {
    pub fn new(module: &str) -> Self {
        Report { module: module.into(), props: Default::default() }
    }

    fn p(&mut self, pid: &str) -> &mut PropReport {
        self.props.entry(pid.to_string()).or_default()
    }

    /// Make sure the property shows up even if nothing was evaluated.
    pub fn touch(&mut self, pid: &str) { self.p(pid); }

    /// One oracle evaluation against the real code.
    pub fn eval(&mut self, pid: &str) { self.p(pid).evaluations += 1; }

    pub fn evals(&mut self, pid: &str, n: u64) { self.p(pid).evaluations += n; }

    /// One complete behaviour replayed step by step against the real code.
    pub fn trace(&mut self, pid: &str) { self.p(pid).traces += 1; }

    /// Marks a case as non-trivial; `key` identifies the case for distinctness.
    pub fn nontrivial(&mut self, pid: &str, key: impl Into<String>) {
        self.p(pid).nontrivial.insert(key.into());
    }

    pub fn sample(&mut self, pid: &str, v: Value) {
        let p = self.p(pid);
        if p.samples.len() < 3 { p.samples.push(v) }
    }

    pub fn note(&mut self, pid: &str, key: &str, v: Value) {
        self.p(pid).notes.insert(key.to_string(), v);
    }

    pub fn add_note(&mut self, pid: &str, key: &str, n: u64) {
        let e = self.p(pid).notes.entry(key.to_string()).or_insert(json!(0));
        *e = json!(e.as_u64().unwrap_or(0) + n);
    }

    /// The model and the code differ in a way that does not contradict the property.
    pub fn divergence(&mut self, pid: &str, text: impl Into<String>) {
        let p = self.p(pid);
        if p.divergences.len() < 20 { p.divergences.push(text.into()) }
    }

    /// The real code contradicted the property's oracle.  `sig` names the
    /// call site / input class / history shape (matched against
    /// known_findings.txt by the driver).  Only the first violation per
    /// signature keeps its full behaviour.
    pub fn violation(&mut self, pid: &str, sig: &str, detail: impl Into<String>, behaviour: Value, observed: Value) {
        let p = self.p(pid);
        let first = p.violation_sigs.insert(sig.to_string());
        if first || p.violations.len() < 10 {
            p.violations.push(json!({
                "sig": sig, "detail": detail.into(),
                "behaviour": behaviour, "observed": observed,
            }));
        }
        else {
            let e = p.notes.entry("further_violations".into()).or_insert(json!(0));
            *e = json!(e.as_u64().unwrap_or(0) + 1);
        }
    }

    /// Merges another report (of a worker thread) into this one.
    pub fn absorb(&mut self, other: Report) {
        for (pid, o) in other.props {
            let p = self.props.entry(pid).or_default();
            p.evaluations += o.evaluations;
            p.traces += o.traces;
            p.nontrivial.extend(o.nontrivial);
            for s in o.samples { if p.samples.len() < 3 { p.samples.push(s) } }
            for v in o.violations {
                let sig = v["sig"].as_str().unwrap_or("").to_string();
                let first = p.violation_sigs.insert(sig);
                if first || p.violations.len() < 10 { p.violations.push(v) }
            }
            for d in o.divergences { if p.divergences.len() < 20 { p.divergences.push(d) } }
            for (k, v) in o.notes {
                match (p.notes.get(&k).and_then(|x| x.as_u64()), v.as_u64()) {
                    (Some(a), Some(b)) => { p.notes.insert(k, json!(a + b)); }
                    _ => { p.notes.insert(k, v); }
                }
            }
        }
    }

    pub fn violations(&self, pid: &str) -> usize {
        self.props.get(pid).map(|p| p.violations.len()).unwrap_or(0)
    }

    pub fn to_json(&self) -> Value {
        let mut props = serde_json::Map::new();
        for (pid, p) in &self.props {
            props.insert(pid.clone(), json!({
                "evaluations": p.evaluations,
                "traces": p.traces,
                "distinct_nontrivial": p.nontrivial.len(),
                "samples": p.samples,
                "violations": p.violations,
                "divergences": p.divergences,
                "notes": p.notes,
            }));
        }
        json!({ "module": self.module, "per_property": props })
    }

    pub fn write(&self, args: &Args) -> i32 {
        let text = serde_json::to_string(&self.to_json()).unwrap();
        match args.out {
            Some(ref path) => {
                let mut f = fs::File::create(path).expect("cannot create result file");
                f.write_all(text.as_bytes()).unwrap();
            }
            None => println!("{text}"),
        }
        0
    }
}

/// Deterministic small RNG (xorshift*), so that every random choice derives
/// from VERIF_SEED without depending on the `rand` crate's stream stability.
#[derive(Clone, Debug)]
pub struct Rng(u64);

impl Rng {
    pub fn new(seed: u64) -> Self { Rng(seed.wrapping_mul(0x9E3779B97F4A7C15) ^ 0xD1B54A32D192ED03) }
    pub fn next(&mut self) -> u64 {
        let mut x = self.0;
        x ^= x >> 12; x ^= x << 25; x ^= x >> 27;
        self.0 = x;
        x.wrapping_mul(0x2545F4914F6CDD1D)
    }
    pub fn below(&mut self, n: u64) -> u64 { if n == 0 { 0 } else { self.next() % n } }
    pub fn pick<'a, T>(&mut self, xs: &'a [T]) -> &'a T { &xs[self.below(xs.len() as u64) as usize] }
    pub fn shuffle<T>(&mut self, xs: &mut [T]) {
        for i in (1..xs.len()).rev() {
            let j = self.below(i as u64 + 1) as usize;
            xs.swap(i, j);
        }
    }
}

/// Runs `f`, turning a panic into `Err(message)`.
pub fn catch<T>(f: impl FnOnce() -> T + std::panic::UnwindSafe) -> Result<T, String> {
    std::panic::catch_unwind(f).map_err(|e| {
        if let Some(s) = e.downcast_ref::<&str>() { s.to_string() }
        else if let Some(s) = e.downcast_ref::<String>() { s.clone() }
        else { "panic".to_string() }
    })
}
