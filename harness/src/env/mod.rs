//! Environment doubles: fake rsync, loopback clients, child-process control.
