//! Environment doubles: test bed with a fake rsync, engine runner.

use std::collections::BTreeSet;
use std::path::{Path, PathBuf};
use std::sync::Once;
use routinator::config::Config;
use routinator::engine::Engine;
use routinator::metrics::Metrics;
use routinator::payload::{PayloadSnapshot, ValidationReport};
use routinator::slurm::LocalExceptions;
use crate::gen::Published;

pub mod server;
pub mod rrdp;
pub mod tls;

static INIT: Once = Once::new();

/// Initialises logging of the routinator crate once.  Logging is off unless
/// VERIF_LOG is set (then warnings go to stderr).
pub fn init_process() {
    INIT.call_once(|| {
        let _ = routinator::process::Process::init();
        if std::env::var_os("VERIF_LOG").is_none() {
            log::set_max_level(log::LevelFilter::Off);
        }
        else if std::env::var("VERIF_LOG").map(|v| v == "debug").unwrap_or(false) {
            log::set_max_level(log::LevelFilter::Debug);
        }
    });
}

/// A scratch environment: cache dir, TAL dir, published rsync tree, fake rsync.
pub struct TestBed {
    pub dir: tempfile::TempDir,
    pub cache: PathBuf,
    pub tals: PathBuf,
    pub pubdir: PathBuf,
    pub rsync: PathBuf,
    pub rsync_log: PathBuf,
    pub fail_dir: PathBuf,
}

/// Installs the in-process rsync (hook H10) for all beds of this process:
/// the bed is found from the destination path (<root>/cache/...).
pub fn install_inproc_rsync() {
    static ONCE: Once = Once::new();
    ONCE.call_once(install_inproc_rsync_again);
}

/// Installs the in-process rsync unconditionally (after a check removed it to have the command spawned).
pub fn install_inproc_rsync_again() {
    routinator::verif::set_rsync_override(Some(std::sync::Arc::new(|source: &str, dest: &Path| {
        let root = dest.ancestors().find(|p| p.join("pub").is_dir() && p.join("fail").is_dir());
        match root {
            Some(root) => fake_rsync(&[root.to_string_lossy().into_owned(), source.to_string(),
                                       dest.to_string_lossy().into_owned()]),
            None => 12,
        }
    })));
}

impl TestBed {
    /// A bed whose rsync fetches run in-process (fast; hook H10).
    pub fn new() -> Self {
        install_inproc_rsync();
        Self::new_spawning()
    }

    /// A bed without installing the in-process rsync: unless another bed of
    /// this process installed it, routinator spawns the harness binary as its
    /// rsync command.
    pub fn new_spawning() -> Self {
        init_process();
        // tmpfs if there is one: the beds are created and wiped thousands of times
        let base = std::env::var("VERIF_TMP").map(PathBuf::from).unwrap_or_else(|_| {
            let shm = PathBuf::from("/dev/shm");
            if shm.is_dir() { shm.join("vh-beds") } else { std::env::temp_dir() }
        });
        std::fs::create_dir_all(&base).ok();
        let dir = tempfile::Builder::new().prefix("vh-bed-").tempdir_in(base).expect("tempdir");
        let root = dir.path().to_path_buf();
        let bed = TestBed {
            cache: root.join("cache"),
            tals: root.join("tals"),
            pubdir: root.join("pub"),
            rsync: root.join("fake-rsync"),
            rsync_log: root.join("rsync.log"),
            fail_dir: root.join("fail"),
            dir,
        };
        for d in [&bed.cache, &bed.tals, &bed.pubdir, &bed.fail_dir] {
            std::fs::create_dir_all(d).unwrap();
        }
        bed
    }

    /// A configuration using only this bed: no bundled TALs, rsync via the
    /// fake rsync, RRDP disabled.
    pub fn config(&self) -> Config {
        let mut c = Config::default_with_paths(self.dir.path().join("routinator.conf"), self.cache.clone());
        c.no_rir_tals = true;
        c.bundled_tals = Vec::new();
        c.extra_tals_dir = Some(self.tals.clone());
        c.rsync_command = std::env::current_exe().expect("current exe").to_string_lossy().into_owned();
        c.rsync_args = Some(vec!["fake-rsync".into(), self.dir.path().to_string_lossy().into_owned()]);
        c.disable_rrdp = true;
        c.validation_threads = 2;
        c.rsync_timeout = Some(std::time::Duration::from_secs(20));
        c
    }

    pub fn publish(&self, p: &Published) {
        p.write_rsync_tree(&self.pubdir);
        p.write_tals(&self.tals);
    }

    /// Publishes only the repository tree (TALs unchanged).
    pub fn publish_files(&self, p: &Published) {
        p.write_rsync_tree(&self.pubdir);
    }

    pub fn take_rsync_log(&self) -> Vec<String> {
        let res = std::fs::read_to_string(&self.rsync_log).unwrap_or_default()
            .lines().map(String::from).collect();
        let _ = std::fs::remove_file(&self.rsync_log);
        res
    }

    /// Makes the fake rsync fail (exit code) for the given module URI, or work again.
    pub fn fail_module(&self, module: &str, code: Option<i32>) {
        let rel = module.strip_prefix("rsync://").unwrap_or(module);
        let key: String = rel.chars().map(|c| if c == '/' { '_' } else { c }).collect();
        let path = self.fail_dir.join(key);
        match code {
            Some(c) => std::fs::write(path, format!("{c}")).unwrap(),
            None => { let _ = std::fs::remove_file(path); }
        }
    }

    /// Makes the fake rsync take `ms` milliseconds for the given module URI (None: no delay).
    pub fn delay_module(&self, module: &str, ms: Option<u64>) {
        let rel = module.strip_prefix("rsync://").unwrap_or(module);
        let key: String = rel.chars().map(|c| if c == '/' { '_' } else { c }).collect();
        let dir = self.dir.path().join("delay");
        std::fs::create_dir_all(&dir).unwrap();
        match ms {
            Some(ms) => std::fs::write(dir.join(key), format!("{ms}")).unwrap(),
            None => { let _ = std::fs::remove_file(dir.join(key)); }
        }
    }

    pub fn wipe_cache(&self) {
        let _ = std::fs::remove_dir_all(&self.cache);
        std::fs::create_dir_all(&self.cache).unwrap();
    }
}

fn copy_tree(src: &Path, dst: &Path) -> std::io::Result<()> {
    std::fs::create_dir_all(dst)?;
    for e in std::fs::read_dir(src)? {
        let e = e?;
        let p = e.path();
        let d = dst.join(e.file_name());
        if p.is_dir() { copy_tree(&p, &d)?; } else { std::fs::copy(&p, &d)?; }
    }
    Ok(())
}

/// The fake rsync: `vh fake-rsync <bed root> [rsync options...] <source> <destination>`.
/// Serves `<root>/pub/<host>/<module>/` for `rsync://<host>/<module>/`, logs the
/// source to `<root>/rsync.log`, fails with the code in `<root>/fail/<host>_<module>_`
/// if that file exists, and mirrors the module into the destination (--delete).
pub fn fake_rsync(args: &[String]) -> i32 {
    if args.len() < 3 { eprintln!("fake rsync: too few arguments"); return 1 }
    let root = PathBuf::from(&args[0]);
    let src = &args[args.len() - 2];
    let dst = PathBuf::from(&args[args.len() - 1]);
    {
        use std::io::Write;
        if let Ok(mut f) = std::fs::OpenOptions::new().create(true).append(true).open(root.join("rsync.log")) {
            let _ = writeln!(f, "{src}");
        }
    }
    {
        // the whole command line (without the bed root): the options routinator hands to rsync
        use std::io::Write;
        if let Ok(mut f) = std::fs::OpenOptions::new().create(true).append(true).open(root.join("rsync-args.log")) {
            let _ = writeln!(f, "{}", args[1..].join(" "));
        }
    }
    {
        // (source, destination) pairs for the checks that look at where a module is copied to
        use std::io::Write;
        if let Ok(mut f) = std::fs::OpenOptions::new().create(true).append(true).open(root.join("rsync-dest.log")) {
            let _ = writeln!(f, "{src}\t{}", dst.display());
        }
    }
    // the scheme is case-insensitive (routinator passes it on the way the URI spelled it)
    let rel = if src.len() >= 8 && src[..8].eq_ignore_ascii_case("rsync://") { &src[8..] } else { src.as_str() };
    let key: String = rel.chars().map(|c| if c == '/' { '_' } else { c }).collect();
    if let Ok(ms) = std::fs::read_to_string(root.join("delay").join(&key)) {
        // a slow transfer: the run is well under way when this module arrives
        std::thread::sleep(std::time::Duration::from_millis(ms.trim().parse().unwrap_or(0)));
    }
    if let Ok(code) = std::fs::read_to_string(root.join("fail").join(&key)) {
        eprintln!("fake rsync: configured failure for {src}");
        return code.trim().parse().unwrap_or(10)
    }
    let from = root.join("pub").join(rel);
    if !from.is_dir() {
        eprintln!("fake rsync: unknown module {src}");
        return 23
    }
    let _ = std::fs::remove_dir_all(&dst);
    match copy_tree(&from, &dst) {
        Ok(()) => 0,
        Err(e) => { eprintln!("fake rsync: copy failed: {e}"); 11 }
    }
}

/// The payload of a snapshot in a normalised, comparable form.
#[derive(Clone, Debug, Default, PartialEq, Eq)]
pub struct Payload {
    /// "prefix/len-maxlen ASn"
    pub origins: BTreeSet<String>,
    /// "ASn ski-hex key-hex-prefix"
    pub keys: BTreeSet<String>,
    /// "ASn => [providers]"
    pub aspas: BTreeSet<String>,
    /// Number of items in the snapshot (to detect duplicates).
    pub count: usize,
    /// Refresh time (unix seconds).
    pub refresh: Option<i64>,
}

pub fn origin_str(prefix: &str, max: u8, asn: u32) -> String {
    format!("{prefix}-{max} AS{asn}")
}

pub fn payload_of(s: &PayloadSnapshot) -> Payload {
    let mut p = Payload::default();
    for (o, _) in s.origins() {
        p.origins.insert(format!("{}/{}-{} {}", o.prefix.addr(), o.prefix.prefix_len(), o.prefix.resolved_max_len(), o.asn));
        p.count += 1;
    }
    for (k, _) in s.router_keys() {
        let key: String = k.key_info.as_slice().iter().rev().take(8).map(|b| format!("{b:02x}")).collect();
        p.keys.insert(format!("{} {} {}", k.asn, k.key_identifier, key));
        p.count += 1;
    }
    for (a, _) in s.aspas() {
        let provs: Vec<String> = a.providers.iter().map(|x| format!("{x}")).collect();
        p.aspas.insert(format!("{} => [{}]", a.customer, provs.join(",")));
        p.count += 1;
    }
    p.refresh = s.refresh().map(|t| t.timestamp());
    p
}

#[derive(Debug)]
pub enum RunError {
    Init(String),
    Retry,
    Fatal,
}

pub struct RunResult {
    pub payload: Payload,
    pub snapshot: PayloadSnapshot,
    pub metrics: Metrics,
}

/// One validation run the way `routinator vrps` does it (engine, report,
/// cleanup, snapshot), with the given exceptions.
pub fn run_once(config: &Config, update: bool, exceptions: &LocalExceptions) -> Result<RunResult, RunError> {
    init_process();
    let mut engine = Engine::new(config, update).map_err(|_| RunError::Init("Engine::new failed".into()))?;
    engine.ignite().map_err(|_| RunError::Init("ignite failed".into()))?;
    run_with_engine(&engine, config, exceptions)
}

pub fn run_with_engine(engine: &Engine, config: &Config, exceptions: &LocalExceptions) -> Result<RunResult, RunError> {
    let (report, mut metrics) = ValidationReport::process(engine, config, false).map_err(|e| {
        if e.is_fatal() { RunError::Fatal } else { RunError::Retry }
    })?;
    let snapshot = report.into_snapshot(exceptions, &mut metrics);
    Ok(RunResult { payload: payload_of(&snapshot), snapshot, metrics })
}

pub fn dir_listing(root: &Path) -> BTreeSet<String> {
    fn walk(base: &Path, dir: &Path, out: &mut BTreeSet<String>) {
        if let Ok(rd) = std::fs::read_dir(dir) {
            for e in rd.flatten() {
                let p = e.path();
                if p.is_dir() { walk(base, &p, out) }
                else { out.insert(p.strip_prefix(base).unwrap().to_string_lossy().into_owned()); }
            }
        }
    }
    let mut out = BTreeSet::new();
    walk(root, root, &mut out);
    out
}
