//! An RRDP server double answering through the in-process HTTP interceptor
//! (hook H1, `routinator::verif::set_http_override`).
//!
//! One `RrdpServer` = one host name (`rrdp-<n>.verif.test`).  The handler that
//! is installed process-wide dispatches by host, so several servers (one per
//! test bed / worker thread) can live in one process.
//!
//! A server keeps every version it ever published: `(session, serial, object
//! map, delta from its parent version)`.  The notification file announces the
//! *current* version (which can be moved backwards and forwards: a CDN serving
//! an old notification), its snapshot and the chain of deltas leading to it.
//! All XML is rendered by hand (so that it can also be rendered wrongly) with
//! real SHA-256 hashes; `self_test` parses the output with the `rpki` crate.
//!
//! Faults are described by a `FaultPlan` that stays in force until it is
//! replaced.  Every request is logged.
//!
//! The hook answers with a complete body: the HTTP client of routinator always
//! sees a known content length.  A 4xx/5xx status stands for "request failed"
//! (routinator turns both into an error).

use std::collections::{BTreeMap, HashMap};
use std::sync::{Arc, Mutex, Once, OnceLock};
use std::sync::atomic::{AtomicUsize, Ordering};
use bytes::Bytes;
use uuid::Uuid;
use routinator::verif::HttpReply;

pub type Objects = BTreeMap<String, Bytes>;

pub const NS: &str = "http://www.ripe.net/rpki/rrdp";

pub fn sha256(data: &[u8]) -> [u8; 32] { openssl::sha::sha256(data) }

pub fn hex(data: &[u8]) -> String { data.iter().map(|b| format!("{b:02x}")).collect() }

fn b64(data: &[u8]) -> String { rpki::util::base64::Xml.encode(data) }

//------------ Delta elements --------------------------------------------------

#[derive(Clone, Debug, PartialEq, Eq)]
pub enum Elem {
    Publish { uri: String, data: Bytes },
    Update { uri: String, old: [u8; 32], data: Bytes },
    Withdraw { uri: String, old: [u8; 32] },
}

impl Elem {
    pub fn uri(&self) -> &str {
        match self { Elem::Publish { uri, .. } | Elem::Update { uri, .. } | Elem::Withdraw { uri, .. } => uri }
    }

    fn render(&self, out: &mut String) {
        match self {
            Elem::Publish { uri, data } => {
                out.push_str(&format!("  <publish uri=\"{uri}\">{}</publish>\n", b64(data)));
            }
            Elem::Update { uri, old, data } => {
                out.push_str(&format!("  <publish uri=\"{uri}\" hash=\"{}\">{}</publish>\n", hex(old), b64(data)));
            }
            Elem::Withdraw { uri, old } => {
                out.push_str(&format!("  <withdraw uri=\"{uri}\" hash=\"{}\"/>\n", hex(old)));
            }
        }
    }
}

/// The elements turning `from` into `to`.  `order` lists URIs that come first
/// (in that order); the others follow in URI order.
pub fn diff(from: &Objects, to: &Objects, order: &[String]) -> Vec<Elem> {
    let mut first: Vec<String> = Vec::new();
    for u in order {
        if (from.contains_key(u) || to.contains_key(u)) && !first.contains(u) { first.push(u.clone()) }
    }
    let rest: std::collections::BTreeSet<String> = from.keys().chain(to.keys())
        .filter(|u| !first.contains(u)).cloned().collect();
    let mut res = Vec::new();
    for u in first.into_iter().chain(rest) {
        match (from.get(&u), to.get(&u)) {
            (None, Some(d)) => res.push(Elem::Publish { uri: u.clone(), data: d.clone() }),
            (Some(o), Some(d)) if o != d => res.push(Elem::Update { uri: u.clone(), old: sha256(o), data: d.clone() }),
            (Some(o), None) => res.push(Elem::Withdraw { uri: u.clone(), old: sha256(o) }),
            _ => {}
        }
    }
    res
}

//------------ Faults ----------------------------------------------------------

/// What is wrong with the delta list of the notification file.
#[derive(Clone, Debug, Default, PartialEq, Eq)]
pub enum ListFault {
    #[default]
    None,
    /// The `n` oldest deltas are missing.
    Truncate(usize),
    /// No deltas at all are listed.
    DropAll,
    /// The delta with this serial is missing (a gap if it is in the middle).
    Gap(u64),
    /// The delta with this serial is listed twice.
    Duplicate(u64),
    /// The newest delta (serial = notification serial) is missing.
    DropLast,
}

/// What is wrong with a snapshot or delta file.
#[derive(Clone, Debug, Default, PartialEq, Eq)]
pub enum FileFault {
    #[default]
    None,
    /// The request is answered with this status (4xx/5xx = failed request).
    Http(u16),
    /// The XML breaks off after `n` elements (garbage follows).
    BadXmlAt(usize),
    /// Element `n` refers to its object with a wrong hash (a plain publish
    /// becomes an update of an object that does not exist).  Deltas only.
    WrongHashAt(usize),
    /// A withdraw of an object nobody ever published is inserted before element `n`.  Deltas only.
    WithdrawUnknownAt(usize),
    /// A publish of a new object of `size` bytes is inserted before element `n`.
    OversizeAt(usize, usize),
    /// The file served is not the one the notification file vouches for: the
    /// content of its last published object differs (a comment is appended if
    /// it publishes nothing).  It parses and every element applies.
    ContentAltered,
    /// The session_id attribute of the file is a different one.
    WrongSession,
    /// The serial attribute of the file is a different one.
    WrongSerial,
    /// Element `n` is repeated right after itself.
    RepeatAt(usize),
}

#[derive(Clone, Debug, Default)]
pub struct FaultPlan {
    /// Answer the notification request with this status.
    pub notify_status: Option<u16>,
    /// Serve a notification file that is not well-formed.
    pub notify_bad_xml: bool,
    /// The notification lists a wrong hash for the snapshot.
    pub snapshot_hash_wrong: bool,
    pub list: ListFault,
    /// The notification lists a different hash for the delta with this serial
    /// than the file has (and than was listed before).
    pub mutate_hash: Option<u64>,
    pub snapshot: FileFault,
    /// (serial, fault) of one delta file.
    pub delta: Option<(u64, FileFault)>,
}

impl FaultPlan {
    pub fn is_clean(&self) -> bool {
        self.notify_status.is_none() && !self.notify_bad_xml && !self.snapshot_hash_wrong
            && self.list == ListFault::None && self.mutate_hash.is_none()
            && self.snapshot == FileFault::None && self.delta.is_none()
    }
}

//------------ Requests --------------------------------------------------------

#[derive(Clone, Debug, PartialEq, Eq)]
pub enum ReqKind { Notify, Snapshot(u64), Delta(u64), File, Unknown }

#[derive(Clone, Debug)]
pub struct Request {
    pub uri: String,
    pub kind: ReqKind,
    pub if_none_match: Option<String>,
    pub if_modified_since: Option<i64>,
    pub status: u16,
    pub body_len: usize,
}

//------------ Server state ----------------------------------------------------

#[derive(Clone, Debug)]
pub struct Version {
    pub session: Uuid,
    pub serial: u64,
    pub objects: Objects,
    /// The version this one was derived from and the elements leading here
    /// (`None` for the first version of a session).
    pub parent: Option<usize>,
    pub delta: Vec<Elem>,
}

pub struct State {
    pub host: String,
    pub versions: Vec<Version>,
    /// Index of the announced version.
    pub cur: Option<usize>,
    pub files: BTreeMap<String, Bytes>,
    pub use_etag: bool,
    /// The server honours If-Modified-Since although it sends no Last-Modified itself.
    pub ims_silently: bool,
    pub use_last_modified: bool,
    /// Number of deltas kept in the notification file.
    pub retain: usize,
    pub faults: FaultPlan,
    pub log: Vec<Request>,
    session_counter: u32,
    seed: u64,
    /// Intact renderings and their hashes: (is_delta, version index) -> (body, sha256).
    cache: std::cell::RefCell<HashMap<(bool, usize), Arc<(Vec<u8>, [u8; 32])>>>,
}

const MTIME_BASE: i64 = 1_700_000_000;

impl State {
    fn new(host: String, seed: u64) -> Self {
        State {
            host, versions: Vec::new(), cur: None, files: BTreeMap::new(), use_etag: true, ims_silently: false, use_last_modified: true,
            retain: 100, faults: FaultPlan::default(), log: Vec::new(), session_counter: 0, seed,
            cache: Default::default(),
        }
    }

    fn fresh_session(&mut self) -> Uuid {
        self.session_counter += 1;
        // deterministic, distinct per server and per session
        let mut b = [0u8; 16];
        b[..8].copy_from_slice(&sha256(self.host.as_bytes())[..8]);
        b[8..12].copy_from_slice(&self.session_counter.to_be_bytes());
        b[12..16].copy_from_slice(&(self.seed as u32).to_be_bytes());
        b[6] = (b[6] & 0x0f) | 0x40;
        b[8] = (b[8] & 0x3f) | 0x80;
        Uuid::from_bytes(b)
    }

    pub fn notify_uri(&self) -> String { format!("https://{}/notify.xml", self.host) }

    fn snapshot_uri(&self, idx: usize) -> String {
        let v = &self.versions[idx];
        format!("https://{}/{}/{}/snapshot-{}.xml", self.host, v.session, v.serial, idx)
    }

    fn delta_uri(&self, idx: usize) -> String {
        let v = &self.versions[idx];
        format!("https://{}/{}/{}/delta-{}.xml", self.host, v.session, v.serial, idx)
    }

    /// The chain of version indexes whose deltas lead to `idx` (oldest first).
    fn delta_chain(&self, idx: usize) -> Vec<usize> {
        let mut chain = Vec::new();
        let mut i = idx;
        while let Some(p) = self.versions[i].parent {
            if self.versions[p].session != self.versions[i].session { break }
            chain.push(i);
            i = p;
            if chain.len() >= self.retain { break }
        }
        chain.reverse();
        chain
    }

    pub fn render_snapshot(&self, idx: usize, fault: &FileFault) -> Vec<u8> {
        let v = &self.versions[idx];
        let mut session = v.session.to_string();
        let mut serial = v.serial;
        match fault {
            FileFault::WrongSession => session = Uuid::from_u128(v.session.as_u128() ^ 1).to_string(),
            FileFault::WrongSerial => serial += 7,
            _ => {}
        }
        let mut out = format!("<snapshot xmlns=\"{NS}\" version=\"1\" session_id=\"{session}\" serial=\"{serial}\">\n");
        for (n, (uri, data)) in v.objects.iter().enumerate() {
            match fault {
                FileFault::BadXmlAt(k) if *k == n => { out.push_str("  <publish uri=<<< this is not xml\n"); return out.into_bytes() }
                FileFault::OversizeAt(k, size) if *k == n => {
                    out.push_str(&format!("  <publish uri=\"rsync://{}/repo/oversize.bin\">{}</publish>\n", self.host, b64(&vec![0x55u8; *size])));
                }
                _ => {}
            }
            if *fault == FileFault::ContentAltered && n + 1 == v.objects.len() {
                let mut d = data.to_vec(); d.extend_from_slice(b" (altered)");
                out.push_str(&format!("  <publish uri=\"{uri}\">{}</publish>\n", b64(&d)));
                continue
            }
            out.push_str(&format!("  <publish uri=\"{uri}\">{}</publish>\n", b64(data)));
            if let FileFault::RepeatAt(k) = fault {
                if *k == n { out.push_str(&format!("  <publish uri=\"{uri}\">{}</publish>\n", b64(data))); }
            }
        }
        let n = v.objects.len();
        if *fault == FileFault::ContentAltered && n == 0 { out.push_str("  <!-- altered -->\n"); }
        match fault {
            FileFault::BadXmlAt(k) if *k >= n => { out.push_str("  <publish uri=<<< this is not xml\n"); return out.into_bytes() }
            FileFault::OversizeAt(k, size) if *k >= n => {
                out.push_str(&format!("  <publish uri=\"rsync://{}/repo/oversize.bin\">{}</publish>\n", self.host, b64(&vec![0x55u8; *size])));
            }
            _ => {}
        }
        out.push_str("</snapshot>\n");
        out.into_bytes()
    }

    pub fn render_delta(&self, idx: usize, fault: &FileFault) -> Vec<u8> {
        let v = &self.versions[idx];
        let mut session = v.session.to_string();
        let mut serial = v.serial;
        match fault {
            FileFault::WrongSession => session = Uuid::from_u128(v.session.as_u128() ^ 1).to_string(),
            FileFault::WrongSerial => serial += 7,
            _ => {}
        }
        let mut out = format!("<delta xmlns=\"{NS}\" version=\"1\" session_id=\"{session}\" serial=\"{serial}\">\n");
        let n = v.delta.len();
        for pos in 0..=n {
            match fault {
                FileFault::BadXmlAt(k) if (*k).min(n) == pos => {
                    out.push_str("  <withdraw uri=<<< this is not xml\n");
                    return out.into_bytes()
                }
                FileFault::WithdrawUnknownAt(k) if (*k).min(n) == pos => {
                    out.push_str(&format!("  <withdraw uri=\"rsync://{}/repo/never-published.roa\" hash=\"{}\"/>\n",
                        self.host, hex(&sha256(b"never published"))));
                }
                FileFault::OversizeAt(k, size) if (*k).min(n) == pos => {
                    out.push_str(&format!("  <publish uri=\"rsync://{}/repo/oversize.bin\">{}</publish>\n", self.host, b64(&vec![0x55u8; *size])));
                }
                _ => {}
            }
            if pos == n { break }
            let e = &v.delta[pos];
            let last_publishing = v.delta.iter().rposition(|e| !matches!(e, Elem::Withdraw { .. }));
            match fault {
                FileFault::ContentAltered if last_publishing == Some(pos) => {
                    let e2 = match e {
                        Elem::Publish { uri, data } => { let mut d = data.to_vec(); d.extend_from_slice(b" (altered)"); Elem::Publish { uri: uri.clone(), data: Bytes::from(d) } }
                        Elem::Update { uri, old, data } => { let mut d = data.to_vec(); d.extend_from_slice(b" (altered)"); Elem::Update { uri: uri.clone(), old: *old, data: Bytes::from(d) } }
                        w => w.clone(),
                    };
                    e2.render(&mut out);
                }
                FileFault::WrongHashAt(k) if (*k).min(n.saturating_sub(1)) == pos => {
                    let bogus = sha256(b"some other content");
                    let e2 = match e {
                        Elem::Publish { uri, data } => Elem::Update { uri: uri.clone(), old: bogus, data: data.clone() },
                        Elem::Update { uri, data, .. } => Elem::Update { uri: uri.clone(), old: bogus, data: data.clone() },
                        Elem::Withdraw { uri, .. } => Elem::Withdraw { uri: uri.clone(), old: bogus },
                    };
                    e2.render(&mut out);
                }
                _ => e.render(&mut out),
            }
            if let FileFault::RepeatAt(k) = fault {
                if (*k).min(n.saturating_sub(1)) == pos { e.render(&mut out) }
            }
        }
        if *fault == FileFault::ContentAltered && !v.delta.iter().any(|e| !matches!(e, Elem::Withdraw { .. })) {
            out.push_str("  <!-- altered -->\n");
        }
        out.push_str("</delta>\n");
        out.into_bytes()
    }

    fn intact(&self, is_delta: bool, idx: usize) -> Arc<(Vec<u8>, [u8; 32])> {
        if let Some(hit) = self.cache.borrow().get(&(is_delta, idx)) { return hit.clone() }
        let body = if is_delta { self.render_delta(idx, &FileFault::None) } else { self.render_snapshot(idx, &FileFault::None) };
        let hash = sha256(&body);
        let res = Arc::new((body, hash));
        self.cache.borrow_mut().insert((is_delta, idx), res.clone());
        res
    }

    /// The hash the notification file gives for a snapshot / delta file.  It is
    /// that of the intact file: every faulty rendering fails while it is
    /// processed, before the hash is compared.
    fn snapshot_listed_hash(&self, idx: usize) -> [u8; 32] {
        let mut hash = self.intact(false, idx).1;
        if self.faults.snapshot_hash_wrong { hash[0] ^= 0xff; }
        hash
    }

    fn delta_listed_hash(&self, idx: usize) -> [u8; 32] {
        let mut hash = self.intact(true, idx).1;
        if self.faults.mutate_hash == Some(self.versions[idx].serial) { hash[31] ^= 0x01; }
        hash
    }

    /// The bytes of a snapshot / delta file as served under the current fault plan.
    fn snapshot_body(&self, idx: usize) -> Vec<u8> {
        match &self.faults.snapshot {
            FileFault::None | FileFault::Http(_) => self.intact(false, idx).0.clone(),
            fault => self.render_snapshot(idx, fault),
        }
    }

    fn delta_body(&self, idx: usize) -> Vec<u8> {
        let serial = self.versions[idx].serial;
        match &self.faults.delta {
            Some((s, fault)) if *s == serial => match fault {
                FileFault::None | FileFault::Http(_) => self.intact(true, idx).0.clone(),
                fault => self.render_delta(idx, fault),
            },
            _ => self.intact(true, idx).0.clone(),
        }
    }

    fn snapshot_served(&self, idx: usize) -> (Vec<u8>, [u8; 32]) { (self.snapshot_body(idx), self.snapshot_listed_hash(idx)) }
    fn delta_served(&self, idx: usize) -> (Vec<u8>, [u8; 32]) { (self.delta_body(idx), self.delta_listed_hash(idx)) }

    pub fn render_notification(&self) -> Option<Vec<u8>> {
        let cur = self.cur?;
        let v = &self.versions[cur];
        if self.faults.notify_bad_xml {
            return Some(format!("<notification xmlns=\"{NS}\" version=\"1\" session_id=\"{}\" serial=\"{}\">\n  <snapshot uri=\n",
                v.session, v.serial).into_bytes())
        }
        let mut out = format!("<notification xmlns=\"{NS}\" version=\"1\" session_id=\"{}\" serial=\"{}\">\n", v.session, v.serial);
        out.push_str(&format!("  <snapshot uri=\"{}\" hash=\"{}\"/>\n", self.snapshot_uri(cur), hex(&self.snapshot_listed_hash(cur))));
        let mut chain = self.delta_chain(cur);
        match &self.faults.list {
            ListFault::None => {}
            ListFault::Truncate(n) => { let n = (*n).min(chain.len()); chain.drain(..n); }
            ListFault::DropAll => chain.clear(),
            ListFault::Gap(s) => chain.retain(|i| self.versions[*i].serial != *s),
            ListFault::Duplicate(s) => {
                if let Some(p) = chain.iter().position(|i| self.versions[*i].serial == *s) { let d = chain[p]; chain.insert(p, d); }
            }
            ListFault::DropLast => { chain.pop(); }
        }
        // newest first, as real servers do; the client sorts
        for i in chain.iter().rev() {
            out.push_str(&format!("  <delta serial=\"{}\" uri=\"{}\" hash=\"{}\"/>\n",
                self.versions[*i].serial, self.delta_uri(*i), hex(&self.delta_listed_hash(*i))));
        }
        out.push_str("</notification>\n");
        Some(out.into_bytes())
    }

    fn etag_of(body: &[u8]) -> String { format!("\"{}\"", hex(&sha256(body)[..12])) }

    /// Logical modification time of the notification: a function of its content's version.
    fn mtime(&self) -> i64 { MTIME_BASE + 10 * self.cur.unwrap_or(0) as i64 + if self.faults.is_clean() { 0 } else { 5 } }

    fn classify(&self, path: &str) -> (ReqKind, Option<usize>) {
        if path == "/notify.xml" { return (ReqKind::Notify, None) }
        let name = path.rsplit('/').next().unwrap_or("");
        let idx = |prefix: &str| -> Option<usize> {
            name.strip_prefix(prefix)?.strip_suffix(".xml")?.parse::<usize>().ok().filter(|i| *i < self.versions.len())
        };
        if let Some(i) = idx("snapshot-") { return (ReqKind::Snapshot(self.versions[i].serial), Some(i)) }
        if let Some(i) = idx("delta-") { return (ReqKind::Delta(self.versions[i].serial), Some(i)) }
        if self.files.contains_key(path) { return (ReqKind::File, None) }
        (ReqKind::Unknown, None)
    }

    fn serve(&mut self, uri: &str, inm: Option<&[u8]>, ims: Option<i64>) -> HttpReply {
        let path = uri.strip_prefix("https://").and_then(|r| r.find('/').map(|p| &r[p..])).unwrap_or("/").to_string();
        let (kind, idx) = self.classify(&path);
        let xml = vec![("Content-Type".to_string(), "application/xml".to_string())];
        let reply = match kind {
            ReqKind::Notify => {
                if let Some(st) = self.faults.notify_status { HttpReply { status: st, headers: vec![], body: b"error".to_vec() } }
                else {
                    match self.render_notification() {
                        None => HttpReply { status: 404, headers: vec![], body: b"nothing published".to_vec() },
                        Some(body) => {
                            let etag = Self::etag_of(&body);
                            let mtime = self.mtime();
                            let mut headers = xml.clone();
                            if self.use_etag { headers.push(("ETag".into(), etag.clone())); }
                            if self.use_last_modified {
                                headers.push(("Last-Modified".into(), http_date(mtime)));
                            }
                            let not_modified = match inm {
                                Some(tag) if self.use_etag => tag == etag.as_bytes(),
                                _ => match ims { Some(t) if self.use_last_modified || self.ims_silently => t >= mtime, _ => false },
                            };
                            if not_modified { HttpReply { status: 304, headers, body: Vec::new() } }
                            else { HttpReply { status: 200, headers, body } }
                        }
                    }
                }
            }
            ReqKind::Snapshot(_) => {
                let i = idx.unwrap();
                match self.faults.snapshot {
                    FileFault::Http(st) => HttpReply { status: st, headers: vec![], body: b"error".to_vec() },
                    _ => HttpReply { status: 200, headers: xml, body: self.snapshot_body(i) },
                }
            }
            ReqKind::Delta(serial) => {
                let i = idx.unwrap();
                match &self.faults.delta {
                    Some((s, FileFault::Http(st))) if *s == serial => HttpReply { status: *st, headers: vec![], body: b"error".to_vec() },
                    _ => HttpReply { status: 200, headers: xml, body: self.delta_body(i) },
                }
            }
            ReqKind::File => HttpReply { status: 200, headers: vec![], body: self.files[&path].to_vec() },
            ReqKind::Unknown => HttpReply { status: 404, headers: vec![], body: b"not found".to_vec() },
        };
        self.log.push(Request {
            uri: uri.to_string(), kind, if_none_match: inm.map(|t| String::from_utf8_lossy(t).into_owned()),
            if_modified_since: ims, status: reply.status, body_len: reply.body.len(),
        });
        reply
    }
}

pub fn http_date(ts: i64) -> String {
    chrono::DateTime::from_timestamp(ts, 0).unwrap().format("%a, %d %b %Y %H:%M:%S GMT").to_string()
}

//------------ Registry and dispatch -------------------------------------------

type Registry = Mutex<HashMap<String, Arc<Mutex<State>>>>;

fn registry() -> &'static Registry {
    static REG: OnceLock<Registry> = OnceLock::new();
    REG.get_or_init(|| Mutex::new(HashMap::new()))
}

static COUNTER: AtomicUsize = AtomicUsize::new(0);

/// Requests for hosts no server is registered for.
pub fn stray_requests() -> Vec<String> {
    STRAY.get_or_init(|| Mutex::new(Vec::new())).lock().unwrap().clone()
}
static STRAY: OnceLock<Mutex<Vec<String>>> = OnceLock::new();

pub fn host_of(uri: &str) -> String {
    let rest = uri.strip_prefix("https://").unwrap_or(uri);
    let auth = rest.split('/').next().unwrap_or("");
    auth.split(':').next().unwrap_or("").to_ascii_lowercase()
}

/// Installs the process-wide HTTP handler (idempotent).
pub fn install() {
    static ONCE: Once = Once::new();
    ONCE.call_once(|| {
        routinator::verif::set_http_override(Some(Arc::new(|uri: &str, inm: Option<&[u8]>, ims: Option<i64>| {
            let host = host_of(uri);
            let state = registry().lock().unwrap().get(&host).cloned();
            match state {
                Some(state) => state.lock().unwrap().serve(uri, inm, ims),
                None => {
                    STRAY.get_or_init(|| Mutex::new(Vec::new())).lock().unwrap().push(uri.to_string());
                    HttpReply { status: 502, headers: vec![], body: b"no such host".to_vec() }
                }
            }
        })));
    });
}

/// Handle of one RRDP server double.
pub struct RrdpServer {
    pub host: String,
    state: Arc<Mutex<State>>,
}

impl RrdpServer {
    pub fn new() -> Self {
        install();
        let n = COUNTER.fetch_add(1, Ordering::SeqCst) + 1;
        let host = format!("rrdp-{}-{}.verif.test", std::process::id(), n);
        let state = Arc::new(Mutex::new(State::new(host.clone(), n as u64)));
        registry().lock().unwrap().insert(host.clone(), state.clone());
        RrdpServer { host, state }
    }

    pub fn with<T>(&self, f: impl FnOnce(&mut State) -> T) -> T { f(&mut self.state.lock().unwrap()) }

    pub fn notify_uri(&self) -> String { format!("https://{}/notify.xml", self.host) }

    /// rsync base URI conventionally used for objects of this server.
    pub fn rsync_base(&self) -> String { format!("rsync://{}/repo/", self.host) }

    /// Forgets everything (versions, files, faults, log); validators on.
    pub fn reset(&self) {
        self.with(|s| {
            s.versions.clear(); s.cur = None; s.files.clear(); s.cache.borrow_mut().clear(); s.faults = FaultPlan::default(); s.log.clear();
            s.use_etag = true; s.use_last_modified = true; s.ims_silently = false; s.retain = 100;
        })
    }

    /// Starts a new session at `serial` with the given objects; returns the version index.
    pub fn new_session(&self, serial: u64, objects: Objects) -> usize {
        self.with(|s| {
            let session = s.fresh_session();
            let parent = s.cur;
            s.versions.push(Version { session, serial, objects, parent, delta: Vec::new() });
            s.cur = Some(s.versions.len() - 1);
            s.versions.len() - 1
        })
    }

    /// Publishes a new version derived from the announced one (serial + 1).
    /// `order`: URIs whose delta elements come first, in that order.
    pub fn publish_ordered(&self, objects: Objects, order: &[String]) -> usize {
        self.with(|s| {
            let cur = match s.cur { Some(c) => c, None => {
                let session = s.fresh_session();
                s.versions.push(Version { session, serial: 1, objects, parent: None, delta: Vec::new() });
                s.cur = Some(s.versions.len() - 1);
                return s.versions.len() - 1
            } };
            let delta = diff(&s.versions[cur].objects, &objects, order);
            let v = Version { session: s.versions[cur].session, serial: s.versions[cur].serial + 1, objects, parent: Some(cur), delta };
            s.versions.push(v);
            s.cur = Some(s.versions.len() - 1);
            s.versions.len() - 1
        })
    }

    pub fn publish(&self, objects: Objects) -> usize { self.publish_ordered(objects, &[]) }

    /// Forgets the newest version (and every cached rendering); the caller announces another one.
    pub fn pop_version(&self) {
        self.with(|s| { s.versions.pop(); s.cache.borrow_mut().clear(); s.cur = None; })
    }

    /// Announces version `idx` (an older one: serial jump backwards; the newest again: forwards).
    pub fn announce(&self, idx: usize) { self.with(|s| { assert!(idx < s.versions.len()); s.cur = Some(idx) }) }

    pub fn current(&self) -> Option<(usize, Uuid, u64)> {
        self.with(|s| s.cur.map(|c| (c, s.versions[c].session, s.versions[c].serial)))
    }

    pub fn version(&self, idx: usize) -> Version { self.with(|s| s.versions[idx].clone()) }

    /// Object maps of all versions published as (session, serial).
    pub fn objects_at(&self, session: Uuid, serial: u64) -> Vec<Objects> {
        self.with(|s| s.versions.iter().filter(|v| v.session == session && v.serial == serial).map(|v| v.objects.clone()).collect())
    }

    pub fn set_faults(&self, plan: FaultPlan) { self.with(|s| s.faults = plan) }
    pub fn clear_faults(&self) { self.set_faults(FaultPlan::default()) }

    pub fn set_validators(&self, etag: bool, last_modified: bool) {
        self.with(|s| { s.use_etag = etag; s.use_last_modified = last_modified; s.ims_silently = false })
    }

    /// No validators are sent, If-Modified-Since is honoured all the same.
    pub fn set_ims_silently(&self) {
        self.with(|s| { s.use_etag = false; s.use_last_modified = false; s.ims_silently = true })
    }

    /// Serves `bytes` at `https://<host><path>` (e.g. a trust anchor certificate).
    pub fn put_file(&self, path: &str, bytes: Bytes) -> String {
        self.with(|s| { s.files.insert(path.to_string(), bytes); });
        format!("https://{}{}", self.host, path)
    }

    pub fn take_log(&self) -> Vec<Request> { self.with(|s| std::mem::take(&mut s.log)) }
}

impl Drop for RrdpServer {
    fn drop(&mut self) {
        registry().lock().unwrap().remove(&self.host);
    }
}

//------------ Self test -------------------------------------------------------

/// Renders a small history and parses every file with the `rpki` crate.
pub fn self_test() -> Result<(), String> {
    use rpki::rrdp::{Delta, NotificationFile, Snapshot};
    let srv = RrdpServer::new();
    let base = srv.rsync_base();
    let obj = |n: &str, c: &str| (format!("{base}{n}"), Bytes::from(c.as_bytes().to_vec()));
    srv.publish([obj("a.roa", "a1"), obj("b.roa", "b1")].into_iter().collect());
    srv.publish([obj("a.roa", "a2"), obj("c.roa", "c2")].into_iter().collect());
    srv.publish([obj("a.roa", "a2"), obj("c.roa", "c3")].into_iter().collect());
    let (notify, snap, deltas) = srv.with(|s| {
        let n = s.render_notification().unwrap();
        (n, s.snapshot_served(2), vec![s.delta_served(1), s.delta_served(2)])
    });
    let n = NotificationFile::parse(notify.as_slice()).map_err(|e| format!("notification: {e}"))?;
    if n.serial() != 3 || n.deltas().len() != 2 { return Err("notification content".into()) }
    if n.snapshot().hash().as_slice() != snap.1 { return Err("snapshot hash".into()) }
    let s = Snapshot::parse(snap.0.as_slice()).map_err(|e| format!("snapshot: {e}"))?;
    if s.serial() != 3 || s.elements().len() != 2 { return Err("snapshot content".into()) }
    for (i, (body, hash)) in deltas.iter().enumerate() {
        let d = Delta::parse(body.as_slice()).map_err(|e| format!("delta: {e}"))?;
        if d.serial() != i as u64 + 2 { return Err("delta serial".into()) }
        let listed = n.deltas().iter().find(|x| x.serial() == d.serial()).ok_or("delta not listed")?;
        if listed.hash().as_slice() != hash { return Err("delta hash".into()) }
    }
    let d = Delta::parse(deltas[0].0.as_slice()).unwrap();
    if d.elements().len() != 3 { return Err(format!("delta 2 has {} elements", d.elements().len())) }
    Ok(())
}
