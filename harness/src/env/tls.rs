//! A loopback HTTPS file server reached through an HTTP CONNECT proxy, for
//! the one thing the in-process interceptor (hook H1) cannot do: answer
//! *without* a Content-Length (chunked transfer).  Hook-free: routinator is
//! pointed at it with `rrdp-proxy` (any host name is tunnelled to this
//! server) and trusts it through `rrdp-root-cert` (a CA made on the spot with
//! the openssl crate).  Must not be used in a process that installed the
//! interceptor.

use std::collections::HashMap;
use std::io::{Read, Write};
use std::net::{TcpListener, TcpStream};
use std::path::{Path, PathBuf};
use std::sync::{Arc, Mutex};
use openssl::asn1::Asn1Time;
use openssl::bn::{BigNum, MsbOption};
use openssl::hash::MessageDigest;
use openssl::pkey::{PKey, Private};
use openssl::rsa::Rsa;
use openssl::ssl::{SslAcceptor, SslMethod};
use openssl::x509::extension::{BasicConstraints, ExtendedKeyUsage, KeyUsage, SubjectAlternativeName};
use openssl::x509::{X509NameBuilder, X509};

#[derive(Clone)]
pub struct Served {
    pub body: Arc<Vec<u8>>,
    /// Send a Content-Length header (otherwise chunked transfer coding).
    pub content_length: bool,
}

pub struct TlsServer {
    pub host: String,
    pub port: u16,
    pub ca_pem: PathBuf,
    files: Arc<Mutex<HashMap<String, Served>>>,
    log: Arc<Mutex<Vec<String>>>,
}

fn name(cn: &str) -> openssl::x509::X509Name {
    let mut b = X509NameBuilder::new().unwrap();
    b.append_entry_by_text("CN", cn).unwrap();
    b.build()
}

fn serial() -> openssl::asn1::Asn1Integer {
    let mut bn = BigNum::new().unwrap();
    bn.rand(100, MsbOption::MAYBE_ZERO, false).unwrap();
    bn.to_asn1_integer().unwrap()
}

fn make_certs(host: &str) -> (X509, X509, PKey<Private>) {
    let ca_key = PKey::from_rsa(Rsa::generate(2048).unwrap()).unwrap();
    let mut b = X509::builder().unwrap();
    b.set_version(2).unwrap();
    b.set_serial_number(&serial()).unwrap();
    b.set_subject_name(&name("verif loopback ca")).unwrap();
    b.set_issuer_name(&name("verif loopback ca")).unwrap();
    b.set_pubkey(&ca_key).unwrap();
    b.set_not_before(&Asn1Time::days_from_now(0).unwrap()).unwrap();
    b.set_not_after(&Asn1Time::days_from_now(30).unwrap()).unwrap();
    b.append_extension(BasicConstraints::new().critical().ca().build().unwrap()).unwrap();
    b.append_extension(KeyUsage::new().critical().key_cert_sign().crl_sign().build().unwrap()).unwrap();
    b.sign(&ca_key, MessageDigest::sha256()).unwrap();
    let ca = b.build();

    let key = PKey::from_rsa(Rsa::generate(2048).unwrap()).unwrap();
    let mut b = X509::builder().unwrap();
    b.set_version(2).unwrap();
    b.set_serial_number(&serial()).unwrap();
    b.set_subject_name(&name(host)).unwrap();
    b.set_issuer_name(ca.subject_name()).unwrap();
    b.set_pubkey(&key).unwrap();
    b.set_not_before(&Asn1Time::days_from_now(0).unwrap()).unwrap();
    b.set_not_after(&Asn1Time::days_from_now(30).unwrap()).unwrap();
    b.append_extension(BasicConstraints::new().build().unwrap()).unwrap();
    b.append_extension(KeyUsage::new().critical().digital_signature().key_encipherment().build().unwrap()).unwrap();
    b.append_extension(ExtendedKeyUsage::new().server_auth().build().unwrap()).unwrap();
    let san = SubjectAlternativeName::new().dns(host).build(&b.x509v3_context(Some(&ca), None)).unwrap();
    b.append_extension(san).unwrap();
    b.sign(&ca_key, MessageDigest::sha256()).unwrap();
    (ca, b.build(), key)
}

fn read_head(s: &mut impl Read) -> Option<String> {
    let mut buf = Vec::new();
    let mut one = [0u8; 1];
    while !buf.ends_with(b"\r\n\r\n") {
        match s.read(&mut one) { Ok(1) => buf.push(one[0]), _ => return None }
        if buf.len() > 65536 { return None }
    }
    Some(String::from_utf8_lossy(&buf).into_owned())
}

impl TlsServer {
    /// Starts the server; `dir` receives the CA certificate (PEM).
    pub fn start(host: &str, dir: &Path) -> Self {
        let (ca, cert, key) = make_certs(host);
        let ca_pem = dir.join("loopback-ca.pem");
        std::fs::write(&ca_pem, ca.to_pem().unwrap()).unwrap();
        let mut acc = SslAcceptor::mozilla_intermediate_v5(SslMethod::tls()).unwrap();
        acc.set_private_key(&key).unwrap();
        acc.set_certificate(&cert).unwrap();
        acc.check_private_key().unwrap();
        let acc = Arc::new(acc.build());
        let listener = TcpListener::bind("127.0.0.1:0").expect("bind loopback");
        let port = listener.local_addr().unwrap().port();
        let files: Arc<Mutex<HashMap<String, Served>>> = Default::default();
        let log: Arc<Mutex<Vec<String>>> = Default::default();
        {
            let (files, log) = (files.clone(), log.clone());
            std::thread::spawn(move || {
                for conn in listener.incoming() {
                    let Ok(conn) = conn else { continue };
                    let (acc, files, log) = (acc.clone(), files.clone(), log.clone());
                    std::thread::spawn(move || { let _ = Self::connection(conn, &acc, &files, &log); });
                }
            });
        }
        TlsServer { host: host.to_string(), port, ca_pem, files, log }
    }

    fn connection(mut conn: TcpStream, acc: &SslAcceptor, files: &Mutex<HashMap<String, Served>>, log: &Mutex<Vec<String>>) -> Option<()> {
        conn.set_read_timeout(Some(std::time::Duration::from_secs(20))).ok()?;
        let head = read_head(&mut conn)?;
        if !head.starts_with("CONNECT ") { conn.write_all(b"HTTP/1.1 400 Bad Request\r\n\r\n").ok()?; return None }
        log.lock().unwrap().push(head.lines().next().unwrap_or("").to_string());
        conn.write_all(b"HTTP/1.1 200 Connection established\r\n\r\n").ok()?;
        let mut tls = acc.accept(conn).ok()?;
        loop {
            let head = read_head(&mut tls)?;
            let line = head.lines().next().unwrap_or("").to_string();
            log.lock().unwrap().push(line.clone());
            let path = line.split_whitespace().nth(1).unwrap_or("/").to_string();
            let served = files.lock().unwrap().get(&path).cloned();
            match served {
                None => { tls.write_all(b"HTTP/1.1 404 Not Found\r\nContent-Length: 0\r\n\r\n").ok()?; }
                Some(f) if f.content_length => {
                    tls.write_all(format!("HTTP/1.1 200 OK\r\nContent-Type: application/octet-stream\r\nContent-Length: {}\r\n\r\n", f.body.len()).as_bytes()).ok()?;
                    tls.write_all(&f.body).ok()?;
                }
                Some(f) => {
                    tls.write_all(b"HTTP/1.1 200 OK\r\nContent-Type: application/octet-stream\r\nTransfer-Encoding: chunked\r\n\r\n").ok()?;
                    for chunk in f.body.chunks(60_000) {
                        tls.write_all(format!("{:x}\r\n", chunk.len()).as_bytes()).ok()?;
                        tls.write_all(chunk).ok()?;
                        tls.write_all(b"\r\n").ok()?;
                    }
                    tls.write_all(b"0\r\n\r\n").ok()?;
                }
            }
            tls.flush().ok()?;
        }
    }

    pub fn put(&self, path: &str, body: Vec<u8>, content_length: bool) -> String {
        self.files.lock().unwrap().insert(path.to_string(), Served { body: Arc::new(body), content_length });
        format!("https://{}{}", self.host, path)
    }

    pub fn proxy(&self) -> String { format!("http://127.0.0.1:{}", self.port) }

    pub fn take_log(&self) -> Vec<String> { std::mem::take(&mut self.log.lock().unwrap()) }
}
